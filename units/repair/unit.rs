// Unit `repair`: what the blockstore keeps and announces for a block obtained through repair
// (src/consensus/blockstore/slot_block_data.rs SlotBlockData::add_shred_from_repair).  Serves C14 (partial).
use vstd::prelude::*;
use std::collections::{BTreeMap, BTreeSet};

verus! {

/*@ include units/common/base_types.rs @*/

/*@ extract src/consensus/blockstore.rs :: struct BlockInfo
derive
@*/
/*@ extract src/consensus/blockstore.rs :: enum BlockstoreEvent
derive
@*/
/*@ extract src/consensus/blockstore/slot_block_data.rs :: enum AddShredError
derive Clone, Copy
@*/

// TRUSTED opaque stand-ins: their content is irrelevant here
#[verifier::external_body] pub struct ValidatedShred { _p: () }
#[verifier::external_body] pub struct RegularShredder { _p: () }

// BlockData (same file) is NOT under contract in this unit: it is seen through the hash of its completed block.
#[verifier::external_body] pub struct BlockData { _p: () }
impl BlockData {
    // hash of `self.completed`, if the block has been reconstructed
    pub uninterp spec fn completed_hash(&self) -> Option<BlockHash>;
    // ASSUMED contract of BlockData::add_shred (try_reconstruct_block is proved in unit `blockdata`: it sets `completed`
    // exactly when it returns Complete(info), to a block with hash info.hash, and never changes a completed block):
    // a Block event is returned exactly when this call completed the block, and carries the completed block's hash.
    // NOTHING relates that hash to the key under which the caller keeps this BlockData.
    #[verifier::external_body]
    pub fn add_shred(&mut self, shred: ValidatedShred, shredder: &mut RegularShredder) -> (r: Result<Option<BlockstoreEvent>, AddShredError>)
        ensures
            r matches Ok(Some(BlockstoreEvent::Block { slot, block_info })) ==>
                old(self).completed_hash() is None && final(self).completed_hash() == Some(block_info.hash),
            !(r matches Ok(Some(BlockstoreEvent::Block { .. }))) ==> final(self).completed_hash() == old(self).completed_hash(),
    { unimplemented!() }
}
pub uninterp spec fn spec_new_block_data(slot: Slot) -> BlockData;
#[verifier::external_body]
pub broadcast proof fn axiom_new_block_data(slot: Slot)
    ensures (#[trigger] spec_new_block_data(slot)).completed_hash() is None
{}

/*@ extract src/consensus/blockstore/slot_block_data.rs :: struct SlotBlockData
@*/

// R5: `self.repaired.entry(k).or_insert_with(|| BlockData::new(self.slot))`: the entry for k, created empty on first use.
// TRUSTED documented behaviour of BTreeMap::entry / or_insert_with.
#[verifier::external_body]
pub fn verif_repaired_entry(m: &mut BTreeMap<BlockHash, BlockData>, slot: Slot, k: BlockHash) -> (r: &mut BlockData)
    ensures
        *r == (if old(m)@.contains_key(k) { old(m)@[k] } else { spec_new_block_data(slot) }),
        final(m)@ == old(m)@.insert(k, *final(r)),
{ unimplemented!() }


// ================================================================ repair.rs: response handling
/*@ extract src/types/slice_index.rs :: struct SliceIndex
derive Clone, Copy
traits Eq OrdU64
@*/
/*@ extract src/shredder/shred_index.rs :: struct ShredIndex
derive Clone, Copy
traits Eq
@*/
/*@ extract src/crypto/merkle.rs :: struct SliceRoot
derive
traits Clone Eq
@*/
// TRUSTED opaque stand-ins
#[verifier::external_body] pub struct DoubleMerkleProof { _p: () }
#[verifier::external_body] pub struct PublicKey { _p: () }
#[verifier::external_body] pub struct SliceCommitment { _p: () }
#[verifier::external_body] pub struct IoError { _p: () }
// the parts of a Shred read by repair.rs (src/shredder.rs): header fields, shred index, derived slice root
pub struct SliceHeader { pub slot: Slot, pub slice_index: SliceIndex, pub is_last: bool }
pub struct ShredPayload { pub header: SliceHeader, pub shred_index: ShredIndex }
#[verifier::external_body] pub struct Shred { _p: () }
impl Shred {
    pub uninterp spec fn spec_payload(&self) -> ShredPayload;
    pub uninterp spec fn spec_slice_root(&self) -> SliceRoot;
    // the data/coding tag fits the shred's position (the tag is covered neither by the signature nor by the Merkle path)
    pub uninterp spec fn spec_tag_fits(&self) -> bool;
    #[verifier::external_body]
    pub fn payload(&self) -> (r: &ShredPayload) ensures *r == self.spec_payload() { unimplemented!() }
    #[verifier::external_body]
    pub fn slice_root(&self) -> (r: SliceRoot) ensures r == self.spec_slice_root() { unimplemented!() }
}
// "the leader with key pk signed exactly this shred's commitment (slot, slice, last flag, slice root)" (C12)
pub uninterp spec fn sig_ok(shred: Shred, pk: PublicKey) -> bool;
pub uninterp spec fn commit_matches(c: SliceCommitment, shred: Shred) -> bool;
impl ValidatedShred {
    pub uninterp spec fn spec_shred(&self) -> Shred;
    // ASSUMED here, PROVED in unit `shred_auth` (C12) on the real ValidatedShred::try_new: accepted only with an identical
    // cached commitment or a valid leader signature; without a cache accepted exactly when the signature is valid;
    // a different cached commitment is never accepted.
    #[verifier::external_body]
    pub fn try_new(shred: Shred, cached_commitment: Option<&SliceCommitment>, pk: &PublicKey) -> (r: Result<ValidatedShred, ()>)
        ensures
            r matches Ok(v) ==> v.spec_shred() == shred
                && ((cached_commitment matches Some(c) && commit_matches(*c, shred)) || sig_ok(shred, *pk)),
            cached_commitment is None ==> (r is Ok <==> sig_ok(shred, *pk)),
            (cached_commitment matches Some(c) && !commit_matches(*c, shred)) ==> r is Err,
    { unimplemented!() }
}

/*@ extract src/repair.rs :: enum RepairRequestType
derive
traits Clone
@*/
/*@ extract src/repair.rs :: enum RepairResponse
derive
@*/

// `RepairRequestType::hash` = SHA-256 of the serialized request.  ASSUMED injective (collision resistance + canonical encoding).
pub uninterp spec fn spec_req_hash(r: RepairRequestType) -> Hash;
#[verifier::external_body]
pub broadcast proof fn axiom_req_hash_injective(a: RepairRequestType, b: RepairRequestType)
    ensures #[trigger] spec_req_hash(a) == #[trigger] spec_req_hash(b) ==> a == b
{}
impl RepairRequestType {
    #[verifier::external_body]
    pub fn hash(&self) -> (r: Hash) ensures r == spec_req_hash(*self) { unimplemented!() }
}

// DoubleMerkleTree::check_proof / check_proof_last: thin wrappers (hash_leaf + check_hash_proof[_last]) whose meaning is
// decided under C15; here they are uninterpreted predicates.
pub uninterp spec fn spec_check_proof(leaf: SliceRoot, index: int, root: BlockHash, proof: DoubleMerkleProof) -> bool;
pub uninterp spec fn spec_check_proof_last(leaf: SliceRoot, index: int, root: BlockHash, proof: DoubleMerkleProof) -> bool;
pub struct DoubleMerkleTree;
impl DoubleMerkleTree {
    #[verifier::external_body]
    pub fn check_proof(leaf: &SliceRoot, index: usize, root: &BlockHash, proof: &DoubleMerkleProof) -> (r: bool)
        ensures r == spec_check_proof(*leaf, index as int, *root, *proof) { unimplemented!() }
    #[verifier::external_body]
    pub fn check_proof_last(leaf: &SliceRoot, index: usize, root: &BlockHash, proof: &DoubleMerkleProof) -> (r: bool)
        ensures r == spec_check_proof_last(*leaf, index as int, *root, *proof) { unimplemented!() }
}
// "root is the slice-th leaf of the block with hash h, proved by some Merkle path"
pub open spec fn root_proven(h: BlockHash, slice: SliceIndex, root: SliceRoot) -> bool {
    exists|proof: DoubleMerkleProof| spec_check_proof(root, slice.0 as int, h, proof) || spec_check_proof_last(root, slice.0 as int, h, proof)
}

// "slice is the LAST leaf of the block with hash h, proved by some Merkle path for some root"
pub open spec fn last_proven(h: BlockHash, slice: SliceIndex) -> bool {
    exists|root: SliceRoot, proof: DoubleMerkleProof| spec_check_proof_last(root, slice.0 as int, h, proof)
}

// The shared blockstore / pool handles (Arc<RwLock<dyn ..>>): only the two calls made by handle_response, as ghost logs.
#[verifier::external_body] pub struct SharedBlockstore { _p: () }
#[verifier::external_body] pub struct SharedPool { _p: () }
#[verifier::external_body] pub struct EpochHandle { _p: () }
#[verifier::external_body] pub struct OtherParts { _p: () }      // request_timeouts, network, sampler
impl OtherParts {
    // the repair requests handed to the network so far (each goes to up to three sampled peers), as a ghost log
    pub uninterp spec fn requests_sent(&self) -> Seq<RepairRequestType>;
}
impl SharedBlockstore {
    // the (hash, shred) pairs handed to Blockstore::add_shred_from_repair so far
    pub uninterp spec fn stored(&self) -> Seq<(BlockHash, Shred)>;
    // `self.blockstore.write().await.add_shred_from_repair(hash, validated).await` (R8).  Its result is ASSUMED to be what
    // SlotBlockData::add_shred_from_repair (PROVED above) and BlockData::try_reconstruct_block (PROVED in unit blockdata)
    // guarantee: a completed block carries the requested hash and a parent in an earlier slot.
    #[verifier::external_body]
    pub fn verif_add_shred_from_repair(&mut self, hash: BlockHash, shred: ValidatedShred) -> (r: Result<Option<BlockInfo>, AddShredError>)
        ensures
            // (PROVED for BlockData::add_shred in unit blockdata, finding F20: a shred whose tag does not fit its position is
            // refused as MisplacedShred before anything is stored, any other shred is taken in or refused for another reason)
            shred.spec_shred().spec_tag_fits() ==> final(self).stored() == old(self).stored().push((hash, shred.spec_shred()))
                && r != Err::<Option<BlockInfo>, AddShredError>(AddShredError::MisplacedShred),
            !shred.spec_shred().spec_tag_fits() ==> final(self).stored() == old(self).stored()
                && r == Err::<Option<BlockInfo>, AddShredError>(AddShredError::MisplacedShred),
            r matches Ok(Some(info)) ==> info.hash == hash && info.parent.0.0 < shred.spec_shred().spec_payload().header.slot.0,
    { unimplemented!() }
}
// read access to the blockstore (`self.blockstore.read().await`): the queries return whatever the store holds
#[verifier::external_body] pub struct BlockstoreRead { _p: () }
#[verifier::external_body] pub struct VerifBlock { _p: () }    // crate::types::Block, opaque here
impl SharedBlockstore {
    #[verifier::external_body]
    pub fn read(&self) -> (r: &BlockstoreRead) ensures *r == self.spec_read() { unimplemented!() }
}
impl BlockstoreRead {
    #[verifier::external_body]
    pub fn cached_commitment(&self, slot: Slot, slice: SliceIndex) -> (r: Option<SliceCommitment>) { unimplemented!() }
    // "the store holds a shred of slice s of block id" (BlockstoreImpl::has_slice in unit blockdata)
    pub uninterp spec fn has_slice(&self, id: BlockId, s: SliceIndex) -> bool;
    // The contracts of the next three queries are ASSUMED here and PROVED on the real BlockstoreImpl bodies in unit blockdata.
    // `get_block`: the block, once this node has it completely (what a repair is for)
    pub uninterp spec fn holds_block(&self, id: BlockId) -> bool;
    #[verifier::external_body]
    pub fn get_block(&self, block_id: &BlockId) -> (r: Option<&VerifBlock>)
        ensures r is Some <==> self.holds_block(*block_id)
    { unimplemented!() }
    // the last slice of a block this node holds
    pub uninterp spec fn last_of(&self, id: BlockId) -> SliceIndex;
    // (availability for a held block - the four `holds_block ==> ...` clauses below - is PROVED on the real BlockstoreImpl bodies in unit
    //  blockdata, clause a_held_block_is_answered_with_data, from the store invariant every mutator keeps)
    #[verifier::external_body]
    pub fn get_last_slice_index(&self, block_id: &BlockId) -> (r: Option<SliceIndex>)
        ensures self.holds_block(*block_id) ==> r == Some(self.last_of(*block_id))
    { unimplemented!() }
    #[verifier::external_body]
    pub fn get_slice_root(&self, block_id: &BlockId, slice_index: SliceIndex) -> (r: Option<SliceRoot>)
        ensures
            r is Some ==> self.has_slice(*block_id, slice_index),
            (self.holds_block(*block_id) && slice_index.0 <= self.last_of(*block_id).0) ==> r is Some,
    { unimplemented!() }
    // MerkleTree::create_proof asserts that the index lies within the tree: safe only for a slice the store holds
    #[verifier::external_body]
    pub fn create_double_merkle_proof(&self, block_id: &BlockId, slice_index: SliceIndex) -> (r: Option<DoubleMerkleProof>)
        requires
            // [C14.proof_requested_only_for_a_held_slice C10.proof_requested_only_for_a_held_slice]
            self.has_slice(*block_id, slice_index),
        ensures self.holds_block(*block_id) ==> r is Some,
    { unimplemented!() }
    #[verifier::external_body]
    pub fn get_shred(&self, block_id: &BlockId, slice_index: SliceIndex, shred_index: ShredIndex) -> (r: Option<&ValidatedShred>)
        ensures
            r matches Some(v) ==> v.spec_shred().spec_payload().header.slot == block_id.0
                && v.spec_shred().spec_payload().header.slice_index == slice_index && v.spec_shred().spec_payload().shred_index == shred_index,
            (self.holds_block(*block_id) && slice_index.0 <= self.last_of(*block_id).0) ==> r is Some,
    { unimplemented!() }
}
impl Clone for ValidatedShred {
    #[verifier::external_body]
    fn clone(&self) -> (r: Self) ensures r == *self { unimplemented!() }
}
impl ValidatedShred {
    #[verifier::external_body]
    pub fn into_shred(self) -> (r: Shred) ensures r == self.spec_shred() { unimplemented!() }
}
/*@ extract src/repair.rs :: struct RepairRequest
derive
@*/
// struct RepairRequestHandler<N: Network> (src/repair.rs): only the blockstore handle is used by try_build_response
pub struct RepairRequestHandler {
    pub epoch_info: EpochHandle,
    pub blockstore: SharedBlockstore,
    pub network: ResponderNet,
}
// the responder's network endpoint (`N: RepairResponderNetwork`): the responses sent so far as a ghost log
#[verifier::external_body] pub struct ResponderNet { _p: () }
#[verifier::external_body] pub struct SocketAddr { _p: () }
impl ResponderNet {
    pub uninterp spec fn sent(&self) -> Seq<(RepairResponse, SocketAddr)>;
    // `self.network.send(&response, to).await` (R3b: interior mutability of the socket shown as &mut)
    #[verifier::external_body]
    pub fn send(&mut self, response: &RepairResponse, to: SocketAddr) -> (r: Result<(), IoError>)
        ensures final(self).sent() == old(self).sent().push((*response, to))
    { unimplemented!() }
}
// the epoch's validator table as far as the responder reads it (EpochInfo::{validators, validator}: a Vec and an index into it)
#[verifier::external_body] pub struct EpochView { _p: () }
pub struct ValidatorStub { pub repair_requester_address: SocketAddr }
impl EpochView {
    pub uninterp spec fn spec_validators(&self) -> Seq<ValidatorStub>;
    #[verifier::external_body]
    pub fn validators(&self) -> (r: &Vec<ValidatorStub>) ensures r@ == self.spec_validators() { unimplemented!() }
    // EpochInfo::validator is `&self.validators[id.as_usize()]`: an out-of-range id PANICS, hence the precondition
    #[verifier::external_body]
    pub fn validator(&self, id: ValidatorIndex) -> (r: &ValidatorStub)
        requires
            // [C10.response_recipient_is_a_known_validator]
            id.0 < self.spec_validators().len(),
        ensures *r == self.spec_validators()[id.0 as int]
    { unimplemented!() }
}
impl Clone for SocketAddr {
    #[verifier::external_body]
    fn clone(&self) -> (r: Self) ensures r == *self { unimplemented!() }
}
impl Copy for SocketAddr {}
impl SharedPool {
    // `self.pool.write().await.add_block(id, parent).await` (R8); Pool::add_block asserts the parent is in an earlier slot
    #[verifier::external_body]
    pub fn verif_add_block(&mut self, id: BlockId, parent: BlockId)
        requires
            // [C14.repaired_block_parent_in_earlier_slot C10.parent_in_earlier_slot]
            id.0.0 > parent.0.0,
    { unimplemented!() }
}
impl EpochHandle {
    pub uninterp spec fn spec_view(&self) -> EpochView;
    // ValidatorEpochInfo::epoch_info
    #[verifier::external_body]
    pub fn epoch_info(&self) -> (r: &EpochView) ensures *r == self.spec_view() { unimplemented!() }
    pub uninterp spec fn spec_leader_pk(&self, slot: Slot) -> PublicKey;
    // `&self.epoch_info.epoch_info().leader(*slot).pubkey` (R8)
    #[verifier::external_body]
    pub fn verif_leader_pk(&self, slot: Slot) -> (r: &PublicKey) ensures *r == self.spec_leader_pk(slot) { unimplemented!() }
}


impl RepairResponse {
    pub open spec fn req(&self) -> RepairRequestType {
        match *self {
            RepairResponse::LastSliceRoot(q, _, _, _) => q,
            RepairResponse::SliceRoot(q, _, _) => q,
            RepairResponse::Shred(q, _) => q,
            RepairResponse::Nack(q) => q,
        }
    }
}
impl Repair {
    // the response is a correct answer to the request it quotes (what an honest peer sends)
    pub open spec fn accepts(&self, resp: RepairResponse) -> bool {
        match resp {
            RepairResponse::LastSliceRoot(q, l, root, proof) => q matches RepairRequestType::LastSliceRoot(b) && spec_check_proof_last(root, l.0 as int, b.1, proof),
            RepairResponse::SliceRoot(q, root, proof) => q matches RepairRequestType::SliceRoot(b, sl) && spec_check_proof(root, sl.0 as int, b.1, proof),
            RepairResponse::Shred(q, shred) => self.good_shred(q, shred),
            RepairResponse::Nack(q) => true,
        }
    }
}
pub const TOTAL_SHREDS: usize = 64;

// TRUSTED: the derived orders on the two key types are lawful total orders
#[verifier::external_body]
pub broadcast proof fn axiom_root_key_obeys_cmp_laws()
    ensures #[trigger] vstd::laws_cmp::obeys_cmp::<((Slot, DoubleMerkleRoot), SliceIndex)>()
{}

#[verifier::external_body]
pub broadcast proof fn axiom_block_id_obeys_cmp_laws()
    ensures #[trigger] vstd::laws_cmp::obeys_cmp::<(Slot, DoubleMerkleRoot)>()
{}

// struct Repair<N: Network> (src/repair.rs) with the three maps kept and everything else opaque
pub struct Repair {
    pub blockstore: SharedBlockstore,
    pub pool: SharedPool,
    pub slice_roots: BTreeMap<(BlockId, SliceIndex), SliceRoot>,
    pub last_slices: BTreeMap<BlockId, SliceIndex>,
    pub outstanding_requests: BTreeMap<Hash, RepairRequestType>,
    // requests already retried because of a NACK since they were last sent on a timeout (finding F33)
    pub nack_retried: BTreeSet<Hash>,
    pub other: OtherParts,
    pub epoch_info: EpochHandle,
}

// ---------------------------------------------------------------- C14 specification for the requester side
impl Repair {
    // every kept slice root was proved under the block hash it is kept for
    pub open spec fn roots_ok(&self) -> bool {
        forall|b: BlockId, s: SliceIndex| #[trigger] self.slice_roots@.contains_key((b, s)) ==> root_proven(b.1, s, self.slice_roots@[(b, s)])
    }
    // requests are filed under their own hash, and a shred is only requested once its slice root is known
    pub open spec fn reqs_ok(&self) -> bool {
        &&& forall|h: Hash| #[trigger] self.outstanding_requests@.contains_key(h) ==> spec_req_hash(self.outstanding_requests@[h]) == h
        &&& forall|h: Hash| #[trigger] self.outstanding_requests@.contains_key(h) ==>
                (self.outstanding_requests@[h] matches RepairRequestType::Shred(b, s, i) ==> self.slice_roots@.contains_key((b, s)))
        // slice roots and shreds of a block are only requested once its last slice is known
        &&& forall|h: Hash| #[trigger] self.outstanding_requests@.contains_key(h) ==>
                (self.outstanding_requests@[h] matches RepairRequestType::Shred(b, s, i) ==> self.last_slices@.contains_key(b))
        &&& forall|h: Hash| #[trigger] self.outstanding_requests@.contains_key(h) ==>
                (self.outstanding_requests@[h] matches RepairRequestType::SliceRoot(b, s) ==> self.last_slices@.contains_key(b))
    }
    // the slice recorded as a block's last one was proved to be the LAST leaf under the block hash
    pub open spec fn last_ok(&self) -> bool {
        forall|b: BlockId| #[trigger] self.last_slices@.contains_key(b) ==> last_proven(b.1, self.last_slices@[b])
    }
    pub open spec fn inv(&self) -> bool { self.roots_ok() && self.reqs_ok() && self.last_ok() }
    // what a correct answer to request `q` looks like
    pub open spec fn good_shred(&self, q: RepairRequestType, shred: Shred) -> bool {
        q matches RepairRequestType::Shred(b, s, i) && shred.spec_payload().header.slot == b.0 && shred.spec_payload().header.slice_index == s
            && shred.spec_payload().shred_index == i && self.slice_roots@.contains_key((b, s)) && shred.spec_slice_root() == self.slice_roots@[(b, s)]
            // the last-slice flag is under the leader's signature only, not under the proved slice root: it has to agree with
            // the slice proved to be the last leaf of the block (another signed slice of a Byzantine leader may share the root)
            && self.last_slices@.contains_key(b) && shred.spec_payload().header.is_last == (s == self.last_slices@[b])
            && sig_ok(shred, self.epoch_info.spec_leader_pk(b.0))
            // ... and is the shred that was asked for also in the one part nothing authenticates (finding F30)
            && shred.spec_tag_fits()
    }
    // good_shred up to the data/coding tag: everything the requester itself can check
    pub open spec fn checked_shred(&self, q: RepairRequestType, shred: Shred) -> bool {
        q matches RepairRequestType::Shred(b, s, i) && shred.spec_payload().header.slot == b.0 && shred.spec_payload().header.slice_index == s
            && shred.spec_payload().shred_index == i && self.slice_roots@.contains_key((b, s)) && shred.spec_slice_root() == self.slice_roots@[(b, s)]
            && self.last_slices@.contains_key(b) && shred.spec_payload().header.is_last == (s == self.last_slices@[b])
            && sig_ok(shred, self.epoch_info.spec_leader_pk(b.0))
    }
}

// ---------------------------------------------------------------- C14 specification (from the statement)
impl SlotBlockData {
    // "a block obtained through repair is stored ... under a block identifier only if its content hashes to exactly
    // that identifier": every completed block kept in `repaired` sits under its own hash
    pub open spec fn repaired_ok(&self) -> bool {
        forall|h: BlockHash| self.repaired@.contains_key(h) && (#[trigger] self.repaired@[h]).completed_hash() is Some
            ==> self.repaired@[h].completed_hash() == Some(h)
    }
}

pub mod code {
use super::*;
broadcast use super::axiom_new_block_data, super::axiom_DoubleMerkleRoot_obeys_cmp_laws, super::axiom_Hash_obeys_cmp_laws, super::axiom_root_key_obeys_cmp_laws, super::axiom_block_id_obeys_cmp_laws, super::axiom_req_hash_injective;


impl SliceIndex {
/*@ extract src/types/slice_index.rs :: impl SliceIndex/fn inner
ret r
ensures
        r == self.0,
@*/
}
#[verifier::external_body]
pub fn verif_clone_block_id(b: &BlockId) -> (r: BlockId)
    ensures r == *b
{ unimplemented!() }

impl RepairResponse {
/*@ extract src/repair.rs :: impl RepairResponse/fn request_type
props C14
ret r
ensures
        *r == self.req(),
@*/
}

impl Repair {
    // ASSUMED contract of Repair::send_request (sockets, timers, random peers): the request is filed under its hash
    // (outstanding_requests.insert(hash, req_type)); nothing else that handle_response relies on changes.
    #[verifier::external_body]
    pub fn send_request(&mut self, req_type: RepairRequestType) -> (r: Result<(), IoError>)
        ensures
            final(self).outstanding_requests@ == old(self).outstanding_requests@.insert(spec_req_hash(req_type), req_type),
            final(self).slice_roots@ == old(self).slice_roots@,
            final(self).last_slices@ == old(self).last_slices@,
            final(self).blockstore.stored() == old(self).blockstore.stored(),
            final(self).epoch_info == old(self).epoch_info,
            final(self).nack_retried@ == old(self).nack_retried@,
            final(self).other.requests_sent() == old(self).other.requests_sent().push(req_type),
    { unimplemented!() }

/*@ extract src/repair.rs :: impl Repair<N>/fn handle_response
props C14 C15 C10
elide-async
rewrite*[R9] `block_id.clone()` => `verif_clone_block_id(block_id)`
rewrite[R4] `for slice in last_slice.until() {` => `let mut verif_s: usize = 0; while verif_s <= last_slice.inner() { let slice = SliceIndex(verif_s); verif_s += 1;`
rewrite[R4] `for shred_index in ShredIndex::all() {` => `let mut verif_x: usize = 0; while verif_x < TOTAL_SHREDS { let shred_index = ShredIndex(verif_x); verif_x += 1;`
rewrite[R8] `&self.epoch_info.epoch_info().leader(*slot).pubkey` => `self.epoch_info.verif_leader_pk(*slot)`
rewrite[R8] `self .blockstore .write() .add_shred_from_repair(` => `self.blockstore.verif_add_shred_from_repair(`
rewrite[R8] `self.pool .write() .add_block(` => `self.pool.verif_add_block(`
requires
        old(self).inv(),
        // type invariant of SliceIndex (enforced at deserialization, C19): below MAX_SLICES_PER_BLOCK
        response matches RepairResponse::LastSliceRoot(_, l, _, _) ==> l.0 < 1024,
ensures
        final(self).inv(),
        final(self).epoch_info == old(self).epoch_info,
        // [C10.repeated_nack_is_not_amplified] (finding F33) a NACK for a request that a NACK already made the node retry
        // - the other peers asked in the same round, a duplicate, a forgery - sends nothing: NACKs cannot multiply requests
        (response is Nack && old(self).nack_retried@.contains(spec_req_hash(response.req()))) ==>
            final(self).other.requests_sent() == old(self).other.requests_sent() && final(self).nack_retried@ == old(self).nack_retried@,
        // [C10.a_nack_causes_at_most_one_retry_and_is_remembered] the first NACK for an outstanding request is answered by one
        // retry of exactly that request, and the request is marked (until its timeout fires, repair_loop) so the line above applies
        (response is Nack && old(self).outstanding_requests@.contains_key(spec_req_hash(response.req()))) ==>
            final(self).nack_retried@.contains(spec_req_hash(response.req()))
            && (final(self).other.requests_sent() == old(self).other.requests_sent()
                || final(self).other.requests_sent() == old(self).other.requests_sent().push(response.req())),
        // [C10.unsolicited_nack_sends_nothing]
        (response is Nack && !old(self).outstanding_requests@.contains_key(spec_req_hash(response.req()))) ==>
            final(self).other.requests_sent() == old(self).other.requests_sent() && final(self).nack_retried@ == old(self).nack_retried@,
        // [C14.unsolicited_response_changes_nothing C10.unsolicited_response_changes_nothing]
        !old(self).outstanding_requests@.contains_key(spec_req_hash(response.req())) ==>
            final(self).slice_roots@ == old(self).slice_roots@ && final(self).outstanding_requests@ == old(self).outstanding_requests@
            && final(self).blockstore.stored() == old(self).blockstore.stored(),
        // [C14.only_validated_matching_shreds_reach_the_blockstore]
        final(self).blockstore.stored() != old(self).blockstore.stored() ==>
            (response matches RepairResponse::Shred(q, shred) && old(self).good_shred(q, shred)
             && (q matches RepairRequestType::Shred(b, sl, i) && final(self).blockstore.stored() == old(self).blockstore.stored().push((b.1, shred)))),
        // [C14.shred_of_another_signed_slice_is_refused]
        // a shred reaches the store only with the last-slice flag of the slice PROVED to be the block's last one
        final(self).blockstore.stored() != old(self).blockstore.stored() ==>
            (response matches RepairResponse::Shred(q, shred) && (q matches RepairRequestType::Shred(b, sl, i)
                && old(self).last_slices@.contains_key(b) && shred.spec_payload().header.is_last == (sl == old(self).last_slices@[b]))),
        // [C14.re_tagged_answer_leaves_the_request_outstanding C10.re_tagged_answer_leaves_the_request_outstanding] a genuine shred with a flipped data/coding tag passes every check the
        // requester can make; the blockstore refuses it, and then the request is still waiting for the right answer
        (old(self).outstanding_requests@.contains_key(spec_req_hash(response.req()))
            && (response matches RepairResponse::Shred(q, shred) && old(self).checked_shred(q, shred) && !shred.spec_tag_fits()))
            ==> final(self).outstanding_requests@ == old(self).outstanding_requests@ && final(self).blockstore.stored() == old(self).blockstore.stored(),
        // [C14.correct_shred_is_stored]
        (old(self).outstanding_requests@.contains_key(spec_req_hash(response.req())) && (response matches RepairResponse::Shred(q, shred) && old(self).good_shred(q, shred)))
            ==> final(self).blockstore.stored().len() == old(self).blockstore.stored().len() + 1,
        // [C14.proven_root_is_recorded]
        (old(self).outstanding_requests@.contains_key(spec_req_hash(response.req())) && old(self).accepts(response)) ==>
            (response matches RepairResponse::LastSliceRoot(q, l, root, proof) ==> (q matches RepairRequestType::LastSliceRoot(b) && final(self).slice_roots@.contains_key((b, l)) && final(self).slice_roots@[(b, l)] == root)),
        (old(self).outstanding_requests@.contains_key(spec_req_hash(response.req())) && old(self).accepts(response)) ==>
            (response matches RepairResponse::SliceRoot(q, root, proof) ==> (q matches RepairRequestType::SliceRoot(b, sl) && final(self).slice_roots@.contains_key((b, sl)) && final(self).slice_roots@[(b, sl)] == root)),
        // [C14.rejected_response_changes_nothing C15.last_slice_claim_needs_last_leaf_proof C10.rejected_response_changes_nothing]
        // (in particular a LastSliceRoot answer is only believed with a proof that the slice is the LAST leaf)
        (old(self).outstanding_requests@.contains_key(spec_req_hash(response.req())) && !old(self).accepts(response)) ==>
            final(self).slice_roots@ == old(self).slice_roots@ && final(self).outstanding_requests@ == old(self).outstanding_requests@
            && final(self).blockstore.stored() == old(self).blockstore.stored() && final(self).last_slices@ == old(self).last_slices@,
        // [C14.invalid_response_leaves_request_outstanding C10.invalid_response_leaves_request_outstanding] (C10: a forged answer cannot stop the repair)
        (old(self).outstanding_requests@.contains_key(spec_req_hash(response.req())) && !old(self).accepts(response)) ==>
            final(self).outstanding_requests@.contains_key(spec_req_hash(response.req())),
before `let request_hash = response.request_type().hash();`
        let ghost pre = *old(self);
        let ghost resp0 = response;
before `let mut verif_s: usize = 0;`
        proof {
            // [C15.last_slice_claim_needs_last_leaf_proof C14.last_slice_claim_needs_last_leaf_proof] what is recorded as the block's last
            // slice was proved to be the LAST leaf (not just some leaf) under the block hash
            assert(last_proven(block_id.1, last_slice)) by { assert(spec_check_proof_last(root, last_slice.0 as int, block_id.1, proof)); }
            assert forall|b: BlockId| #[trigger] self.last_slices@.contains_key(b) implies last_proven(b.1, self.last_slices@[b]) by {
                assert(self.last_slices@ == pre.last_slices@.insert(*block_id, last_slice));
                if b == *block_id { }
                else {
                    assert(pre.last_slices@.contains_key(b) && pre.last_slices@[b] == self.last_slices@[b]);
                    assert(pre.last_ok());
                }
            }
            assert(self.last_ok());
        }
loop 0
        invariant
            pre == *old(self) && pre.inv() && self.inv(),
            last_slice.0 < 1024 && verif_s <= last_slice.0 + 1,
            self.slice_roots@ == pre.slice_roots@.insert((*block_id, last_slice), root),
            self.last_slices@ == pre.last_slices@.insert(*block_id, last_slice),
            spec_check_proof_last(root, last_slice.0 as int, block_id.1, proof),
            self.blockstore.stored() == pre.blockstore.stored() && self.epoch_info == pre.epoch_info,
        decreases last_slice.0 + 1 - verif_s,
loop 1
        invariant
            pre == *old(self) && pre.inv() && self.inv(),
            verif_x <= TOTAL_SHREDS,
            self.slice_roots@ == pre.slice_roots@.insert((*block_id, slice), root),
            self.last_slices@ == pre.last_slices@ && pre.last_slices@.contains_key(*block_id),
            self.blockstore.stored() == pre.blockstore.stored() && self.epoch_info == pre.epoch_info,
        decreases TOTAL_SHREDS - verif_x,
@*/
}

impl SharedBlockstore {
    pub uninterp spec fn spec_read(&self) -> BlockstoreRead;
}
impl Repair {
/*@ extract src/repair.rs :: impl Repair<N>/fn repair_block
props C14 C10
elide-async
requires
        old(self).inv(),
ensures
        final(self).inv(),
        final(self).slice_roots@ == old(self).slice_roots@ && final(self).last_slices@ == old(self).last_slices@,
        final(self).blockstore.stored() == old(self).blockstore.stored(),
        // [C14.repair_starts_by_asking_for_the_last_slice_root C10.repair_starts_by_asking_for_the_last_slice_root] a repair asks for
        // the root of the block's last slice, with a last-leaf proof, before anything else; at most one request per call
        final(self).other.requests_sent() == old(self).other.requests_sent()
            || (final(self).other.requests_sent() == old(self).other.requests_sent().push(RepairRequestType::LastSliceRoot(block_id))
                && final(self).outstanding_requests@.contains_key(spec_req_hash(RepairRequestType::LastSliceRoot(block_id)))),
@*/
}

impl Repair {
/*@ extract-stmts src/repair.rs :: impl Repair<N>/fn repair_loop
props C10 C14
elide-async
from `let Some(Reverse((_, hash))) = self.request_timeouts.pop() else {`
to `warn!("sending timed-out repair request failed: {err}"); } }`
wrap fn verif_on_timeout(&mut self, popped: Option<Hash>)
rewrite[stmt-range-param] `let Some(Reverse((_, hash))) = self.request_timeouts.pop() else { continue; };` => `let Some(hash) = popped else { return; };`
requires
        old(self).inv(),
ensures
        final(self).inv(),
        popped is None ==> final(self).other.requests_sent() == old(self).other.requests_sent() && final(self).nack_retried@ == old(self).nack_retried@
            && final(self).outstanding_requests@ == old(self).outstanding_requests@,
        // [C10.timeout_clears_the_nack_mark] (finding F33) the mark that silences further NACKs never outlives the timeout period of
        // the request: afterwards a NACK is again answered by one immediate retry
        popped matches Some(h) ==> final(self).nack_retried@ == old(self).nack_retried@.remove(h),
        // [C14.timed_out_request_is_sent_again_and_stays_outstanding]
        popped matches Some(h) ==> (old(self).outstanding_requests@.contains_key(h) ==>
            final(self).other.requests_sent() == old(self).other.requests_sent().push(old(self).outstanding_requests@[h])
            && final(self).outstanding_requests@ == old(self).outstanding_requests@),
        // ... and the timeout of a request that was answered in the meantime sends nothing
        popped matches Some(h) ==> (!old(self).outstanding_requests@.contains_key(h) ==>
            final(self).other.requests_sent() == old(self).other.requests_sent()
            && final(self).outstanding_requests@ == old(self).outstanding_requests@),
        final(self).slice_roots@ == old(self).slice_roots@ && final(self).last_slices@ == old(self).last_slices@,
@*/
}

impl RepairRequestHandler {
/*@ extract src/repair.rs :: impl RepairRequestHandler<N>/fn try_build_response
props C14 C10
ret r
elide-async
rewrite*[R8] `drop(blockstore);` => ``
ensures
        // [C14.a_held_block_is_answered_with_data] "a node answers every request about a block it holds with data": for a block it has
        // completely, the last-slice root, every slice root up to the last slice and every shred of those slices
        (match request.req_type {
            RepairRequestType::LastSliceRoot(b) => self.blockstore.spec_read().holds_block(b),
            RepairRequestType::SliceRoot(b, sl) => self.blockstore.spec_read().holds_block(b) && sl.0 <= self.blockstore.spec_read().last_of(b).0,
            RepairRequestType::Shred(b, sl, i) => self.blockstore.spec_read().holds_block(b) && sl.0 <= self.blockstore.spec_read().last_of(b).0,
        }) ==> r is Some,
        // [C14.answer_quotes_the_request_and_matches_its_kind]
        r matches Some(resp) ==> resp.req() == request.req_type && (match request.req_type {
            RepairRequestType::LastSliceRoot(_) => resp is LastSliceRoot,
            RepairRequestType::SliceRoot(_, _) => resp is SliceRoot,
            RepairRequestType::Shred(b, sl, i) => resp matches RepairResponse::Shred(_, shred) && shred.spec_payload().header.slot == b.0
                && shred.spec_payload().header.slice_index == sl && shred.spec_payload().shred_index == i,
        }),
@*/
}

impl RepairRequestHandler {
/*@ extract src/repair.rs :: impl RepairRequestHandler<N>/fn send_response
props C14 C10
ret r
elide-async
sig `&self` => `&mut self`
sig `std::io::Result<()>` => `Result<(), IoError>`
requires
        // [C10.response_recipient_is_a_known_validator] the caller has checked the (attacker-chosen) sender index
        validator.0 < old(self).epoch_info.spec_view().spec_validators().len(),
ensures
        final(self).network.sent() == old(self).network.sent().push((response,
            old(self).epoch_info.spec_view().spec_validators()[validator.0 as int].repair_requester_address)),
        final(self).epoch_info == old(self).epoch_info,
@*/

/*@ extract src/repair.rs :: impl RepairRequestHandler<N>/fn answer_request
props C14 C10
ret r
elide-async
sig `&self` => `&mut self`
sig `std::io::Result<()>` => `Result<(), IoError>`
ensures
        // [C10.unknown_sender_is_dropped] a request whose sender index is outside the validator set is dropped, nothing is sent
        request.sender.0 >= old(self).epoch_info.spec_view().spec_validators().len()
            ==> final(self).network.sent() == old(self).network.sent() && r is Ok,
        // [C14.every_known_sender_gets_exactly_one_answer] ... every other request gets exactly one response - the data or a
        // Nack - that quotes the request, sent to the sender's repair address
        request.sender.0 < old(self).epoch_info.spec_view().spec_validators().len() ==> (
            final(self).network.sent().len() == old(self).network.sent().len() + 1
            && final(self).network.sent().last().0.req() == request.req_type
            && final(self).network.sent().last().1 == old(self).epoch_info.spec_view().spec_validators()[request.sender.0 as int].repair_requester_address
            && final(self).network.sent().drop_last() == old(self).network.sent()),
        // [C14.a_held_block_is_answered_with_data] ... and for a block the node holds the answer is the data, not a negative acknowledgement
        (request.sender.0 < old(self).epoch_info.spec_view().spec_validators().len() && (match request.req_type {
            RepairRequestType::LastSliceRoot(b) => old(self).blockstore.spec_read().holds_block(b),
            RepairRequestType::SliceRoot(b, sl) => old(self).blockstore.spec_read().holds_block(b) && sl.0 <= old(self).blockstore.spec_read().last_of(b).0,
            RepairRequestType::Shred(b, sl, i) => old(self).blockstore.spec_read().holds_block(b) && sl.0 <= old(self).blockstore.spec_read().last_of(b).0,
        })) ==> !(final(self).network.sent().last().0 is Nack),
closure 0
        ret o: RepairResponse
        ensures o == RepairResponse::Nack(request.req_type)
@*/
}

impl SlotBlockData {
    // SlotBlockData::disseminated_is: ASSUMED here (BlockData is opaque in this unit), PROVED on the real body in unit blockdata
    #[verifier::external_body] /* proved-elsewhere */
    pub fn disseminated_is(&self, hash: &BlockHash) -> (r: bool)
        ensures r == (self.disseminated.completed_hash() == Some(*hash))
    { unimplemented!() }
/*@ extract src/consensus/blockstore/slot_block_data.rs :: impl SlotBlockData/fn add_shred_from_repair
props C14 C13
ret r
rewrite[R5] `self .repaired .entry(` => `verif_repaired_entry(&mut self.repaired, self.slot, `
rewrite[R5] `) .or_insert_with(|| BlockData::new(self.slot))` => `)`
requires
        old(self).repaired_ok(),
ensures
        // [C14.repaired_block_is_announced_only_under_its_own_hash]
        r matches Ok(Some(BlockstoreEvent::Block { slot, block_info })) ==> block_info.hash == hash,
        // [C14.repaired_block_is_stored_only_under_its_own_hash]
        final(self).repaired_ok(),
        // [C13.first_shred_is_announced_for_dissemination_only C14.first_shred_is_announced_for_dissemination_only] (finding F31: every
        // repaired copy used to announce "first shred of the slot" again)
        !(r matches Ok(Some(BlockstoreEvent::FirstShred(_)))),
        // [C13.block_is_announced_once_across_dissemination_and_repair C14.block_is_announced_once_across_dissemination_and_repair]
        r matches Ok(Some(BlockstoreEvent::Block { slot, block_info })) ==> old(self).disseminated.completed_hash() != Some(hash),
        final(self).disseminated == old(self).disseminated,
        // other repaired blocks and the disseminated block are untouched
        forall|h: BlockHash| h != hash ==> (#[trigger] final(self).repaired@.contains_key(h) <==> old(self).repaired@.contains_key(h))
            && (final(self).repaired@.contains_key(h) ==> final(self).repaired@[h] == old(self).repaired@[h]),
        final(self).slot == old(self).slot && final(self).leader_misbehaved == old(self).leader_misbehaved,
@*/

// Canary: the real body under a deliberately false contract (claims repair never succeeds); MUST fail.
/*@ extract src/consensus/blockstore/slot_block_data.rs :: impl SlotBlockData/fn add_shred_from_repair
as canary_add_shred_from_repair
expect-fail
ret r
rewrite[R5] `self .repaired .entry(` => `verif_repaired_entry(&mut self.repaired, self.slot, `
rewrite[R5] `) .or_insert_with(|| BlockData::new(self.slot))` => `)`
requires
        old(self).repaired_ok(),
ensures
        r is Err,
@*/
}

} // mod code

} // verus!

fn main() {}
