// Unit `repair`: what the blockstore keeps and announces for a block obtained through repair
// (src/consensus/blockstore/slot_block_data.rs SlotBlockData::add_shred_from_repair).  Serves C14 (partial).
use vstd::prelude::*;
use std::collections::BTreeMap;

verus! {

/*@ include units/common/base_types.rs @*/

/*@ extract src/consensus/blockstore.rs :: struct BlockInfo
derive
@*/
/*@ extract src/consensus/blockstore.rs :: enum BlockstoreEvent
derive
@*/
/*@ extract src/consensus/blockstore/slot_block_data.rs :: enum AddShredError
derive Clone, Copy
@*/

// TRUSTED opaque stand-ins: their content is irrelevant here
#[verifier::external_body] pub struct ValidatedShred { _p: () }
#[verifier::external_body] pub struct RegularShredder { _p: () }

// BlockData (same file) is NOT under contract in this unit: it is seen through the hash of its completed block.
#[verifier::external_body] pub struct BlockData { _p: () }
impl BlockData {
    // hash of `self.completed`, if the block has been reconstructed
    pub uninterp spec fn completed_hash(&self) -> Option<BlockHash>;
    // ASSUMED contract of BlockData::add_shred (try_reconstruct_block is proved in unit `blockdata`: it sets `completed`
    // exactly when it returns Complete(info), to a block with hash info.hash, and never changes a completed block):
    // a Block event is returned exactly when this call completed the block, and carries the completed block's hash.
    // NOTHING relates that hash to the key under which the caller keeps this BlockData.
    #[verifier::external_body]
    pub fn add_shred(&mut self, shred: ValidatedShred, shredder: &mut RegularShredder) -> (r: Result<Option<BlockstoreEvent>, AddShredError>)
        ensures
            r matches Ok(Some(BlockstoreEvent::Block { slot, block_info })) ==>
                old(self).completed_hash() is None && final(self).completed_hash() == Some(block_info.hash),
            !(r matches Ok(Some(BlockstoreEvent::Block { .. }))) ==> final(self).completed_hash() == old(self).completed_hash(),
    { unimplemented!() }
}
pub uninterp spec fn spec_new_block_data(slot: Slot) -> BlockData;
#[verifier::external_body]
pub broadcast proof fn axiom_new_block_data(slot: Slot)
    ensures (#[trigger] spec_new_block_data(slot)).completed_hash() is None
{}

/*@ extract src/consensus/blockstore/slot_block_data.rs :: struct SlotBlockData
@*/

// R5: `self.repaired.entry(k).or_insert_with(|| BlockData::new(self.slot))`: the entry for k, created empty on first use.
// TRUSTED documented behaviour of BTreeMap::entry / or_insert_with.
#[verifier::external_body]
pub fn verif_repaired_entry(m: &mut BTreeMap<BlockHash, BlockData>, slot: Slot, k: BlockHash) -> (r: &mut BlockData)
    ensures
        *r == (if old(m)@.contains_key(k) { old(m)@[k] } else { spec_new_block_data(slot) }),
        final(m)@ == old(m)@.insert(k, *final(r)),
{ unimplemented!() }

// ---------------------------------------------------------------- C14 specification (from the statement)
impl SlotBlockData {
    // "a block obtained through repair is stored ... under a block identifier only if its content hashes to exactly
    // that identifier": every completed block kept in `repaired` sits under its own hash
    pub open spec fn repaired_ok(&self) -> bool {
        forall|h: BlockHash| self.repaired@.contains_key(h) && (#[trigger] self.repaired@[h]).completed_hash() is Some
            ==> self.repaired@[h].completed_hash() == Some(h)
    }
}

pub mod code {
use super::*;
broadcast use super::axiom_new_block_data, super::axiom_DoubleMerkleRoot_obeys_cmp_laws;

impl SlotBlockData {
/*@ extract src/consensus/blockstore/slot_block_data.rs :: impl SlotBlockData/fn add_shred_from_repair
props C14
ret r
rewrite[R5] `self .repaired .entry(` => `verif_repaired_entry(&mut self.repaired, self.slot, `
rewrite[R5] `) .or_insert_with(|| BlockData::new(self.slot))` => `)`
requires
        old(self).repaired_ok(),
ensures
        // [C14.repaired_block_is_announced_only_under_its_own_hash]
        r matches Ok(Some(BlockstoreEvent::Block { slot, block_info })) ==> block_info.hash == hash,
        // [C14.repaired_block_is_stored_only_under_its_own_hash]
        final(self).repaired_ok(),
        // other repaired blocks and the disseminated block are untouched
        forall|h: BlockHash| h != hash ==> (#[trigger] final(self).repaired@.contains_key(h) <==> old(self).repaired@.contains_key(h))
            && (final(self).repaired@.contains_key(h) ==> final(self).repaired@[h] == old(self).repaired@[h]),
        final(self).slot == old(self).slot && final(self).leader_misbehaved == old(self).leader_misbehaved,
@*/

// Canary: the real body under a deliberately false contract (claims repair never succeeds); MUST fail.
/*@ extract src/consensus/blockstore/slot_block_data.rs :: impl SlotBlockData/fn add_shred_from_repair
as canary_add_shred_from_repair
expect-fail
ret r
rewrite[R5] `self .repaired .entry(` => `verif_repaired_entry(&mut self.repaired, self.slot, `
rewrite[R5] `) .or_insert_with(|| BlockData::new(self.slot))` => `)`
requires
        old(self).repaired_ok(),
ensures
        r is Err,
@*/
}

} // mod code

} // verus!

fn main() {}
