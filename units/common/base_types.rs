// ===================================================================== common/base_types.rs
// Newtypes shared by the consensus units, cut from /repo; their #[derive]d trait impls are code
// behind macros and are replaced by TRUSTED specifications (`traits ...` in the directives):
//   Clone  : clone() == *self
//   Eq     : == is structural equality
//   OrdU64 : Ord/PartialOrd compare the wrapped u64;  OrdOpaque : some lawful total order
// ---------------------------------------------------------------------------------------------

// ASSUMPTION: 64-bit target (usize == u64).
global size_of usize == 8;

pub proof fn lemma_mul_u64_fits_u128(a: u64, b: u64)
    ensures
        a as int * b as int <= u128::MAX as int,
        (a as u128) * (b as u128) == a as int * b as int,
{
    assert(a as int * b as int <= 0xffff_ffff_ffff_ffff * 0xffff_ffff_ffff_ffff) by (nonlinear_arith)
        requires 0 <= a as int <= 0xffff_ffff_ffff_ffff, 0 <= b as int <= 0xffff_ffff_ffff_ffff;
}

// TRUSTED model of std::num::NonZeroU64 (a stand-in type of the same name: `new(0)` is None,
// `get` returns the wrapped value; trusted to match std).
#[derive(Clone, Copy)]
pub struct NonZeroU64 { pub v: u64 }

impl NonZeroU64 {
    pub const fn new(n: u64) -> (r: Option<NonZeroU64>)
        ensures
            n != 0 ==> r == Some(NonZeroU64 { v: n }),
            n == 0 ==> r is None,
    { if n == 0 { None } else { Some(NonZeroU64 { v: n }) } }

    pub const fn get(self) -> (r: u64)
        ensures r == self.v
    { self.v }
}

// --------------------------------------------------------------------- Slot (src/types/slot.rs)
/*@ extract src/types/slot.rs :: const SLOTS_PER_WINDOW
@*/
/*@ extract src/types/slot.rs :: const SLOTS_PER_EPOCH
@*/
/*@ extract src/types/slot.rs :: struct Slot
derive Clone, Copy
traits Eq OrdU64
@*/

// --------------------------------------------------------------------- Stake (src/types/stake.rs)
/*@ extract src/types/stake.rs :: struct Stake
derive Clone, Copy
traits Eq OrdU64
@*/

// derive_more::{Add, AddAssign} and #[derive(Default)] on a u64 newtype: TRUSTED to be field-wise
// `+` (which panics on overflow: profile.release has overflow-checks = true) and 0.
impl vstd::std_specs::ops::AddSpecImpl<Stake> for Stake {
    open spec fn obeys_add_spec() -> bool { true }
    open spec fn add_req(self, rhs: Stake) -> bool { self.0 + rhs.0 <= u64::MAX }
    open spec fn add_spec(self, rhs: Stake) -> Stake { Stake((self.0 + rhs.0) as u64) }
}
impl std::ops::Add for Stake {
    type Output = Stake;
    #[verifier::external_body]
    fn add(self, rhs: Stake) -> (r: Stake) { unimplemented!() }
}
impl vstd::std_specs::ops::AddAssignSpecImpl<Stake> for Stake {
    open spec fn obeys_add_assign_spec() -> bool { true }
    open spec fn add_assign_req(&self, rhs: Stake) -> bool { self.0 + rhs.0 <= u64::MAX }
    open spec fn add_assign_spec(&self, rhs: Stake) -> &Stake { &Stake((self.0 + rhs.0) as u64) }
}
impl std::ops::AddAssign for Stake {
    #[verifier::external_body]
    fn add_assign(&mut self, rhs: Stake) { unimplemented!() }
}
impl Default for Stake {
    #[verifier::external_body]
    fn default() -> (r: Stake) ensures r.0 == 0 { unimplemented!() }
}
// `impl Sub for Stake` is hand-written in the repo: verified against this spec (not trusted).
impl vstd::std_specs::ops::SubSpecImpl<Stake> for Stake {
    open spec fn obeys_sub_spec() -> bool { true }
    open spec fn sub_req(self, rhs: Stake) -> bool { self.0 >= rhs.0 }
    open spec fn sub_spec(self, rhs: Stake) -> Stake { Stake((self.0 - rhs.0) as u64) }
}
/*@ extract src/types/stake.rs :: impl Sub for Stake
rewrite[use-path] `impl Sub for Stake` => `impl std::ops::Sub for Stake`
@*/
impl Stake {
/*@ extract src/types/stake.rs :: impl Stake/fn new
ret r
ensures
        r.0 == stake,
@*/
/*@ extract src/types/stake.rs :: impl Stake/fn inner
ret r
ensures
        r == self.0,
@*/
}

// --------------------------------------------------------------------- ValidatorIndex
/*@ extract src/types/validator_index.rs :: struct ValidatorIndex
derive Clone, Copy
traits Eq OrdU64
@*/
impl ValidatorIndex {
/*@ extract src/types/validator_index.rs :: impl ValidatorIndex/fn new
ret r
ensures
        r.0 == index,
@*/
/*@ extract src/types/validator_index.rs :: impl ValidatorIndex/fn inner
ret r
ensures
        r == self.0,
@*/
/*@ extract src/types/validator_index.rs :: impl ValidatorIndex/fn as_usize
ret r
ensures
        r == self.0 as usize,
@*/
}

// --------------------------------------------------------------------- Hash / BlockHash
/*@ extract src/crypto/hash.rs :: struct Hash
derive
traits Clone Eq OrdOpaque
@*/
/*@ extract src/crypto/merkle.rs :: struct DoubleMerkleRoot
derive
traits Clone Eq OrdOpaque
@*/
/*@ extract src/crypto/merkle.rs :: type BlockHash
@*/
/*@ extract src/lib.rs :: type BlockId
@*/

// Rewrite R7 targets: a runtime `assert!` / `panic!` is a crash site; its precondition is the
// proof obligation that the site is never reached with a false condition.
pub fn vassert(b: bool)
    requires b
{
}

#[verifier::external_body]
pub fn vpanic() -> !
    requires false
{
    panic!()
}

// The "consensus safety violation" assertions of the finality tracker fire only if the node holds
// conflicting certificates, i.e. if global agreement (C01, not decidable by contracts) is already broken.
// They are modelled as ASSUMPTIONS (the call is a deliberate fail-stop): listed in every evidence file.
#[verifier::external_body]
pub fn vassume_safety(b: bool)
    ensures b
{
    assert!(b)
}
