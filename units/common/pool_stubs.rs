// ===================================================================== common/pool_stubs.rs
// TRUSTED stand-ins (assumed contracts) for container / crypto types the pool logic uses but
// whose bodies are out of Verus' reach.  Every `external_body` here is an assumption and is
// listed in the evidence file.  Each assumed contract is exercised against the real function
// by a bounded Kani stand-in (units/*/kani) where that is feasible.
// ---------------------------------------------------------------------------------------------

// ---- smallvec::SmallVec<[T; N]>: a growable sequence (push / new), like Vec.
#[verifier::external_body]
#[verifier::reject_recursive_types(A)]
pub struct SmallVec<A> { _p: std::marker::PhantomData<A> }

impl<T, const N: usize> SmallVec<[T; N]> {
    pub uninterp spec fn view(&self) -> Seq<T>;

    #[verifier::external_body]
    pub fn new() -> (r: Self)
        ensures r.view() == Seq::<T>::empty()
    { unimplemented!() }

    #[verifier::external_body]
    pub fn push(&mut self, t: T)
        ensures final(self).view() == old(self).view().push(t)
    { unimplemented!() }
}

// ---- either::Either
pub enum Either<L, R> { Left(L), Right(R) }

// ---- SortedVecMap<K, V> (src/consensus/pool/sorted_vec.rs): a map.
#[verifier::external_body]
#[verifier::reject_recursive_types(K)]
#[verifier::reject_recursive_types(V)]
pub struct SortedVecMap<K, V> { _p: std::marker::PhantomData<(K, V)> }

impl<K, V> SortedVecMap<K, V> {
    pub uninterp spec fn view(&self) -> Map<K, V>;
}

impl<K: Ord, V> SortedVecMap<K, V> {
    #[verifier::external_body]
    pub fn new() -> (r: Self)
        ensures r.view() == Map::<K, V>::empty()
    { unimplemented!() }

    #[verifier::external_body]
    pub fn get(&self, key: &K) -> (r: Option<&V>)
        ensures
            r is Some <==> self.view().contains_key(*key),
            r matches Some(v) ==> *v == self.view()[*key],
    { unimplemented!() }

    #[verifier::external_body]
    pub fn get_mut(&mut self, key: &K) -> (r: Option<&mut V>)
        ensures
            r is Some <==> old(self).view().contains_key(*key),
            r matches Some(v) ==> *v == old(self).view()[*key] && final(self).view() == old(self).view().insert(*key, *final(v)),
            r is None ==> final(self).view() == old(self).view(),
    { unimplemented!() }

    #[verifier::external_body]
    pub fn get_or_insert_with<F: FnOnce() -> V>(&mut self, key: &K, default: F) -> (r: &mut V)
        where K: Clone
        requires
            default.requires(()),
        ensures
            old(self).view().contains_key(*key) ==> *r == old(self).view()[*key],
            !old(self).view().contains_key(*key) ==> default.ensures((), *r),
            final(self).view() == old(self).view().insert(*key, *final(r)),
    { unimplemented!() }
}

// ---- SortedVecSet<T>: a set; iteration yields each element once.
#[verifier::external_body]
#[verifier::reject_recursive_types(T)]
pub struct SortedVecSet<T> { _p: std::marker::PhantomData<T> }

impl<T> SortedVecSet<T> {
    pub uninterp spec fn view(&self) -> Set<T>;
}

impl<T> Clone for SortedVecSet<T> {
    #[verifier::external_body]
    fn clone(&self) -> (r: Self)
        ensures r.view() == self.view()
    { unimplemented!() }
}

impl<T: Ord> SortedVecSet<T> {
    #[verifier::external_body]
    pub fn new() -> (r: Self)
        ensures r.view() == Set::<T>::empty()
    { unimplemented!() }

    #[verifier::external_body]
    pub fn insert(&mut self, value: T) -> (r: bool)
        ensures
            final(self).view() == old(self).view().insert(value),
            r == !old(self).view().contains(value),
    { unimplemented!() }

    #[verifier::external_body]
    pub fn contains(&self, value: &T) -> (r: bool)
        ensures r == self.view().contains(*value)
    { unimplemented!() }

    #[verifier::external_body]
    pub fn remove(&mut self, value: &T) -> (r: bool)
        ensures
            final(self).view() == old(self).view().remove(*value),
            r == old(self).view().contains(*value),
    { unimplemented!() }
}

// Iterator obtained from `for x in set` (rewrite R4 turns the `for` into Rust's own desugaring
// `let mut it = IntoIterator::into_iter(..); loop { match it.next() { Some(x) => .., None => break } }`).
#[verifier::external_body]
#[verifier::reject_recursive_types(T)]
pub struct SetIter<T> { _p: std::marker::PhantomData<T> }

impl<T> SetIter<T> {
    pub uninterp spec fn rest(&self) -> Seq<T>;

    #[verifier::external_body]
    pub fn next(&mut self) -> (r: Option<T>)
        ensures
            old(self).rest().len() == 0 ==> r is None && final(self).rest() == old(self).rest(),
            old(self).rest().len() > 0 ==> r == Some(old(self).rest()[0]) && final(self).rest() == old(self).rest().skip(1),
    { unimplemented!() }
}

impl<T> SortedVecSet<T> {
    #[verifier::external_body]
    pub fn into_iter(self) -> (r: SetIter<T>)
        ensures
            r.rest().no_duplicates(),
            r.rest().to_set() == self.view(),
    { unimplemented!() }
}

// ---- BLS aggregate signature with signer bitmask (src/crypto/aggsig.rs): opaque; only the
// signer set is visible to the consensus logic.
#[verifier::external_body]
pub struct AggregateSignature { _p: () }

impl AggregateSignature {
    pub uninterp spec fn signers(&self) -> ISet<int>;
}
