// ===================================================================== common/quorum_core.rs
// Fraction::is_met, the four threshold constants, EpochInfo accessors and is_*quorum.
// ---------------------------------------------------------------------------------------------
/*@ extract src/types/fraction.rs :: struct Fraction
derive Clone, Copy
@*/

// The mathematical meaning of "value/total >= num/den" (exact, over unbounded integers).
pub open spec fn frac_met(num: int, den: int, value: int, total: int) -> bool {
    value * den >= total * num
}

impl Fraction {
/*@ extract src/types/fraction.rs :: impl Fraction/fn new
props C03 C06 C09
ret r
ensures
        // [C03.fraction_new C06.fraction_new C09.fraction_new]
        r.numerator == numerator,
        r.denominator == denominator,
@*/

/*@ extract src/types/fraction.rs :: impl Fraction/fn is_met
props C03 C06 C09
ret r
ensures
        // [C03.is_met_exact C06.is_met_exact C09.is_met_exact]
        r == frac_met(self.numerator as int, self.denominator.v as int, value as int, total as int),
before `(value as u128)`
        proof {
            lemma_mul_u64_fits_u128(value, self.denominator.v);
            lemma_mul_u64_fits_u128(total, self.numerator);
        }
@*/
}

/*@ extract src/consensus.rs :: const WEAKEST_QUORUM_THRESHOLD
props C06
ensures
        // [C06.threshold_20_percent]
        WEAKEST_QUORUM_THRESHOLD.numerator == 1 && WEAKEST_QUORUM_THRESHOLD.denominator.v == 5,
@*/
/*@ extract src/consensus.rs :: const WEAK_QUORUM_THRESHOLD
props C06
ensures
        // [C06.threshold_40_percent]
        WEAK_QUORUM_THRESHOLD.numerator == 2 && WEAK_QUORUM_THRESHOLD.denominator.v == 5,
@*/
/*@ extract src/consensus.rs :: const QUORUM_THRESHOLD
props C03 C06 C09
ensures
        // [C03.threshold_60_percent C06.threshold_60_percent C09.threshold_60_percent]
        QUORUM_THRESHOLD.numerator == 3 && QUORUM_THRESHOLD.denominator.v == 5,
@*/
/*@ extract src/consensus.rs :: const STRONG_QUORUM_THRESHOLD
props C03 C09
ensures
        // [C03.threshold_80_percent C09.threshold_80_percent]
        STRONG_QUORUM_THRESHOLD.numerator == 4 && STRONG_QUORUM_THRESHOLD.denominator.v == 5,
@*/

// TRUSTED opaque stand-in: BLS public key (blst); #[derive(Clone, Copy)] in the repo.
#[verifier::external_body]
pub struct PublicKey { _p: () }
impl Clone for PublicKey {
    #[verifier::external_body]
    fn clone(&self) -> (r: Self) ensures r == *self { unimplemented!() }
}
impl Copy for PublicKey {}

// TRUSTED stand-in for `ValidatorInfo` (src/lib.rs): only the fields the consensus units read.
// The Ed25519 key and the socket addresses are irrelevant here and are dropped.
pub struct ValidatorInfo {
    pub id: ValidatorIndex,
    pub stake: Stake,
    pub voting_pubkey: PublicKey,
}

/*@ extract src/consensus/epoch_info.rs :: struct EpochInfo
derive
@*/
/*@ extract src/consensus/epoch_info.rs :: struct ValidatorEpochInfo
derive
@*/

// The property statements' thresholds, written from properties.jsonl (C03/C06/C09):
// "at least 20% / 40% / 60% / 80% of total stake", exact over the integers.
pub open spec fn at_least_pct(stake: int, total: int, pct: int) -> bool {
    stake * 100 >= total * pct
}

pub proof fn lemma_pct_is_fifths(stake: int, total: int)
    ensures
        at_least_pct(stake, total, 20) == frac_met(1, 5, stake, total),
        at_least_pct(stake, total, 40) == frac_met(2, 5, stake, total),
        at_least_pct(stake, total, 60) == frac_met(3, 5, stake, total),
        at_least_pct(stake, total, 80) == frac_met(4, 5, stake, total),
{
}

impl EpochInfo {
/*@ extract src/consensus/epoch_info.rs :: impl EpochInfo/fn validators
ret r
ensures
        r@ == self.validators@,
@*/

/*@ extract src/consensus/epoch_info.rs :: impl EpochInfo/fn validator
ret r
requires
        (id.0 as usize) < self.validators@.len(),
ensures
        *r == self.validators@[id.0 as int],
@*/

/*@ extract src/consensus/epoch_info.rs :: impl EpochInfo/fn total_stake
ret r
ensures
        r == self.total_stake,
@*/

/*@ extract src/consensus/epoch_info.rs :: impl EpochInfo/fn is_weakest_quorum
props C06
ret r
ensures
        // [C06.weakest_quorum_is_20_percent]
        r == at_least_pct(stake.0 as int, self.total_stake.0 as int, 20),
before `WEAKEST_QUORUM_THRESHOLD.is_met`
        proof { lemma_pct_is_fifths(stake.0 as int, self.total_stake.0 as int); }
@*/

/*@ extract src/consensus/epoch_info.rs :: impl EpochInfo/fn is_weak_quorum
props C06
ret r
ensures
        // [C06.weak_quorum_is_40_percent]
        r == at_least_pct(stake.0 as int, self.total_stake.0 as int, 40),
before `WEAK_QUORUM_THRESHOLD.is_met`
        proof { lemma_pct_is_fifths(stake.0 as int, self.total_stake.0 as int); }
@*/

/*@ extract src/consensus/epoch_info.rs :: impl EpochInfo/fn is_quorum
props C03 C06 C09
ret r
ensures
        // [C03.quorum_is_60_percent C06.quorum_is_60_percent C09.quorum_is_60_percent]
        r == at_least_pct(stake.0 as int, self.total_stake.0 as int, 60),
before `QUORUM_THRESHOLD.is_met`
        proof { lemma_pct_is_fifths(stake.0 as int, self.total_stake.0 as int); }
@*/

/*@ extract src/consensus/epoch_info.rs :: impl EpochInfo/fn is_strong_quorum
props C03 C09
ret r
ensures
        // [C03.strong_quorum_is_80_percent C09.strong_quorum_is_80_percent]
        r == at_least_pct(stake.0 as int, self.total_stake.0 as int, 80),
before `STRONG_QUORUM_THRESHOLD.is_met`
        proof { lemma_pct_is_fifths(stake.0 as int, self.total_stake.0 as int); }
@*/
}

impl ValidatorEpochInfo {
/*@ extract src/consensus/epoch_info.rs :: impl ValidatorEpochInfo/fn own_id
ret r
ensures
        r == self.own_id,
@*/
/*@ extract src/consensus/epoch_info.rs :: impl ValidatorEpochInfo/fn epoch_info
ret r
ensures
        *r == self.epoch,
@*/
}
