// ===================================================================== common/std_specs.rs
// std functions without a vstd specification (generic, TRUSTED: each states the documented behaviour).
pub assume_specification<T, F: FnOnce(T) -> bool>[ Option::<T>::is_some_and ](o: Option<T>, f: F) -> (r: bool)
    requires
        o is Some ==> f.requires((o->0,)),
    ensures
        o is None ==> !r,
        o is Some ==> f.ensures((o->0,), r);

pub assume_specification<T>[ bool::then_some::<T> ](b: bool, t: T) -> (r: Option<T>)
    ensures
        r == (if b { Some(t) } else { None::<T> });

pub assume_specification<'a, T: Copy>[ Option::<&'a T>::copied ](o: Option<&'a T>) -> (r: Option<T>)
    ensures
        o is None ==> r is None,
        o matches Some(x) ==> r == Some(*x);


