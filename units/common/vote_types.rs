// ===================================================================== common/vote_types.rs
// Vote structs / enum and their accessors (src/consensus/vote.rs), PoolEvent / SlashableOffence.
// ---------------------------------------------------------------------------------------------

// TRUSTED opaque stand-in: BLS individual signature (blst); never inspected by the consensus logic.
#[verifier::external_body]
pub struct IndividualSignature { _p: () }
impl Clone for IndividualSignature {
    #[verifier::external_body]
    fn clone(&self) -> (r: Self) ensures r == *self { unimplemented!() }
}

/*@ extract src/consensus/vote.rs :: struct NotarVote
derive
traits Clone
@*/
/*@ extract src/consensus/vote.rs :: struct NotarFallbackVote
derive
traits Clone
@*/
/*@ extract src/consensus/vote.rs :: struct SkipVote
derive
traits Clone
@*/
/*@ extract src/consensus/vote.rs :: struct SkipFallbackVote
derive
traits Clone
@*/
/*@ extract src/consensus/vote.rs :: struct FinalVote
derive
traits Clone
@*/
/*@ extract src/consensus/vote.rs :: enum Vote
derive
traits Clone
@*/

impl NotarVote {
/*@ extract src/consensus/vote.rs :: impl NotarVote/fn slot
ret r
ensures
        r == self.slot,
@*/
/*@ extract src/consensus/vote.rs :: impl NotarVote/fn block_hash
ret r
ensures
        *r == self.block_hash,
@*/
}
impl NotarFallbackVote {
/*@ extract src/consensus/vote.rs :: impl NotarFallbackVote/fn slot
ret r
ensures
        r == self.slot,
@*/
/*@ extract src/consensus/vote.rs :: impl NotarFallbackVote/fn block_hash
ret r
ensures
        *r == self.block_hash,
@*/
}
impl SkipVote {
/*@ extract src/consensus/vote.rs :: impl SkipVote/fn slot
ret r
ensures
        r == self.slot,
@*/
}
impl SkipFallbackVote {
/*@ extract src/consensus/vote.rs :: impl SkipFallbackVote/fn slot
ret r
ensures
        r == self.slot,
@*/
}
impl FinalVote {
/*@ extract src/consensus/vote.rs :: impl FinalVote/fn slot
ret r
ensures
        r == self.slot,
@*/
}

// What a vote says, independent of its signature (the vocabulary of the property statements).
pub enum VoteKind {
    Notar(BlockHash),
    NotarFallback(BlockHash),
    Skip,
    SkipFallback,
    Final,
}

impl Vote {
    pub open spec fn spec_kind(&self) -> VoteKind {
        match *self {
            Vote::Notar(v) => VoteKind::Notar(v.block_hash),
            Vote::NotarFallback(v) => VoteKind::NotarFallback(v.block_hash),
            Vote::Skip(_) => VoteKind::Skip,
            Vote::SkipFallback(_) => VoteKind::SkipFallback,
            Vote::Final(_) => VoteKind::Final,
        }
    }
    pub open spec fn spec_slot(&self) -> Slot {
        match *self {
            Vote::Notar(v) => v.slot,
            Vote::NotarFallback(v) => v.slot,
            Vote::Skip(v) => v.slot,
            Vote::SkipFallback(v) => v.slot,
            Vote::Final(v) => v.slot,
        }
    }
    pub open spec fn spec_signer(&self) -> ValidatorIndex {
        match *self {
            Vote::Notar(v) => v.signer,
            Vote::NotarFallback(v) => v.signer,
            Vote::Skip(v) => v.signer,
            Vote::SkipFallback(v) => v.signer,
            Vote::Final(v) => v.signer,
        }
    }

/*@ extract src/consensus/vote.rs :: impl Vote/fn slot
ret r
ensures
        r == self.spec_slot(),
@*/
/*@ extract src/consensus/vote.rs :: impl Vote/fn signer
ret r
ensures
        r == self.spec_signer(),
@*/
/*@ extract src/consensus/vote.rs :: impl Vote/fn block_hash
ret r
ensures
        match self.spec_kind() {
            VoteKind::Notar(h) => r == Some(&h),
            VoteKind::NotarFallback(h) => r == Some(&h),
            _ => r is None,
        },
@*/
}

/*@ extract src/consensus/pool.rs :: enum SlashableOffence
derive Clone, Copy
@*/
