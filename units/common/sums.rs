// ===================================================================== common/sums.rs
// Stake sums over validator indices selected by a predicate, and index sequences selected by a
// predicate.  All PROVED (no assumptions).
// ---------------------------------------------------------------------------------------------

// Σ_{v < n, p(v)} stakes[v]
pub open spec fn sum_where(stakes: Seq<int>, n: int, p: spec_fn(int) -> bool) -> int
    decreases n
{
    if n <= 0 { 0 } else { sum_where(stakes, n - 1, p) + (if p(n - 1) { stakes[n - 1] } else { 0 }) }
}

pub open spec fn all_true() -> spec_fn(int) -> bool { |v: int| true }

pub proof fn lemma_sum_nonneg(stakes: Seq<int>, n: int, p: spec_fn(int) -> bool)
    requires forall|i: int| 0 <= i < stakes.len() ==> stakes[i] >= 0, n <= stakes.len(),
    ensures sum_where(stakes, n, p) >= 0
    decreases n
{
    if n > 0 { lemma_sum_nonneg(stakes, n - 1, p); }
}

// pointwise-equal predicates give equal sums
pub proof fn lemma_sum_ext(stakes: Seq<int>, n: int, p: spec_fn(int) -> bool, q: spec_fn(int) -> bool)
    requires forall|v: int| 0 <= v < n ==> #[trigger] p(v) == q(v),
    ensures sum_where(stakes, n, p) == sum_where(stakes, n, q)
    decreases n
{
    if n > 0 { lemma_sum_ext(stakes, n - 1, p, q); }
}

// p implies q  ==>  sum(p) <= sum(q)
pub proof fn lemma_sum_mono(stakes: Seq<int>, n: int, p: spec_fn(int) -> bool, q: spec_fn(int) -> bool)
    requires
        forall|i: int| 0 <= i < stakes.len() ==> stakes[i] >= 0, n <= stakes.len(),
        forall|v: int| 0 <= v < n ==> (#[trigger] p(v) ==> q(v)),
    ensures sum_where(stakes, n, p) <= sum_where(stakes, n, q)
    decreases n
{
    if n > 0 { lemma_sum_mono(stakes, n - 1, p, q); }
}

// q is p with exactly index w added
pub proof fn lemma_sum_add_one(stakes: Seq<int>, n: int, p: spec_fn(int) -> bool, q: spec_fn(int) -> bool, w: int)
    requires
        0 <= w < n,
        !p(w), q(w),
        forall|v: int| 0 <= v < n && v != w ==> #[trigger] p(v) == q(v),
    ensures sum_where(stakes, n, q) == sum_where(stakes, n, p) + stakes[w]
    decreases n
{
    if n > 0 {
        if w == n - 1 {
            lemma_sum_ext(stakes, n - 1, p, q);
        } else {
            lemma_sum_add_one(stakes, n - 1, p, q, w);
        }
    }
}

// disjoint predicates: sum(p) + sum(q) == sum(p || q)
pub proof fn lemma_sum_disjoint(stakes: Seq<int>, n: int, p: spec_fn(int) -> bool, q: spec_fn(int) -> bool, pq: spec_fn(int) -> bool)
    requires
        forall|v: int| 0 <= v < n ==> !(#[trigger] p(v) && q(v)),
        forall|v: int| 0 <= v < n ==> #[trigger] pq(v) == (p(v) || q(v)),
    ensures sum_where(stakes, n, p) + sum_where(stakes, n, q) == sum_where(stakes, n, pq)
    decreases n
{
    if n > 0 { lemma_sum_disjoint(stakes, n - 1, p, q, pq); }
}

// nothing selected: sum is 0
pub proof fn lemma_sum_none(stakes: Seq<int>, n: int, p: spec_fn(int) -> bool)
    requires forall|v: int| 0 <= v < n ==> !#[trigger] p(v),
    ensures sum_where(stakes, n, p) == 0
    decreases n
{
    if n > 0 { lemma_sum_none(stakes, n - 1, p); }
}

// something selected with positive... (not needed) ; a selected index contributes at most the sum
pub proof fn lemma_sum_ge_member(stakes: Seq<int>, n: int, p: spec_fn(int) -> bool, w: int)
    requires
        forall|i: int| 0 <= i < stakes.len() ==> stakes[i] >= 0, n <= stakes.len(),
        0 <= w < n, p(w),
    ensures sum_where(stakes, n, p) >= stakes[w]
    decreases n
{
    if n > 0 {
        lemma_sum_nonneg(stakes, n - 1, p);
        if w != n - 1 { lemma_sum_ge_member(stakes, n - 1, p, w); }
    }
}

// ---- indices selected by a predicate, in increasing order (what `iter().filter(..)` visits)
pub open spec fn idx_where(n: int, p: spec_fn(int) -> bool) -> Seq<int>
    decreases n
{
    if n <= 0 { Seq::<int>::empty() } else if p(n - 1) { idx_where(n - 1, p).push(n - 1) } else { idx_where(n - 1, p) }
}

pub proof fn lemma_idx_where(n: int, p: spec_fn(int) -> bool)
    ensures
        forall|i: int| 0 <= i < idx_where(n, p).len() ==> 0 <= #[trigger] idx_where(n, p)[i] < n && p(idx_where(n, p)[i]),
        forall|i: int, j: int| 0 <= i < j < idx_where(n, p).len() ==> idx_where(n, p)[i] < idx_where(n, p)[j],
        forall|v: int| 0 <= v < n && #[trigger] p(v) ==> idx_where(n, p).contains(v),
        idx_where(n, p).len() <= (if n < 0 { 0 } else { n }),
    decreases n
{
    if n > 0 {
        lemma_idx_where(n - 1, p);
        let s0 = idx_where(n - 1, p);
        let s = idx_where(n, p);
        if p(n - 1) {
            assert(s == s0.push(n - 1));
            assert forall|v: int| 0 <= v < n && #[trigger] p(v) implies s.contains(v) by {
                if v == n - 1 { assert(s[s.len() - 1] == v); } else {
                    assert(s0.contains(v));
                    let i = choose|i: int| 0 <= i < s0.len() && s0[i] == v;
                    assert(s[i] == v);
                }
            }
        }
    }
}
