// Shared: the stand-in for MerkleTree<Leaf, Root, Proof> (R6) and the specification of a stored tree and of a created proof.
// stand-in for `MerkleTree<Leaf, Root, Proof>` (R6)
pub struct MerkleTree {
    pub nodes: Vec<Hash>,
    pub levels: Vec<(u32, u32)>,
}

// ---------------------------------------------------------------- specification of the stored tree
// level k+1 = pairwise hashes of level k, a missing right sibling replaced by the empty root of height k
pub open spec fn level_ok(nodes: Seq<Hash>, lo: (u32, u32), hi: (u32, u32), k: nat) -> bool {
    &&& hi.0 == lo.0 + lo.1
    &&& hi.1 == (lo.1 + 1) / 2
    &&& forall|j: int| 0 <= j < hi.1 ==> #[trigger] nodes[hi.0 + j] == spec_hash_pair(nodes[lo.0 + 2 * j],
            if 2 * j + 1 < lo.1 { nodes[lo.0 + 2 * j + 1] } else { spec_empty_root(k) })
}

// level k+1 is built from level k (a named predicate: the quantifiers over it trigger on this term only, not on `levels[k]`,
// which would chain k -> k+1 -> ..)
pub open spec fn lvl_ok(nodes: Seq<Hash>, levels: Seq<(u32, u32)>, k: int) -> bool {
    level_ok(nodes, levels[k], levels[k + 1], k as nat)
}

impl MerkleTree {
    pub open spec fn num_leaves(&self) -> nat { self.levels@[0].1 as nat }
    pub open spec fn spec_height(&self) -> nat { (self.levels@.len() - 1) as nat }
    pub open spec fn spec_root(&self) -> Hash { self.nodes@[self.nodes@.len() - 1] }
    pub open spec fn wf(&self) -> bool {
        &&& 1 <= self.levels@.len() <= 32
        &&& self.levels@[0].0 == 0 && self.levels@[0].1 >= 1
        &&& forall|k: int| 0 <= k < self.levels@.len() - 1 ==> #[trigger] lvl_ok(self.nodes@, self.levels@, k)
        &&& self.levels@[self.levels@.len() - 1].1 == 1
        &&& self.nodes@.len() == self.levels@[self.levels@.len() - 1].0 + 1
        &&& self.nodes@.len() <= u32::MAX
    }
}

// ---------------------------------------------------------------- the proof create_proof builds
impl MerkleTree {
    // position of the leaf's ancestor on level k
    pub open spec fn pos(&self, index: nat, k: nat) -> nat { index / pow2(k) }
    pub open spec fn node_at(&self, index: nat, k: nat) -> Hash { self.nodes@[self.levels@[k as int].0 + self.pos(index, k)] }
    // the sibling of that ancestor (the canonical empty root if there is none to the right)
    pub open spec fn sib(&self, index: nat, k: nat) -> Hash {
        let ik = self.pos(index, k);
        let (off, len) = self.levels@[k as int];
        if ik % 2 == 0 { if ik + 1 < len { self.nodes@[off + ik + 1] } else { spec_empty_root(k) } } else { self.nodes@[off + ik - 1] }
    }
    pub open spec fn is_proof_for(&self, index: nat, p: Seq<Hash>) -> bool {
        p.len() == self.spec_height() && forall|k: int| 0 <= k < p.len() ==> #[trigger] p[k] == self.sib(index, k as nat)
    }
}

