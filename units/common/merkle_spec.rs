// Shared C15 specification: idealised hash functions, the EMPTY_ROOTS table, the re-derived root of a proof.
pub type Root = Hash;
pub type Proof = Vec<Hash>;

/*@ extract src/crypto/merkle.rs :: const MAX_MERKLE_TREE_HEIGHT
@*/

// ---------------------------------------------------------------- idealised hash functions
// ASSUMPTION (standard): SHA-256 with the three distinct 32-byte labels behaves like two injective,
// domain-separated functions.  Collision resistance is not something a program verifier can prove.
pub uninterp spec fn spec_hash_leaf(data: Seq<u8>) -> Hash;
pub uninterp spec fn spec_hash_pair(l: Hash, r: Hash) -> Hash;

#[verifier::external_body]
pub broadcast proof fn axiom_pair_injective(a: Hash, b: Hash, c: Hash, d: Hash)
    requires #[trigger] spec_hash_pair(a, b) == #[trigger] spec_hash_pair(c, d),
    ensures a == c && b == d,
{}
#[verifier::external_body]
pub broadcast proof fn axiom_leaf_injective(x: Seq<u8>, y: Seq<u8>)
    requires #[trigger] spec_hash_leaf(x) == #[trigger] spec_hash_leaf(y),
    ensures x == y,
{}
#[verifier::external_body]
pub broadcast proof fn axiom_domain_separation(x: Seq<u8>, a: Hash, b: Hash)
    ensures #[trigger] spec_hash_leaf(x) != #[trigger] spec_hash_pair(a, b),
{}

// canonical root of an empty subtree of the given height
pub open spec fn spec_empty_root(k: nat) -> Hash
    decreases k
{
    if k == 0 { spec_hash_leaf(Seq::<u8>::empty()) } else { spec_hash_pair(spec_empty_root((k - 1) as nat), spec_empty_root((k - 1) as nat)) }
}

// TRUSTED stand-in for the constant table EMPTY_ROOTS (32 hex literals behind the `hex!` macro).
// ASSUMPTION: EMPTY_ROOTS[k] is the canonical empty root of height k - exactly what the repo's own
// test `crypto::merkle::tests::empty_roots` recomputes.
pub exec const EMPTY_ROOTS: [Hash; 32]
    ensures
        forall|k: int| 0 <= k < 32 ==> #[trigger] EMPTY_ROOTS[k] == spec_empty_root(k as nat),
{
    let a = [Hash([0u8; 32]), Hash([0u8; 32]), Hash([0u8; 32]), Hash([0u8; 32]), Hash([0u8; 32]), Hash([0u8; 32]), Hash([0u8; 32]), Hash([0u8; 32]), Hash([0u8; 32]), Hash([0u8; 32]), Hash([0u8; 32]), Hash([0u8; 32]), Hash([0u8; 32]), Hash([0u8; 32]), Hash([0u8; 32]), Hash([0u8; 32]), Hash([0u8; 32]), Hash([0u8; 32]), Hash([0u8; 32]), Hash([0u8; 32]), Hash([0u8; 32]), Hash([0u8; 32]), Hash([0u8; 32]), Hash([0u8; 32]), Hash([0u8; 32]), Hash([0u8; 32]), Hash([0u8; 32]), Hash([0u8; 32]), Hash([0u8; 32]), Hash([0u8; 32]), Hash([0u8; 32]), Hash([0u8; 32])];
    proof { assume(forall|k: int| 0 <= k < 32 ==> #[trigger] a[k] == spec_empty_root(k as nat)); }
    a
}

impl Hash {
    // `MerkleRoot::as_hash` for Root = Hash is the identity projection (R6-projection)
    pub fn as_hash(&self) -> (r: &Hash)
        ensures *r == *self
    { self }
}

// ---------------------------------------------------------------- C15 specification
pub open spec fn pow2(n: nat) -> nat decreases n { if n == 0 { 1 } else { 2 * pow2((n - 1) as nat) } }

// the root re-derived from a leaf hash, a claimed index and a proof (one index bit per element)
pub open spec fn spec_derive(h: Hash, idx: nat, p: Seq<Hash>) -> Hash
    decreases p.len()
{
    if p.len() == 0 { h } else {
        spec_derive(if idx % 2 == 0 { spec_hash_pair(h, p[0]) } else { spec_hash_pair(p[0], h) }, idx / 2, p.skip(1))
    }
}

// every position whose index bit is 0 has the canonical empty subtree as right sibling
pub open spec fn spec_right_siblings_empty(idx: nat, p: Seq<Hash>, base: nat) -> bool
    decreases p.len()
{
    if p.len() == 0 { true } else {
        (idx % 2 == 0 ==> p[0] == spec_empty_root(base)) && spec_right_siblings_empty(idx / 2, p.skip(1), base + 1)
    }
}

