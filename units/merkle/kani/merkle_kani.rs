// Kani harnesses for src/crypto/merkle.rs, compiled into the real crate as `crypto::merkle::verif_kani`
// under cfg(kani).  The SHA-256 based `hash_all` is stubbed by a cheap mixing function: the facts
// checked here (length / width guards, created proofs verify) do not depend on collision resistance.
use super::*;
use crate::crypto::hash::Hash;

fn stub_hash_all(data: &[&[u8]]) -> Hash {
    let mut out = [0u8; 32];
    let mut k: usize = 0;
    let mut acc: u8 = 0x5a;
    for item in data {
        // only the first and last byte of every part take part (keeps symbolic execution small)
        if let Some(b) = item.first() {
            acc = acc.rotate_left(3) ^ *b;
            out[k % 32] ^= acc;
            k += 1;
        }
        if let Some(b) = item.last() {
            acc = acc.rotate_left(1).wrapping_add(*b);
            out[(k + 7) % 32] ^= acc;
            k += 1;
        }
    }
    Hash(out)
}

fn any_hash() -> Hash {
    let mut b = [0u8; 32];
    b[0] = kani::any();
    b[31] = kani::any();
    Hash(b)
}

// complete for the claim "a proof longer than the maximum tree height never verifies"
#[kani::proof]
#[kani::unwind(36)]
#[kani::stub(crate::crypto::hash::hash_all, stub_hash_all)]
fn kani_merkle_overlong_proof_rejected() {
    let len: usize = 33;
    let mut proof: Vec<Hash> = Vec::new();
    for _ in 0..len {
        proof.push(any_hash());
    }
    let leaf = any_hash();
    let root = Hash(kani::any());
    let index: usize = kani::any();
    assert!(!PlainMerkleTree::check_hash_proof(leaf.clone(), index, &root, &proof));
    assert!(!PlainMerkleTree::check_hash_proof_last(leaf, index, &root, &proof));
}

// bounded (proof length <= 3): an index beyond the width of the tree never verifies
#[kani::proof]
#[kani::unwind(5)]
#[kani::stub(crate::crypto::hash::hash_all, stub_hash_all)]
fn kani_merkle_index_beyond_width_rejected() {
    let len: usize = kani::any();
    kani::assume(len <= 3);
    let mut proof: Vec<Hash> = Vec::new();
    for _ in 0..len {
        proof.push(any_hash());
    }
    let leaf = any_hash();
    let root = Hash(kani::any());
    let index: usize = kani::any();
    kani::assume(index >= (1usize << len));
    assert!(!PlainMerkleTree::check_hash_proof(leaf.clone(), index, &root, &proof));
    assert!(!PlainMerkleTree::check_hash_proof_last(leaf, index, &root, &proof));
}

// bounded (1..=5 leaves): every proof the tree creates verifies, and the last leaf's proof passes
// the last-leaf variant
#[kani::proof]
#[kani::unwind(8)]
#[kani::stub(crate::crypto::hash::hash_all, stub_hash_all)]
fn kani_merkle_created_proofs_verify() {
    let n: usize = kani::any();
    kani::assume(1 <= n && n <= 5);
    let mut data: Vec<Vec<u8>> = Vec::new();
    for _ in 0..n {
        let b: u8 = kani::any();
        data.push(vec![b]);
    }
    let tree = PlainMerkleTree::new(&data);
    let root = tree.get_root();
    let i: usize = kani::any();
    kani::assume(i < n);
    let proof = tree.create_proof(i);
    assert!(PlainMerkleTree::check_proof(&data[i], i, &root, &proof));
    let last = tree.create_proof(n - 1);
    assert!(PlainMerkleTree::check_proof_last(&data[n - 1], n - 1, &root, &last));
}
