// Unit U8 `merkle`: Merkle proof verification (src/crypto/merkle.rs).  Serves C15 (and the
// integrity half of C14, the position binding of C12).
//
// Rewrite R6 (generic erasure): the functions live in `impl<Leaf, Root, Proof> MerkleTree<..>`;
// they are verified for the instantiation Root = Hash, Proof = Vec<Hash> (type aliases below), with
// `proof.as_ref()` -> `proof.as_slice()` and `node.into()` -> `node`.  The newtypes SliceRoot /
// DoubleMerkleRoot / SliceProof / DoubleMerkleProof are transparent wrappers whose From / AsRef /
// as_hash impls are field projections (checked textually by the extractor: see `R6-projection` items).
use vstd::prelude::*;

verus! {

/*@ include units/common/base_types.rs @*/

/*@ include units/common/merkle_spec.rs @*/

// A complete binary hash tree of height H given by its level function L(k, j): node j of level k.
pub open spec fn is_tree(l: spec_fn(nat, nat) -> Hash, height: nat) -> bool {
    forall|k: nat, j: nat| k < height ==> #[trigger] l((k + 1) as nat, j) == spec_hash_pair(l(k, 2 * j), l(k, 2 * j + 1))
}
pub open spec fn leaves_are_leaf_hashes(l: spec_fn(nat, nat) -> Hash) -> bool {
    forall|j: nat| exists|d: Seq<u8>| #[trigger] l(0, j) == spec_hash_leaf(d)
}

pub proof fn lemma_pow2_pos(n: nat) ensures pow2(n) > 0 decreases n { if n > 0 { lemma_pow2_pos((n - 1) as nat); } }

// the node reached after consuming the first m proof elements
pub open spec fn spec_after(h: Hash, idx: nat, p: Seq<Hash>, m: nat) -> Hash
    decreases m
{
    if m == 0 || p.len() == 0 { h } else {
        spec_after(if idx % 2 == 0 { spec_hash_pair(h, p[0]) } else { spec_hash_pair(p[0], h) }, idx / 2, p.skip(1), (m - 1) as nat)
    }
}
pub open spec fn is_pair(x: Hash) -> bool { exists|a: Hash, b: Hash| x == #[trigger] spec_hash_pair(a, b) }

pub proof fn lemma_derive_split(h: Hash, idx: nat, p: Seq<Hash>, m: nat)
    requires m <= p.len(),
    ensures
        spec_derive(h, idx, p) == spec_derive(spec_after(h, idx, p, m), (idx / pow2(m)) as nat, p.skip(m as int)),
        m > 0 ==> is_pair(spec_after(h, idx, p, m)),
    decreases m
{
    lemma_pow2_pos(m);
    if m == 0 {
        assert(p.skip(0) =~= p);
        assert(idx / 1 == idx);
    } else {
        let h1 = if idx % 2 == 0 { spec_hash_pair(h, p[0]) } else { spec_hash_pair(p[0], h) };
        lemma_derive_split(h1, idx / 2, p.skip(1), (m - 1) as nat);
        assert(p.skip(1).skip((m - 1) as int) =~= p.skip(m as int));
        lemma_pow2_pos((m - 1) as nat);
        assert((idx / 2) / pow2((m - 1) as nat) == idx / pow2(m)) by (nonlinear_arith)
            requires pow2(m) == 2 * pow2((m - 1) as nat), pow2((m - 1) as nat) > 0;
        if m == 1 {
            assert(spec_after(h1, idx / 2, p.skip(1), 0) == h1);
            assert(is_pair(h1));
        }
    }
}

// [C15.proof_binds_leaf_index_and_elements]  Soundness against an arbitrary tree: a proof of the
// right length and an in-width index that re-derives the root pins the leaf at that index and every
// proof element (the sibling on the path).
pub proof fn lemma_proof_sound(l: spec_fn(nat, nat) -> Hash, height: nat, k: nat, h: Hash, idx: nat, p: Seq<Hash>)
    requires
        is_tree(l, height),
        k <= height,
        p.len() == height - k,
        idx < pow2((height - k) as nat),
        spec_derive(h, idx, p) == l(height, 0),
    ensures
        h == l(k, idx),
        forall|m: int| 0 <= m < p.len() ==> #[trigger] p[m] == l((k + m) as nat, if (idx / pow2(m as nat)) % 2 == 0 { (idx / pow2(m as nat) + 1) as nat } else { (idx / pow2(m as nat) - 1) as nat }),
    decreases p.len()
{
    broadcast use axiom_pair_injective;
    if p.len() == 0 {
        assert(idx == 0);
    } else {
        let h1 = if idx % 2 == 0 { spec_hash_pair(h, p[0]) } else { spec_hash_pair(p[0], h) };
        let q = p.skip(1);
        assert(pow2((height - k) as nat) == 2 * pow2((height - k - 1) as nat));
        lemma_proof_sound(l, height, k + 1, h1, idx / 2, q);
        assert(h1 == l((k + 1) as nat, idx / 2));
        assert(l((k + 1) as nat, idx / 2) == spec_hash_pair(l(k, 2 * (idx / 2)), l(k, 2 * (idx / 2) + 1)));
        assert forall|m: int| 0 <= m < p.len() implies #[trigger] p[m] == l((k + m) as nat, if (idx / pow2(m as nat)) % 2 == 0 { (idx / pow2(m as nat) + 1) as nat } else { (idx / pow2(m as nat) - 1) as nat }) by {
            if m == 0 {
                assert(idx / 1 == idx);
            } else {
                assert(p[m] == q[m - 1]);
                lemma_pow2_pos((m - 1) as nat);
                assert((idx / 2) / pow2((m - 1) as nat) == idx / pow2(m as nat)) by (nonlinear_arith)
                    requires pow2(m as nat) == 2 * pow2((m - 1) as nat), pow2((m - 1) as nat) > 0;
                assert(k + 1 + (m - 1) == k + m);
            }
        }
    }
}

// [C15.wrong_length_fails]  Against a tree whose level 0 consists of leaf hashes, a leaf-hash proof
// that re-derives the root has exactly the tree's height (neither lengthened nor shortened).
pub proof fn lemma_proof_length(l: spec_fn(nat, nat) -> Hash, height: nat, d: Seq<u8>, idx: nat, p: Seq<Hash>)
    requires
        is_tree(l, height),
        leaves_are_leaf_hashes(l),
        idx < pow2(p.len()),
        spec_derive(spec_hash_leaf(d), idx, p) == l(height, 0),
    ensures
        p.len() == height,
{
    broadcast use axiom_domain_separation;
    let h = spec_hash_leaf(d);
    if p.len() < height {
        // h would have to be the internal node l(height - p.len(), idx) = pair(..)
        let k = (height - p.len()) as nat;
        lemma_proof_sound(l, height, k, h, idx, p);
        let k1 = (k - 1) as nat;
        assert(l((k1 + 1) as nat, idx) == spec_hash_pair(l(k1, 2 * idx), l(k1, 2 * idx + 1)));
        assert((k1 + 1) as nat == k);
    } else if p.len() > height {
        // the node reached after p.len() - height steps is a pair hash but must equal a level-0 leaf hash
        let m = (p.len() - height) as nat;
        lemma_derive_split(h, idx, p, m);
        let x = spec_after(h, idx, p, m);
        lemma_pow2_pos(m);
        lemma_pow2_pos(height);
        lemma_pow2_add(m, height);
        assert(idx / pow2(m) < pow2(height)) by (nonlinear_arith)
            requires idx < pow2(m) * pow2(height), pow2(m) > 0;
        lemma_proof_sound(l, height, 0, x, (idx / pow2(m)) as nat, p.skip(m as int));
        let j = (idx / pow2(m)) as nat;
        let dd = choose|dd: Seq<u8>| l(0, j) == spec_hash_leaf(dd);
        assert(x == spec_hash_leaf(dd));
    }
}

pub proof fn lemma_pow2_add(a: nat, b: nat)
    ensures pow2(a + b) == pow2(a) * pow2(b)
    decreases a
{
    if a > 0 {
        lemma_pow2_add((a - 1) as nat, b);
        assert(pow2(a + b) == 2 * pow2((a - 1 + b) as nat));
        assert(2 * (pow2((a - 1) as nat) * pow2(b)) == (2 * pow2((a - 1) as nat)) * pow2(b)) by (nonlinear_arith);
    } else {
        assert(pow2(0) * pow2(b) == pow2(b)) by (nonlinear_arith) requires pow2(0) == 1;
    }
}


// [C15.theorem_proof_verifies_only_for_the_leaf_at_that_position]  What a `true` answer of
// check_hash_proof means against ANY tree with that root whose leaves are leaf hashes:
// the proof has the tree's height, the leaf is the index-th leaf and every proof element is the
// sibling on the path - so changing the leaf, the index (also beyond the width), the root, any proof
// element or the proof's length makes verification fail.
pub proof fn theorem_c15_membership(l: spec_fn(nat, nat) -> Hash, height: nat, d: Seq<u8>, idx: nat, root: Hash, p: Seq<Hash>)
    requires
        is_tree(l, height), leaves_are_leaf_hashes(l), root == l(height, 0),
        // the postcondition of check_hash_proof(hash_leaf(d), idx, root, p) == true
        p.len() <= 32 && idx < pow2(p.len()) && spec_derive(spec_hash_leaf(d), idx, p) == root,
    ensures
        p.len() == height,
        spec_hash_leaf(d) == l(0, idx),
        forall|e: Seq<u8>| l(0, idx) == spec_hash_leaf(e) ==> e == d,
        forall|m: int| 0 <= m < p.len() ==> #[trigger] p[m] == l(m as nat, if (idx / pow2(m as nat)) % 2 == 0 { (idx / pow2(m as nat) + 1) as nat } else { (idx / pow2(m as nat) - 1) as nat }),
{
    broadcast use axiom_leaf_injective;
    lemma_proof_length(l, height, d, idx, p);
    lemma_proof_sound(l, height, 0, spec_hash_leaf(d), idx, p);
    assert forall|m: int| 0 <= m < p.len() implies #[trigger] p[m] == l(m as nat, if (idx / pow2(m as nat)) % 2 == 0 { (idx / pow2(m as nat) + 1) as nat } else { (idx / pow2(m as nat) - 1) as nat }) by {
        assert((0 + m) as nat == m as nat);
    }
}

// per-level reading of spec_right_siblings_empty
pub proof fn lemma_right_siblings_unroll(idx: nat, p: Seq<Hash>, base: nat, m: nat)
    requires spec_right_siblings_empty(idx, p, base), m < p.len(), (idx / pow2(m)) % 2 == 0,
    ensures p[m as int] == spec_empty_root(base + m),
    decreases m
{
    if m == 0 {
        assert(idx / 1 == idx);
    } else {
        lemma_pow2_pos((m - 1) as nat);
        assert((idx / 2) / pow2((m - 1) as nat) == idx / pow2(m)) by (nonlinear_arith)
            requires pow2(m) == 2 * pow2((m - 1) as nat), pow2((m - 1) as nat) > 0;
        lemma_right_siblings_unroll(idx / 2, p.skip(1), base + 1, (m - 1) as nat);
        assert(p.skip(1)[(m - 1) as int] == p[m as int]);
        assert(base + 1 + (m - 1) == base + m);
    }
}

// a subtree whose root is the canonical empty root has only empty leaves
pub proof fn lemma_empty_subtree(l: spec_fn(nat, nat) -> Hash, height: nat, k: nat, x: nat, y: nat)
    requires is_tree(l, height), k <= height, l(k, x) == spec_empty_root(k), y / pow2(k) == x,
    ensures l(0, y) == spec_empty_root(0),
    decreases k
{
    broadcast use axiom_pair_injective;
    if k == 0 {
        assert(y / 1 == y);
    } else {
        let k1 = (k - 1) as nat;
        assert(l((k1 + 1) as nat, x) == spec_hash_pair(l(k1, 2 * x), l(k1, 2 * x + 1)));
        assert((k1 + 1) as nat == k);
        lemma_pow2_pos(k1);
        let c = y / pow2(k1);
        assert(c / 2 == y / pow2(k)) by (nonlinear_arith) requires pow2(k) == 2 * pow2(k1), pow2(k1) > 0, c == y / pow2(k1);
        assert(c == 2 * x || c == 2 * x + 1);
        lemma_empty_subtree(l, height, k1, c, y);
    }
}

// leaves j > idx inside the same level-k subtree as idx are empty
pub proof fn lemma_right_of_idx_empty(l: spec_fn(nat, nat) -> Hash, height: nat, k: nat, idx: nat, j: nat)
    requires
        is_tree(l, height), k <= height, j > idx, j / pow2(k) == idx / pow2(k),
        forall|m: nat| m < height && (idx / pow2(m)) % 2 == 0 ==> #[trigger] l(m, (idx / pow2(m) + 1) as nat) == spec_empty_root(m),
    ensures l(0, j) == spec_empty_root(0),
    decreases k
{
    if k == 0 {
        assert(j / 1 == j && idx / 1 == idx);
    } else {
        let k1 = (k - 1) as nat;
        lemma_pow2_pos(k1);
        let cj = j / pow2(k1);
        let ci = idx / pow2(k1);
        assert(cj / 2 == j / pow2(k)) by (nonlinear_arith) requires pow2(k) == 2 * pow2(k1), pow2(k1) > 0, cj == j / pow2(k1);
        assert(ci / 2 == idx / pow2(k)) by (nonlinear_arith) requires pow2(k) == 2 * pow2(k1), pow2(k1) > 0, ci == idx / pow2(k1);
        assert(cj >= ci) by (nonlinear_arith) requires j > idx, pow2(k1) > 0, cj == j / pow2(k1), ci == idx / pow2(k1);
        if cj == ci {
            lemma_right_of_idx_empty(l, height, k1, idx, j);
        } else {
            // same parent, different children, cj > ci  ==>  ci even, cj == ci + 1
            assert(ci % 2 == 0 && cj == ci + 1);
            assert(l(k1, (idx / pow2(k1) + 1) as nat) == spec_empty_root(k1));
            lemma_empty_subtree(l, height, k1, cj, j);
        }
    }
}

// [C15.theorem_last_leaf_means_nothing_to_the_right]  What a `true` answer of check_hash_proof_last
// means: in addition to membership, every leaf to the right of the index is the canonical empty leaf,
// so the number of (non-empty) leaves - the slice count of a block - cannot be misreported.
pub proof fn theorem_c15_last_leaf(l: spec_fn(nat, nat) -> Hash, height: nat, d: Seq<u8>, idx: nat, root: Hash, p: Seq<Hash>)
    requires
        is_tree(l, height), leaves_are_leaf_hashes(l), root == l(height, 0),
        // the postcondition of check_hash_proof_last(hash_leaf(d), idx, root, p) == true
        p.len() <= 32 && idx < pow2(p.len()) && spec_right_siblings_empty(idx, p, 0) && spec_derive(spec_hash_leaf(d), idx, p) == root,
    ensures
        p.len() == height,
        spec_hash_leaf(d) == l(0, idx),
        forall|j: nat| idx < j < pow2(height) ==> #[trigger] l(0, j) == spec_empty_root(0),
{
    theorem_c15_membership(l, height, d, idx, root, p);
    assert forall|m: nat| m < height && (idx / pow2(m)) % 2 == 0 implies #[trigger] l(m, (idx / pow2(m) + 1) as nat) == spec_empty_root(m) by {
        lemma_right_siblings_unroll(idx, p, 0, m);
        assert(p[m as int] == l(m, (idx / pow2(m) + 1) as nat));
    }
    assert forall|j: nat| idx < j < pow2(height) implies #[trigger] l(0, j) == spec_empty_root(0) by {
        lemma_pow2_pos(height);
        assert(j / pow2(height) == 0 && idx / pow2(height) == 0) by (nonlinear_arith) requires idx < j, j < pow2(height), pow2(height) > 0;
        lemma_right_of_idx_empty(l, height, height, idx, j);
    }
}

pub mod code {
use super::*;

/*@ include units/common/std_specs.rs @*/

// `index >> len == 0` is `index < 2^len` for len <= 32 (PROVED: bit-vector + induction)
pub proof fn lemma_one_shl_is_pow2(n: usize)
    requires n <= 32,
    ensures (1usize << n) as nat == pow2(n as nat),
    decreases n
{
    if n == 0 {
        assert(1usize << 0usize == 1usize) by (bit_vector);
    } else {
        let m = (n - 1) as usize;
        lemma_one_shl_is_pow2(m);
        assert((1usize << n) == 2 * (1usize << m)) by (bit_vector) requires n <= 32, n >= 1, m == n - 1;
    }
}
pub proof fn lemma_shr_zero_iff_lt_pow2(x: usize, n: usize)
    requires n <= 32,
    ensures (x >> n == 0) <==> (x as nat) < pow2(n as nat),
{
    lemma_one_shl_is_pow2(n);
    assert((x >> n == 0) <==> (x < (1usize << n))) by (bit_vector) requires n <= 32;
}
pub proof fn lemma_div_zero_iff_lt(x: nat, d: nat)
    requires d > 0,
    ensures (x / d == 0) <==> x < d,
{
    assert((x / d == 0) <==> x < d) by (nonlinear_arith) requires d > 0;
}

pub struct MerkleTree { pub _p: () }   // stand-in for the generic MerkleTree<Leaf, Root, Proof> (R6)

impl MerkleTree {
    // ASSUMED: hash_pair(left, right) = hash_all(&[&LEFT_LABEL, left, &RIGHT_LABEL, right]) is the idealised pair hash.
    #[verifier::external_body]
    pub fn hash_pair(left: &Hash, right: &Hash) -> (r: Hash)
        ensures r == spec_hash_pair(*left, *right)
    { unimplemented!() }

/*@ extract src/crypto/merkle.rs :: impl MerkleTree<Leaf, Root, Proof>/fn derive_hash_root
props C15 C14 C12
ret r
rewrite[R6] `for h in proof.as_ref() {` => `for h in it: proof.as_slice() {`
rewrite[R6] `node.into()` => `node`
ensures
        // [C15.derive_follows_index_bits]
        r == spec_derive(hash, index as nat, proof@),
loop 0
        invariant
            it.index@ <= proof@.len(),
            proof@.skip(proof@.len() as int) =~= Seq::<Hash>::empty(),
            spec_derive(hash, index as nat, proof@) == spec_derive(node, i as nat, proof@.skip(it.index@ as int)),
before `for h in it: proof.as_slice() {`
        proof { assert(proof@.skip(0) =~= proof@); }
before `node = match i % 2 {`
        proof {
            assert(*h == proof@[it.index@ as int]);
            assert(proof@.skip(it.index@ as int).skip(1) =~= proof@.skip(it.index@ as int + 1));
        }
@*/

/*@ extract src/crypto/merkle.rs :: impl MerkleTree<Leaf, Root, Proof>/fn derive_hash_root_last
props C15 C14
ret r
rewrite[R6] `proof.as_ref().len()` => `proof.as_slice().len()`
rewrite[R4] `for (height, h) in proof.as_ref().iter().enumerate() {` => `let verif_s = proof.as_slice(); let mut verif_k: usize = 0; while verif_k < verif_s.len() { let height = verif_k; let h = &verif_s[verif_k]; verif_k += 1;`
rewrite[R6] `Some(node.into())` => `Some(node)`
ensures
        // [C15.last_leaf_variant_exact C14.last_slice_count_needs_a_last_leaf_proof]
        r is Some <==> (proof@.len() <= 32 && spec_right_siblings_empty(index as nat, proof@, 0) && (index as nat) < pow2(proof@.len())),
        r matches Some(x) ==> x == spec_derive(hash, index as nat, proof@),
loop 0
        invariant
            verif_s@ == proof@, verif_k <= proof@.len(), proof@.len() <= 32,
            proof@.skip(proof@.len() as int) =~= Seq::<Hash>::empty(),
            spec_derive(hash, index as nat, proof@) == spec_derive(node, i as nat, proof@.skip(verif_k as int)),
            spec_right_siblings_empty(index as nat, proof@, 0) == spec_right_siblings_empty(i as nat, proof@.skip(verif_k as int), verif_k as nat),
            i as nat == (index as nat) / pow2(verif_k as nat),
            ((index as nat) / pow2(proof@.len()) == 0) <==> (index as nat) < pow2(proof@.len()),
        decreases proof@.len() - verif_k,
before `let verif_s = proof.as_slice();`
        proof { assert(proof@.skip(0) =~= proof@); assert((index as nat) / 1 == index as nat);
                lemma_pow2_pos(proof@.len()); lemma_div_zero_iff_lt(index as nat, pow2(proof@.len())); }
before `node = match i % 2 {`
        proof {
            assert(*h == proof@.skip(height as int)[0]);
            assert(proof@.skip(height as int).skip(1) =~= proof@.skip(height as int + 1));
            lemma_pow2_pos(height as nat);
            assert(((index as nat) / pow2(height as nat)) / 2 == (index as nat) / pow2((height + 1) as nat)) by (nonlinear_arith)
                requires pow2((height + 1) as nat) == 2 * pow2(height as nat), pow2(height as nat) > 0;
        }
@*/

/*@ extract src/crypto/merkle.rs :: impl MerkleTree<Leaf, Root, Proof>/fn check_hash_proof
props C15 C14 C12
ret r
rewrite*[R6] `proof.as_ref().len()` => `proof.as_slice().len()`
ensures
        // [C15.verifies_only_for_in_width_index]
        r == (proof@.len() <= 32 && (index as nat) < pow2(proof@.len()) && spec_derive(hash, index as nat, proof@) == *root),
before `proof.as_slice().len() <= EMPTY_ROOTS.len()`
        proof { if proof@.len() <= 32 { lemma_shr_zero_iff_lt_pow2(index, proof@.len() as usize); } }
@*/

/*@ extract src/crypto/merkle.rs :: impl MerkleTree<Leaf, Root, Proof>/fn check_hash_proof_last
props C15 C14
ret r
ensures
        // [C15.last_leaf_variant_exact C14.last_slice_count_needs_a_last_leaf_proof]
        r == (proof@.len() <= 32 && (index as nat) < pow2(proof@.len()) && spec_right_siblings_empty(index as nat, proof@, 0)
              && spec_derive(hash, index as nat, proof@) == *root),
closure 0
        params derived: Root
        ret b: bool
        ensures b == (derived == *root)
@*/

// Canary: the real check_hash_proof under a deliberately false contract (index bound dropped); MUST fail.
/*@ extract src/crypto/merkle.rs :: impl MerkleTree<Leaf, Root, Proof>/fn check_hash_proof
as canary_check_hash_proof
expect-fail
ret r
rewrite*[R6] `proof.as_ref().len()` => `proof.as_slice().len()`
ensures
        r == (spec_derive(hash, index as nat, proof@) == *root),
@*/
}

} // mod code

} // verus!

fn main() {}
