// ===================================================================== slot_state/spec.rs
// Types, specifications and PROVED lemmas of the per-slot pool state (shared by units slot_state and pool).


// =============================================================== C04 specification (from the statement)
//
// What one validator has had accepted in one slot.
pub struct VV {
    pub notar: Option<BlockHash>,
    pub nf: Set<BlockHash>,
    pub skip: bool,
    pub skip_fb: bool,
    pub fin: bool,
}

pub enum OffenceKind { NotarDifferentHash, SkipAndNotarize, SkipAndFinalize, NotarFallbackAndFinalize }

// The slashable pairs of the statement: "notarizing two blocks, skip together with notarize,
// finalize together with any skip, skip-fallback or notar-fallback".  Written once, symmetric.
pub open spec fn pair_offence_dir(a: VoteKind, b: VoteKind) -> Option<OffenceKind> {
    match (a, b) {
        (VoteKind::Notar(h1), VoteKind::Notar(h2)) => if h1 != h2 { Some(OffenceKind::NotarDifferentHash) } else { None },
        (VoteKind::Skip, VoteKind::Notar(_)) => Some(OffenceKind::SkipAndNotarize),
        (VoteKind::Final, VoteKind::Skip) => Some(OffenceKind::SkipAndFinalize),
        (VoteKind::Final, VoteKind::SkipFallback) => Some(OffenceKind::SkipAndFinalize),
        (VoteKind::Final, VoteKind::NotarFallback(_)) => Some(OffenceKind::NotarFallbackAndFinalize),
        _ => None,
    }
}
pub open spec fn pair_offence(a: VoteKind, b: VoteKind) -> Option<OffenceKind> {
    if pair_offence_dir(a, b) is Some { pair_offence_dir(a, b) } else { pair_offence_dir(b, a) }
}

// `a` is among the accepted votes recorded in `s`.
pub open spec fn vv_has(s: VV, a: VoteKind) -> bool {
    match a {
        VoteKind::Notar(h) => s.notar == Some(h),
        VoteKind::NotarFallback(h) => s.nf.contains(h),
        VoteKind::Skip => s.skip,
        VoteKind::SkipFallback => s.skip_fb,
        VoteKind::Final => s.fin,
    }
}

// Some accepted vote of `s` forms the slashable pair `o` with `k`.
pub open spec fn offence_possible(s: VV, k: VoteKind, o: OffenceKind) -> bool {
    exists|a: VoteKind| vv_has(s, a) && #[trigger] pair_offence(a, k) == Some(o)
}
pub open spec fn conflict_exists(s: VV, k: VoteKind) -> bool {
    exists|a: VoteKind| vv_has(s, a) && (#[trigger] pair_offence(a, k)) is Some
}

// "an exact or equivalent repeat": the same vote again; notar + notar-fallback for the same block;
// skip + skip-fallback.  (A second notar vote is a repeat if it names the same block, a conflict if not.)
pub open spec fn pair_repeat(a: VoteKind, b: VoteKind) -> bool {
    match (a, b) {
        (VoteKind::Notar(h1), VoteKind::Notar(h2)) => h1 == h2,
        (VoteKind::NotarFallback(h1), VoteKind::NotarFallback(h2)) => h1 == h2,
        (VoteKind::Notar(h1), VoteKind::NotarFallback(h2)) => h1 == h2,
        (VoteKind::NotarFallback(h1), VoteKind::Notar(h2)) => h1 == h2,
        (VoteKind::Skip, VoteKind::Skip) => true,
        (VoteKind::SkipFallback, VoteKind::SkipFallback) => true,
        (VoteKind::Skip, VoteKind::SkipFallback) => true,
        (VoteKind::SkipFallback, VoteKind::Skip) => true,
        (VoteKind::Final, VoteKind::Final) => true,
        _ => false,
    }
}
pub open spec fn repeat_exists(s: VV, k: VoteKind) -> bool {
    exists|a: VoteKind| vv_has(s, a) && #[trigger] pair_repeat(a, k)
}

// Quantifier-free expansions of the three predicates (proved equivalent below); these are what the
// solver matches the code against.
pub open spec fn x_offence_possible(s: VV, k: VoteKind, o: OffenceKind) -> bool {
    match k {
        VoteKind::Notar(h) => (o == OffenceKind::SkipAndNotarize && s.skip)
            || (o == OffenceKind::NotarDifferentHash && s.notar is Some && s.notar != Some(h)),
        VoteKind::NotarFallback(_) => o == OffenceKind::NotarFallbackAndFinalize && s.fin,
        VoteKind::Skip => (o == OffenceKind::SkipAndFinalize && s.fin) || (o == OffenceKind::SkipAndNotarize && s.notar is Some),
        VoteKind::SkipFallback => o == OffenceKind::SkipAndFinalize && s.fin,
        VoteKind::Final => (o == OffenceKind::SkipAndFinalize && (s.skip || s.skip_fb))
            || (o == OffenceKind::NotarFallbackAndFinalize && s.nf.len() > 0),
    }
}
pub open spec fn x_conflict_exists(s: VV, k: VoteKind) -> bool {
    match k {
        VoteKind::Notar(h) => s.skip || (s.notar is Some && s.notar != Some(h)),
        VoteKind::NotarFallback(_) => s.fin,
        VoteKind::Skip => s.fin || s.notar is Some,
        VoteKind::SkipFallback => s.fin,
        VoteKind::Final => s.skip || s.skip_fb || s.nf.len() > 0,
    }
}
pub open spec fn x_repeat_exists(s: VV, k: VoteKind) -> bool {
    match k {
        VoteKind::Notar(h) => s.notar == Some(h) || s.nf.contains(h),
        VoteKind::NotarFallback(h) => s.nf.contains(h) || s.notar == Some(h),
        VoteKind::Skip => s.skip || s.skip_fb,
        VoteKind::SkipFallback => s.skip_fb || s.skip,
        VoteKind::Final => s.fin,
    }
}

pub proof fn lemma_c04_expand(s: VV, k: VoteKind)
    requires s.nf.finite(),
    ensures
        conflict_exists(s, k) == x_conflict_exists(s, k),
        repeat_exists(s, k) == x_repeat_exists(s, k),
        forall|o: OffenceKind| offence_possible(s, k, o) == x_offence_possible(s, k, o),
{
    // (<==) witnesses
    if s.skip { assert(vv_has(s, VoteKind::Skip)); let _ = pair_offence(VoteKind::Skip, k); let _ = pair_repeat(VoteKind::Skip, k); }
    if s.skip_fb { assert(vv_has(s, VoteKind::SkipFallback)); let _ = pair_offence(VoteKind::SkipFallback, k); let _ = pair_repeat(VoteKind::SkipFallback, k); }
    if s.fin { assert(vv_has(s, VoteKind::Final)); let _ = pair_offence(VoteKind::Final, k); let _ = pair_repeat(VoteKind::Final, k); }
    if s.notar is Some {
        let a = VoteKind::Notar(s.notar->0);
        assert(vv_has(s, a)); let _ = pair_offence(a, k); let _ = pair_repeat(a, k);
    }
    if s.nf.len() > 0 {
        let h = s.nf.choose();
        let a = VoteKind::NotarFallback(h);
        assert(vv_has(s, a)); let _ = pair_offence(a, k);
    } else {
        assert(forall|h: BlockHash| !s.nf.contains(h)) by { if exists|h: BlockHash| s.nf.contains(h) { let h = choose|h: BlockHash| s.nf.contains(h); vstd::set_lib::lemma_set_empty_equivalency_len(s.nf); } }
    }
    match k {
        VoteKind::Notar(h) => { if s.nf.contains(h) { let a = VoteKind::NotarFallback(h); assert(vv_has(s, a)); let _ = pair_repeat(a, k); } }
        VoteKind::NotarFallback(h) => { if s.nf.contains(h) { let a = VoteKind::NotarFallback(h); assert(vv_has(s, a)); let _ = pair_repeat(a, k); } }
        _ => {}
    }
    // (==>) any witness is one of the above
    assert forall|o: OffenceKind| offence_possible(s, k, o) implies x_offence_possible(s, k, o) by {
        let a = choose|a: VoteKind| vv_has(s, a) && #[trigger] pair_offence(a, k) == Some(o);
        if let VoteKind::NotarFallback(h) = a { assert(s.nf.contains(h)); }
    }
    if conflict_exists(s, k) {
        let a = choose|a: VoteKind| vv_has(s, a) && (#[trigger] pair_offence(a, k)) is Some;
        if let VoteKind::NotarFallback(h) = a { assert(s.nf.contains(h)); }
    }
    if repeat_exists(s, k) {
        let a = choose|a: VoteKind| vv_has(s, a) && #[trigger] pair_repeat(a, k);
    }
}

// Order-freeness: the relations are symmetric, so whichever of two votes is accepted first the
// other one meets the same verdict.
pub proof fn lemma_c04_symmetric(a: VoteKind, b: VoteKind)
    ensures
        // [C04.order_free]
        pair_offence(a, b) == pair_offence(b, a),
        pair_repeat(a, b) == pair_repeat(b, a),
{
}

// The legitimate combinations of the statement are neither conflicts nor repeats.
pub proof fn lemma_c04_legitimate_pairs(h1: BlockHash, h2: BlockHash)
    requires h1 != h2,
    ensures
        // [C04.legitimate_never_refused]
        pair_offence(VoteKind::Notar(h1), VoteKind::NotarFallback(h2)) is None && !pair_repeat(VoteKind::Notar(h1), VoteKind::NotarFallback(h2)),
        pair_offence(VoteKind::Notar(h1), VoteKind::SkipFallback) is None && !pair_repeat(VoteKind::Notar(h1), VoteKind::SkipFallback),
        pair_offence(VoteKind::Skip, VoteKind::NotarFallback(h1)) is None && !pair_repeat(VoteKind::Skip, VoteKind::NotarFallback(h1)),
        pair_offence(VoteKind::Notar(h1), VoteKind::Final) is None && !pair_repeat(VoteKind::Notar(h1), VoteKind::Final),
        pair_offence(VoteKind::NotarFallback(h1), VoteKind::NotarFallback(h2)) is None && !pair_repeat(VoteKind::NotarFallback(h1), VoteKind::NotarFallback(h2)),
        pair_offence(VoteKind::NotarFallback(h1), VoteKind::SkipFallback) is None && !pair_repeat(VoteKind::NotarFallback(h1), VoteKind::SkipFallback),
{
}

impl SlashableOffence {
    pub open spec fn kind(&self) -> OffenceKind {
        match *self {
            SlashableOffence::NotarDifferentHash(_, _) => OffenceKind::NotarDifferentHash,
            SlashableOffence::SkipAndNotarize(_, _) => OffenceKind::SkipAndNotarize,
            SlashableOffence::SkipAndFinalize(_, _) => OffenceKind::SkipAndFinalize,
            SlashableOffence::NotarFallbackAndFinalize(_, _) => OffenceKind::NotarFallbackAndFinalize,
        }
    }
    pub open spec fn who(&self) -> (ValidatorIndex, Slot) {
        match *self {
            SlashableOffence::NotarDifferentHash(v, s) => (v, s),
            SlashableOffence::SkipAndNotarize(v, s) => (v, s),
            SlashableOffence::SkipAndFinalize(v, s) => (v, s),
            SlashableOffence::NotarFallbackAndFinalize(v, s) => (v, s),
        }
    }
}

// =============================================================== certificates (src/consensus/cert.rs)
/*@ extract src/consensus/cert.rs :: struct NotarCert
derive
@*/
/*@ extract src/consensus/cert.rs :: struct NotarFallbackCert
derive
@*/
/*@ extract src/consensus/cert.rs :: struct SkipCert
derive
@*/
/*@ extract src/consensus/cert.rs :: struct FastFinalCert
derive
@*/
/*@ extract src/consensus/cert.rs :: struct FinalCert
derive
@*/
/*@ extract src/consensus/cert.rs :: enum Cert
derive
@*/
/*@ extract src/consensus/pool.rs :: enum PoolEvent
derive
@*/

pub open spec fn opt_signers(a: Option<AggregateSignature>) -> ISet<int> {
    match a { Some(x) => x.signers(), None => ISet::<int>::empty() }
}

// Σ stake of a set of signers (what a receiver recomputes from the bitmask, C09)
pub open spec fn stake_of_set(stakes: Seq<int>, s: ISet<int>) -> int {
    sum_where(stakes, stakes.len() as int, |v: int| s.contains(v))
}

pub open spec fn signers_of<V>(votes: Seq<V>, f: spec_fn(V) -> int) -> ISet<int> {
    ISet::new(|v: int| exists|i: int| 0 <= i < votes.len() && #[trigger] f(votes[i]) == v)
}

pub open spec fn distinct_in_range<V>(votes: Seq<V>, f: spec_fn(V) -> int, n: int) -> bool {
    &&& forall|i: int| 0 <= i < votes.len() ==> 0 <= #[trigger] f(votes[i]) < n
    &&& forall|i: int, j: int| 0 <= i < j < votes.len() ==> f(votes[i]) != f(votes[j])
}

pub open spec fn nv_signer() -> spec_fn(NotarVote) -> int { |x: NotarVote| x.signer.0 as int }
pub open spec fn nfv_signer() -> spec_fn(NotarFallbackVote) -> int { |x: NotarFallbackVote| x.signer.0 as int }
pub open spec fn sv_signer() -> spec_fn(SkipVote) -> int { |x: SkipVote| x.signer.0 as int }
pub open spec fn sfv_signer() -> spec_fn(SkipFallbackVote) -> int { |x: SkipFallbackVote| x.signer.0 as int }
pub open spec fn fv_signer() -> spec_fn(FinalVote) -> int { |x: FinalVote| x.signer.0 as int }

// ASSUMED contracts of the certificate constructors (bodies: iterator chains + BLS aggregation, out of
// reach).  The `requires` are exactly the conditions under which the real `new` does not panic
// (non-empty, same slot / hash, signer indices in range and distinct: AggregateSignature::new asserts
// these); they become proof obligations at every call site in the real pool code.
impl NotarCert {
    #[verifier::external_body]
    pub fn new(votes: &[NotarVote], validators: &[ValidatorInfo]) -> (r: NotarCert)
        requires
            votes@.len() > 0,
            forall|i: int| 0 <= i < votes@.len() ==> (#[trigger] votes@[i]).slot == votes@[0].slot && votes@[i].block_hash == votes@[0].block_hash,
            distinct_in_range(votes@, nv_signer(), validators@.len() as int),
        ensures
            r.slot == votes@[0].slot,
            r.block_hash == votes@[0].block_hash,
            r.agg_sig.signers() == signers_of(votes@, nv_signer()),
    { unimplemented!() }
}
impl FastFinalCert {
    #[verifier::external_body]
    pub fn new(votes: &[NotarVote], validators: &[ValidatorInfo]) -> (r: FastFinalCert)
        requires
            votes@.len() > 0,
            forall|i: int| 0 <= i < votes@.len() ==> (#[trigger] votes@[i]).slot == votes@[0].slot && votes@[i].block_hash == votes@[0].block_hash,
            distinct_in_range(votes@, nv_signer(), validators@.len() as int),
        ensures
            r.slot == votes@[0].slot,
            r.block_hash == votes@[0].block_hash,
            r.agg_sig.signers() == signers_of(votes@, nv_signer()),
    { unimplemented!() }
}
impl FinalCert {
    #[verifier::external_body]
    pub fn new(votes: &[FinalVote], validators: &[ValidatorInfo]) -> (r: FinalCert)
        requires
            votes@.len() > 0,
            forall|i: int| 0 <= i < votes@.len() ==> (#[trigger] votes@[i]).slot == votes@[0].slot,
            distinct_in_range(votes@, fv_signer(), validators@.len() as int),
        ensures
            r.slot == votes@[0].slot,
            r.agg_sig.signers() == signers_of(votes@, fv_signer()),
    { unimplemented!() }
}
impl NotarFallbackCert {
    #[verifier::external_body]
    pub fn new(notar_votes: &[NotarVote], nf_votes: &[NotarFallbackVote], validators: &[ValidatorInfo]) -> (r: NotarFallbackCert)
        requires
            notar_votes@.len() + nf_votes@.len() > 0,
            forall|i: int, j: int| 0 <= i < notar_votes@.len() && 0 <= j < notar_votes@.len() ==>
                notar_votes@[i].slot == notar_votes@[j].slot && notar_votes@[i].block_hash == notar_votes@[j].block_hash,
            forall|i: int, j: int| 0 <= i < nf_votes@.len() && 0 <= j < nf_votes@.len() ==>
                nf_votes@[i].slot == nf_votes@[j].slot && nf_votes@[i].block_hash == nf_votes@[j].block_hash,
            forall|i: int, j: int| 0 <= i < notar_votes@.len() && 0 <= j < nf_votes@.len() ==>
                notar_votes@[i].slot == nf_votes@[j].slot && notar_votes@[i].block_hash == nf_votes@[j].block_hash,
            distinct_in_range(notar_votes@, nv_signer(), validators@.len() as int),
            distinct_in_range(nf_votes@, nfv_signer(), validators@.len() as int),
        ensures
            notar_votes@.len() > 0 ==> r.slot == notar_votes@[0].slot && r.block_hash == notar_votes@[0].block_hash,
            nf_votes@.len() > 0 ==> r.slot == nf_votes@[0].slot && r.block_hash == nf_votes@[0].block_hash,
            opt_signers(r.agg_sig_notar) == signers_of(notar_votes@, nv_signer()),
            opt_signers(r.agg_sig_notar_fallback) == signers_of(nf_votes@, nfv_signer()),
    { unimplemented!() }
}
impl SkipCert {
    #[verifier::external_body]
    pub fn new(skip_votes: &[SkipVote], sf_votes: &[SkipFallbackVote], validators: &[ValidatorInfo]) -> (r: SkipCert)
        requires
            skip_votes@.len() + sf_votes@.len() > 0,
            forall|i: int, j: int| 0 <= i < skip_votes@.len() && 0 <= j < skip_votes@.len() ==> skip_votes@[i].slot == skip_votes@[j].slot,
            forall|i: int, j: int| 0 <= i < sf_votes@.len() && 0 <= j < sf_votes@.len() ==> sf_votes@[i].slot == sf_votes@[j].slot,
            forall|i: int, j: int| 0 <= i < skip_votes@.len() && 0 <= j < sf_votes@.len() ==> skip_votes@[i].slot == sf_votes@[j].slot,
            distinct_in_range(skip_votes@, sv_signer(), validators@.len() as int),
            distinct_in_range(sf_votes@, sfv_signer(), validators@.len() as int),
        ensures
            skip_votes@.len() > 0 ==> r.slot == skip_votes@[0].slot,
            sf_votes@.len() > 0 ==> r.slot == sf_votes@[0].slot,
            opt_signers(r.agg_sig_skip) == signers_of(skip_votes@, sv_signer()),
            opt_signers(r.agg_sig_skip_fallback) == signers_of(sf_votes@, sfv_signer()),
    { unimplemented!() }
}
impl NotarCert {
/*@ extract src/consensus/cert.rs :: impl NotarCert/fn block_hash
ret r
ensures
        *r == self.block_hash,
@*/
}
impl NotarFallbackCert {
/*@ extract src/consensus/cert.rs :: impl NotarFallbackCert/fn block_hash
ret r
ensures
        *r == self.block_hash,
@*/
}
impl FastFinalCert {
/*@ extract src/consensus/cert.rs :: impl FastFinalCert/fn block_hash
ret r
ensures
        *r == self.block_hash,
@*/
}

// =============================================================== state (src/consensus/pool/slot_state.rs)
/*@ extract src/consensus/pool/slot_state.rs :: struct SlotState
@*/
/*@ extract src/consensus/pool/slot_state.rs :: struct SlotVotes
@*/
/*@ extract src/consensus/pool/slot_state.rs :: struct SlotVotedStake
@*/
/*@ extract src/consensus/pool/slot_state.rs :: struct SlotCertificates
@*/
/*@ extract src/consensus/pool/slot_state.rs :: enum ParentStatus
derive Clone, Copy
traits Eq
@*/
/*@ extract src/consensus/pool/slot_state.rs :: enum SafeToNotarStatus
derive Clone, Copy
@*/
/*@ extract src/consensus/pool/slot_state.rs :: enum IgnoreReason
derive Clone, Copy
@*/
/*@ extract src/consensus/pool/slot_state.rs :: type SlotStateOutputs
@*/

// A vote that is already stored in `votes` but whose stake has not been added to the counters yet
// (the window between "store" and "count" inside add_vote).
pub enum Pending {
    Nothing,
    Notar(int),                     // notar[v] stored; notar(h), notar_or_skip, top_notar not yet updated
    NotarFallback(int, BlockHash),  // notar_fallback[v][h] stored; nf(h) not yet updated
    Skip(int),                      // skip[v] stored, notar_or_skip updated; skip not yet updated
    SkipFallback(int),
    Final(int),
}

impl SlotVotes {
    pub open spec fn shape(&self, n: int) -> bool {
        &&& self.notar@.len() == n
        &&& self.notar_fallback@.len() == n
        &&& self.skip@.len() == n
        &&& self.skip_fallback@.len() == n
        &&& self.finalize@.len() == n
    }
    // accepted votes of validator `v` in this slot
    pub open spec fn vv(&self, v: int) -> VV {
        VV {
            notar: match self.notar@[v] { Some(n) => Some(n.block_hash), None => None },
            nf: self.notar_fallback@[v]@.dom(),
            skip: self.skip@[v] is Some,
            skip_fb: self.skip_fallback@[v] is Some,
            fin: self.finalize@[v] is Some,
        }
    }
    pub open spec fn p_notar(&self, h: BlockHash) -> spec_fn(int) -> bool {
        |v: int| self.notar@[v] matches Some(x) && x.block_hash == h
    }
    pub open spec fn p_nf(&self, h: BlockHash) -> spec_fn(int) -> bool {
        |v: int| self.notar_fallback@[v]@.contains_key(h)
    }
    pub open spec fn p_skip(&self) -> spec_fn(int) -> bool { |v: int| self.skip@[v] is Some }
    pub open spec fn p_skip_fb(&self) -> spec_fn(int) -> bool { |v: int| self.skip_fallback@[v] is Some }
    pub open spec fn p_final(&self) -> spec_fn(int) -> bool { |v: int| self.finalize@[v] is Some }
    pub open spec fn c_notar(&self, h: BlockHash, pend: Pending) -> spec_fn(int) -> bool {
        |v: int| self.p_notar(h)(v) && pend != Pending::Notar(v)
    }
    pub open spec fn c_nf(&self, h: BlockHash, pend: Pending) -> spec_fn(int) -> bool {
        |v: int| self.p_nf(h)(v) && pend != Pending::NotarFallback(v, h)
    }
    pub open spec fn c_skip(&self, pend: Pending) -> spec_fn(int) -> bool {
        |v: int| self.p_skip()(v) && pend != Pending::Skip(v)
    }
    pub open spec fn c_skip_fb(&self, pend: Pending) -> spec_fn(int) -> bool {
        |v: int| self.p_skip_fb()(v) && pend != Pending::SkipFallback(v)
    }
    pub open spec fn c_final(&self, pend: Pending) -> spec_fn(int) -> bool {
        |v: int| self.p_final()(v) && pend != Pending::Final(v)
    }
    pub open spec fn c_nos(&self, pend: Pending) -> spec_fn(int) -> bool {
        |v: int| (self.notar@[v] is Some && pend != Pending::Notar(v)) || self.skip@[v] is Some
    }

    // Contracts of the five iterator-chain helpers: "the stored matching votes in index order".  They are PROVED on the
    // real bodies (filter_map chain rewritten to its definition, R4) as the `<name>_body` functions of unit slot_state,
    // with textually identical postconditions; here they are used as stubs.
    #[verifier::external_body] /* proved-elsewhere */
    pub fn notar_votes(&self, block_hash: &BlockHash) -> (r: Vec<NotarVote>)
        ensures
            r@.len() == idx_where(self.notar@.len() as int, self.p_notar(*block_hash)).len(),
            forall|i: int| 0 <= i < r@.len() ==> Some(#[trigger] r@[i]) == self.notar@[idx_where(self.notar@.len() as int, self.p_notar(*block_hash))[i]],
    { unimplemented!() }

    #[verifier::external_body] /* proved-elsewhere */
    pub fn notar_fallback_votes(&self, block_hash: &BlockHash) -> (r: Vec<NotarFallbackVote>)
        ensures
            r@.len() == idx_where(self.notar_fallback@.len() as int, self.p_nf(*block_hash)).len(),
            forall|i: int| 0 <= i < r@.len() ==> #[trigger] r@[i] == self.notar_fallback@[idx_where(self.notar_fallback@.len() as int, self.p_nf(*block_hash))[i]]@[*block_hash],
    { unimplemented!() }

    #[verifier::external_body] /* proved-elsewhere */
    pub fn skip_votes(&self) -> (r: Vec<SkipVote>)
        ensures
            r@.len() == idx_where(self.skip@.len() as int, self.p_skip()).len(),
            forall|i: int| 0 <= i < r@.len() ==> Some(#[trigger] r@[i]) == self.skip@[idx_where(self.skip@.len() as int, self.p_skip())[i]],
    { unimplemented!() }

    #[verifier::external_body] /* proved-elsewhere */
    pub fn skip_fallback_votes(&self) -> (r: Vec<SkipFallbackVote>)
        ensures
            r@.len() == idx_where(self.skip_fallback@.len() as int, self.p_skip_fb()).len(),
            forall|i: int| 0 <= i < r@.len() ==> Some(#[trigger] r@[i]) == self.skip_fallback@[idx_where(self.skip_fallback@.len() as int, self.p_skip_fb())[i]],
    { unimplemented!() }

    #[verifier::external_body] /* proved-elsewhere */
    pub fn final_votes(&self) -> (r: Vec<FinalVote>)
        ensures
            r@.len() == idx_where(self.finalize@.len() as int, self.p_final()).len(),
            forall|i: int| 0 <= i < r@.len() ==> Some(#[trigger] r@[i]) == self.finalize@[idx_where(self.finalize@.len() as int, self.p_final())[i]],
    { unimplemented!() }
}

pub open spec fn spec_stakes(vals: Seq<ValidatorInfo>) -> Seq<int> {
    Seq::new(vals.len(), |i: int| vals[i].stake.0 as int)
}

pub open spec fn set_of(n: int, p: spec_fn(int) -> bool) -> ISet<int> {
    ISet::new(|v: int| 0 <= v < n && p(v))
}

impl SlotState {
    pub open spec fn nv(&self) -> int { self.epoch_info.epoch.validators@.len() as int }
    pub open spec fn stakes(&self) -> Seq<int> { spec_stakes(self.epoch_info.epoch.validators@) }
    pub open spec fn total(&self) -> int { self.epoch_info.epoch.total_stake.0 as int }
    pub open spec fn own(&self) -> int { self.epoch_info.own_id.0 as int }

    // counted-stake predicates (a pending vote is stored but not yet counted); they capture only `votes`
    pub open spec fn c_notar(&self, h: BlockHash, pend: Pending) -> spec_fn(int) -> bool { self.votes.c_notar(h, pend) }
    pub open spec fn c_nf(&self, h: BlockHash, pend: Pending) -> spec_fn(int) -> bool { self.votes.c_nf(h, pend) }
    pub open spec fn c_skip(&self, pend: Pending) -> spec_fn(int) -> bool { self.votes.c_skip(pend) }
    pub open spec fn c_skip_fb(&self, pend: Pending) -> spec_fn(int) -> bool { self.votes.c_skip_fb(pend) }
    pub open spec fn c_final(&self, pend: Pending) -> spec_fn(int) -> bool { self.votes.c_final(pend) }
    pub open spec fn c_nos(&self, pend: Pending) -> spec_fn(int) -> bool { self.votes.c_nos(pend) }
    pub open spec fn sum(&self, p: spec_fn(int) -> bool) -> int { sum_where(self.stakes(), self.nv(), p) }

    pub open spec fn map_stake(m: Map<BlockHash, Stake>, h: BlockHash) -> int {
        if m.contains_key(h) { m[h].0 as int } else { 0 }
    }

    pub open spec fn wf_epoch(&self) -> bool {
        &&& self.nv() > 0
        &&& self.total() > 0
        &&& forall|i: int| 0 <= i < self.nv() ==> (#[trigger] self.epoch_info.epoch.validators@[i]).id.0 == i
        &&& self.total() == sum_where(self.stakes(), self.nv(), all_true())
        &&& 0 <= self.own() < self.nv()
    }

    // every stored vote sits at its signer's index and is for this slot; the classes that the
    // admission filter keeps apart are disjoint
    pub open spec fn wf_votes(&self) -> bool {
        &&& self.votes.shape(self.nv())
        &&& forall|v: int| 0 <= v < self.nv() ==> ((#[trigger] self.votes.notar@[v]) matches Some(x) ==> x.signer.0 == v && x.slot == self.slot)
        &&& forall|v: int, h: BlockHash| 0 <= v < self.nv() && #[trigger] self.votes.notar_fallback@[v]@.contains_key(h) ==> {
                let x = self.votes.notar_fallback@[v]@[h];
                x.signer.0 == v && x.slot == self.slot && x.block_hash == h }
        &&& forall|v: int| 0 <= v < self.nv() ==> (#[trigger] self.votes.notar_fallback@[v])@.dom().finite()
        &&& forall|v: int| 0 <= v < self.nv() ==> ((#[trigger] self.votes.skip@[v]) matches Some(x) ==> x.signer.0 == v && x.slot == self.slot)
        &&& forall|v: int| 0 <= v < self.nv() ==> ((#[trigger] self.votes.skip_fallback@[v]) matches Some(x) ==> x.signer.0 == v && x.slot == self.slot)
        &&& forall|v: int| 0 <= v < self.nv() ==> ((#[trigger] self.votes.finalize@[v]) matches Some(x) ==> x.signer.0 == v && x.slot == self.slot)
        // disjointness (what should_ignore_vote / check_slashable_offence enforce)
        &&& forall|v: int| 0 <= v < self.nv() ==> !((#[trigger] self.votes.notar@[v]) is Some && self.votes.skip@[v] is Some)
        &&& forall|v: int| 0 <= v < self.nv() ==> !((#[trigger] self.votes.skip@[v]) is Some && self.votes.skip_fallback@[v] is Some)
        &&& forall|v: int| 0 <= v < self.nv() ==> ((#[trigger] self.votes.notar@[v]) matches Some(x) ==> !self.votes.notar_fallback@[v]@.contains_key(x.block_hash))
    }

    // the running counters equal the stake sums of the stored (and already counted) votes
    pub open spec fn wf_stakes(&self, pend: Pending) -> bool {
        &&& forall|h: BlockHash| Self::map_stake(self.voted_stakes.notar@, h) == self.sum(self.c_notar(h, pend))
        &&& forall|h: BlockHash| Self::map_stake(self.voted_stakes.notar_fallback@, h) == self.sum(self.c_nf(h, pend))
        &&& self.voted_stakes.skip.0 == self.sum(self.c_skip(pend))
        &&& self.voted_stakes.skip_fallback.0 == self.sum(self.c_skip_fb(pend))
        &&& self.voted_stakes.finalize.0 == self.sum(self.c_final(pend))
        &&& self.voted_stakes.notar_or_skip.0 == self.sum(self.c_nos(pend))
        &&& forall|h: BlockHash| self.sum(self.c_notar(h, pend)) <= self.voted_stakes.top_notar.0
        &&& (self.voted_stakes.top_notar.0 == 0 || exists|h: BlockHash| self.sum(self.c_notar(h, pend)) == self.voted_stakes.top_notar.0)
    }

    pub open spec fn wf_pend(&self, pend: Pending) -> bool {
        &&& self.wf_epoch()
        &&& self.wf_votes()
        &&& self.wf_stakes(pend)
    }
    pub open spec fn wf(&self) -> bool { self.wf_pend(Pending::Nothing) }
    pub open spec fn has_nf_cert(&self, h: BlockHash) -> bool {
        exists|i: int| 0 <= i < self.certificates.notar_fallback@.len() && #[trigger] self.certificates.notar_fallback@[i].block_hash == h
    }
}
// =============================================================== C06 specification (from the statement)
impl SlotState {
    // counter-level threshold part: ">= 40%, or >= 20% with skip + notarize(b) >= 60%"
    pub open spec fn cond_votes(&self, b: BlockHash) -> bool {
        let n = Self::map_stake(self.voted_stakes.notar@, b);
        at_least_pct(n, self.total(), 20)
            && (at_least_pct(n, self.total(), 40) || at_least_pct(n + self.voted_stakes.skip.0, self.total(), 60))
    }
    // "b's block and parent are known with the parent certified"
    pub open spec fn cond_parent(&self, b: BlockHash) -> bool {
        self.parents@.contains_key(b) && self.parents@[b] == ParentStatus::Certified
    }
    // "it already voted in s but not to notarize b"
    pub open spec fn cond_own(&self, b: BlockHash) -> bool {
        self.votes.skip@[self.own()] is Some
            || (self.votes.notar@[self.own()] matches Some(x) && x.block_hash != b)
    }
    pub open spec fn spec_s2n(&self, b: BlockHash) -> bool {
        self.cond_votes(b) && self.cond_parent(b) && self.cond_own(b)
    }
    // ---- completeness ("raised as soon as all of its conditions hold, whichever of them arrives last"): an invariant across calls
    pub open spec fn weakest(&self, b: BlockHash) -> bool { at_least_pct(Self::map_stake(self.voted_stakes.notar@, b), self.total(), 20) }
    pub open spec fn own_none(&self) -> bool { self.votes.skip@[self.own()] is None && self.votes.notar@[self.own()] is None }
    // for one block b; `e`: the node's own vote has just been stored and the waiting list has not been re-examined yet
    pub open spec fn inv_b(&self, b: BlockHash, e: bool) -> bool {
        // the signal has been raised for every block whose conditions hold (or, during `e`, the block is on the waiting list)
        &&& (self.spec_s2n(b) ==> self.sent_safe_to_notar@.contains(b) || (e && self.pending_safe_to_notar@.contains(b)))
        // a block that only lacks votes is on the waiting list (re-examined with every skip vote) ...
        &&& (self.weakest(b) && !self.cond_votes(b) ==> self.pending_safe_to_notar@.contains(b))
        // ... and so is a block that only lacks the node's own vote (re-examined when the own vote arrives)
        &&& (self.cond_votes(b) && self.cond_parent(b) && self.own_none() ==> self.pending_safe_to_notar@.contains(b))
        // a raised signal stays justified
        &&& (self.sent_safe_to_notar@.contains(b) ==> self.cond_votes(b) && self.cond_parent(b) && !self.own_none())
    }
    pub open spec fn s2n_inv(&self, e: bool) -> bool { forall|b: BlockHash| #[trigger] self.inv_b(b, e) }
    // THEOREM (C06, "raised as soon as all of its conditions hold, whichever of them - a vote, the node's own vote, the block, or the
    // parent's certificate - arrives last"): the invariant holds for an empty slot state (lemma below) and is kept by every
    // operation of SlotState that can change a condition - add_vote (any vote, the node's own included), notify_parent_known,
    // notify_parent_certified (contracts on the real bodies, obligation C06.completeness_invariant_is_kept; add_cert touches none
    // of the fields it reads).  Hence after every operation: a block whose conditions hold has had its signal.
    pub proof fn theorem_safe_to_notar_is_raised_as_soon_as_its_conditions_hold(s: &SlotState, b: BlockHash)
        requires s.s2n_inv(false), s.spec_s2n(b),
        ensures s.sent_safe_to_notar@.contains(b),
    {
        assert(s.inv_b(b, false));
    }
    // a slot state with no stored vote and all counters at zero is well formed (SlotState::new)
    pub proof fn lemma_wf_of_an_empty_state(s: &SlotState)
        requires
            s.wf_epoch(), s.votes.shape(s.nv()),
            forall|v: int| 0 <= v < s.nv() ==> (#[trigger] s.votes.vv(v)) == (VV { notar: None, nf: Set::<BlockHash>::empty(), skip: false, skip_fb: false, fin: false }),
            s.voted_stakes.notar@ == Map::<BlockHash, Stake>::empty(), s.voted_stakes.notar_fallback@ == Map::<BlockHash, Stake>::empty(),
            s.voted_stakes.skip.0 == 0, s.voted_stakes.skip_fallback.0 == 0, s.voted_stakes.finalize.0 == 0,
            s.voted_stakes.notar_or_skip.0 == 0, s.voted_stakes.top_notar.0 == 0,
        ensures s.wf(),
    {
        let n = s.nv();
        let st = s.stakes();
        let e = VV { notar: None, nf: Set::<BlockHash>::empty(), skip: false, skip_fb: false, fin: false };
        assert forall|v: int| 0 <= v < n implies (#[trigger] s.votes.notar@[v]) is None by { assert(s.votes.vv(v) == e); }
        assert forall|v: int| 0 <= v < n implies (#[trigger] s.votes.skip@[v]) is None by { assert(s.votes.vv(v) == e); }
        assert forall|v: int| 0 <= v < n implies (#[trigger] s.votes.skip_fallback@[v]) is None by { assert(s.votes.vv(v) == e); }
        assert forall|v: int| 0 <= v < n implies (#[trigger] s.votes.finalize@[v]) is None by { assert(s.votes.vv(v) == e); }
        assert forall|v: int| 0 <= v < n implies (#[trigger] s.votes.notar_fallback@[v])@.dom() == Set::<BlockHash>::empty() by { assert(s.votes.vv(v) == e); }
        assert forall|v: int, h: BlockHash| 0 <= v < n implies !(#[trigger] s.votes.notar_fallback@[v]@.contains_key(h)) by {
            assert(s.votes.notar_fallback@[v]@.dom() == Set::<BlockHash>::empty());
            assert(!s.votes.notar_fallback@[v]@.dom().contains(h));
        }
        assert forall|v: int| 0 <= v < n implies (#[trigger] s.votes.notar_fallback@[v])@.dom().finite() by {
            assert(s.votes.notar_fallback@[v]@.dom() == Set::<BlockHash>::empty());
        }
        assert(s.wf_votes());
        assert forall|h: BlockHash| Self::map_stake(s.voted_stakes.notar@, h) == s.sum(s.c_notar(h, Pending::Nothing)) by {
            assert forall|v: int| 0 <= v < n implies !#[trigger] s.c_notar(h, Pending::Nothing)(v) by { assert(s.votes.notar@[v] is None); }
            lemma_sum_none(st, n, s.c_notar(h, Pending::Nothing));
        }
        assert forall|h: BlockHash| Self::map_stake(s.voted_stakes.notar_fallback@, h) == s.sum(s.c_nf(h, Pending::Nothing)) by {
            assert forall|v: int| 0 <= v < n implies !#[trigger] s.c_nf(h, Pending::Nothing)(v) by { assert(!s.votes.notar_fallback@[v]@.contains_key(h)); }
            lemma_sum_none(st, n, s.c_nf(h, Pending::Nothing));
        }
        assert forall|v: int| 0 <= v < n implies !#[trigger] s.c_skip(Pending::Nothing)(v) by { assert(s.votes.skip@[v] is None); }
        lemma_sum_none(st, n, s.c_skip(Pending::Nothing));
        assert forall|v: int| 0 <= v < n implies !#[trigger] s.c_skip_fb(Pending::Nothing)(v) by { assert(s.votes.skip_fallback@[v] is None); }
        lemma_sum_none(st, n, s.c_skip_fb(Pending::Nothing));
        assert forall|v: int| 0 <= v < n implies !#[trigger] s.c_final(Pending::Nothing)(v) by { assert(s.votes.finalize@[v] is None); }
        lemma_sum_none(st, n, s.c_final(Pending::Nothing));
        assert forall|v: int| 0 <= v < n implies !#[trigger] s.c_nos(Pending::Nothing)(v) by { assert(s.votes.notar@[v] is None); assert(s.votes.skip@[v] is None); }
        lemma_sum_none(st, n, s.c_nos(Pending::Nothing));
        assert forall|h: BlockHash| s.sum(s.c_notar(h, Pending::Nothing)) <= s.voted_stakes.top_notar.0 by {
            assert forall|v: int| 0 <= v < n implies !#[trigger] s.c_notar(h, Pending::Nothing)(v) by { assert(s.votes.notar@[v] is None); }
            lemma_sum_none(st, n, s.c_notar(h, Pending::Nothing));
        }
        assert(s.wf_stakes(Pending::Nothing));
    }
    // a slot state in which nothing has been counted and nothing signalled satisfies the completeness invariant (SlotState::new)
    pub proof fn lemma_inv_of_an_empty_state(s: &SlotState)
        requires
            s.total() > 0, s.voted_stakes.notar@ == Map::<BlockHash, Stake>::empty(),
            s.sent_safe_to_notar@ == Set::<BlockHash>::empty(),
        ensures s.s2n_inv(false),
    {
        assert forall|b: BlockHash| #[trigger] s.inv_b(b, false) by {
            assert(Self::map_stake(s.voted_stakes.notar@, b) == 0);
            assert(!s.weakest(b) && !s.cond_votes(b));
        }
    }
    // counting a notarize vote for block h: only h's own conditions move, and only towards holding
    pub proof fn lemma_inv_after_notar_count(pre: &SlotState, mid: &SlotState, h: BlockHash, stake: int)
        requires
            stake >= 0,
            Self::map_stake(mid.voted_stakes.notar@, h) == Self::map_stake(pre.voted_stakes.notar@, h) + stake,
            forall|g: BlockHash| g != h ==> Self::map_stake(mid.voted_stakes.notar@, g) == Self::map_stake(pre.voted_stakes.notar@, g),
            mid.voted_stakes.skip == pre.voted_stakes.skip, mid.votes == pre.votes, mid.parents == pre.parents, mid.epoch_info == pre.epoch_info,
            mid.sent_safe_to_notar == pre.sent_safe_to_notar, mid.pending_safe_to_notar == pre.pending_safe_to_notar,
        ensures
            forall|g: BlockHash, e: bool| g != h ==> #[trigger] mid.inv_b(g, e) == pre.inv_b(g, e),
            pre.cond_votes(h) ==> mid.cond_votes(h),
            mid.cond_parent(h) == pre.cond_parent(h), mid.own_none() == pre.own_none(),
    {
        assert forall|g: BlockHash, e: bool| g != h implies #[trigger] mid.inv_b(g, e) == pre.inv_b(g, e) by {
            assert(mid.cond_votes(g) == pre.cond_votes(g));
            assert(mid.weakest(g) == pre.weakest(g));
        }
        let n0 = Self::map_stake(pre.voted_stakes.notar@, h);
        let n1 = Self::map_stake(mid.voted_stakes.notar@, h);
        let sk = pre.voted_stakes.skip.0 as int;
        let t = pre.total();
        assert(n1 * 100 >= n0 * 100 && (n1 + sk) * 100 >= (n0 + sk) * 100) by (nonlinear_arith) requires n1 == n0 + stake, stake >= 0 {}
    }
    // the invariant after the block just counted for has been examined (or had its signal before)
    pub proof fn lemma_inv_after_examining(pre: &SlotState, mid: &SlotState, aft: &SlotState, h: BlockHash, e: bool)
        requires
            pre.s2n_inv(e),
            forall|g: BlockHash, x: bool| g != h ==> #[trigger] mid.inv_b(g, x) == pre.inv_b(g, x),
            pre.cond_votes(h) ==> mid.cond_votes(h), mid.cond_parent(h) == pre.cond_parent(h), mid.own_none() == pre.own_none(),
            mid.sent_safe_to_notar == pre.sent_safe_to_notar,
            // either the block had its signal (nothing was done) or it has been examined
            (mid.sent_safe_to_notar@.contains(h) && aft == mid)
                || (!mid.sent_safe_to_notar@.contains(h) && aft.inv_b(h, false)
                    && forall|g: BlockHash, x: bool| g != h ==> #[trigger] aft.inv_b(g, x) == mid.inv_b(g, x)),
        ensures aft.s2n_inv(e),
    {
        assert forall|g: BlockHash| #[trigger] aft.inv_b(g, e) by {
            assert(pre.inv_b(g, e));
            if g != h { assert(mid.inv_b(g, e)); }
            else { assert(pre.inv_b(h, e)); }
        }
    }
    // storing an admissible vote (it is counted afterwards) keeps the completeness invariant - in its `e` form if the vote is the
    // node's own: its first skip / notarize vote makes blocks eligible that were waiting for exactly that
    pub proof fn lemma_inv_after_store(pre: &SlotState, st: &SlotState, vote: Vote)
        requires
            pre.s2n_inv(false), pre.admissible(vote), pre.wf_votes(), 0 <= pre.own() < pre.nv(),
            st.voted_stakes.notar == pre.voted_stakes.notar, st.voted_stakes.skip == pre.voted_stakes.skip,
            st.parents == pre.parents, st.sent_safe_to_notar == pre.sent_safe_to_notar,
            st.pending_safe_to_notar == pre.pending_safe_to_notar, st.epoch_info == pre.epoch_info,
            st.votes.vv(vote.spec_signer().0 as int) == vv_add(pre.votes.vv(vote.spec_signer().0 as int), vote.spec_kind()),
            forall|u: int| 0 <= u < pre.nv() && u != vote.spec_signer().0 ==> #[trigger] st.votes.vv(u) == pre.votes.vv(u),
        ensures
            st.s2n_inv(vote.spec_signer() == pre.epoch_info.own_id),
    {
        let own = pre.own();
        let e = vote.spec_signer() == pre.epoch_info.own_id;
        let a = pre.votes.vv(own);
        let c = st.votes.vv(own);
        lemma_c04_expand(pre.votes.vv(vote.spec_signer().0 as int), vote.spec_kind());
        // the node's own initial vote as the state sees it: a skip flag and the notarized block
        assert forall|b: BlockHash| #![auto] pre.cond_own(b) == (a.skip || (a.notar is Some && a.notar != Some(b))) by {}
        assert forall|b: BlockHash| #![auto] st.cond_own(b) == (c.skip || (c.notar is Some && c.notar != Some(b))) by {}
        assert(pre.own_none() == (!a.skip && a.notar is None));
        assert(st.own_none() == (!c.skip && c.notar is None));
        assert forall|b: BlockHash| #[trigger] st.inv_b(b, e) by {
            assert(pre.inv_b(b, false));
            assert(st.cond_votes(b) == pre.cond_votes(b) && st.cond_parent(b) == pre.cond_parent(b) && st.weakest(b) == pre.weakest(b));
            if vote.spec_signer().0 as int != own {
                assert(c == a);
            } else if c.skip == a.skip && c.notar == a.notar {
            } else {
                // the own vote entered the skip / notar entry: it was the first one
                assert(pre.own_none());
            }
        }
    }
    // "it notarized some block in s and skip stake plus notarize stake for all but the most-voted block >= 40%"
    pub open spec fn spec_s2s(&self) -> bool {
        self.votes.notar@[self.own()] is Some
            && at_least_pct(self.voted_stakes.notar_or_skip.0 - self.voted_stakes.top_notar.0, self.total(), 40)
    }

    // numeric facts every counting function needs (all follow from wf, see lemma_bounds)
    pub open spec fn bounds_ok(&self) -> bool {
        &&& self.total() <= u64::MAX
        &&& forall|h: BlockHash| Self::map_stake(self.voted_stakes.notar@, h) + self.voted_stakes.skip.0 <= self.total()
        &&& forall|h: BlockHash| Self::map_stake(self.voted_stakes.notar@, h) + Self::map_stake(self.voted_stakes.notar_fallback@, h) <= self.total()
        &&& self.voted_stakes.skip.0 + self.voted_stakes.skip_fallback.0 <= self.total()
        &&& self.voted_stakes.top_notar.0 <= self.voted_stakes.notar_or_skip.0 <= self.total()
        &&& self.voted_stakes.finalize.0 <= self.total()
    }

    pub proof fn lemma_stakes_nonneg(&self)
        ensures forall|i: int| 0 <= i < self.stakes().len() ==> self.stakes()[i] >= 0, self.nv() <= self.stakes().len(),
    {
    }

    pub proof fn lemma_bounds(&self, pend: Pending)
        requires self.wf_pend(pend),
        ensures self.bounds_ok(),
    {
        self.lemma_stakes_nonneg();
        let st = self.stakes();
        let n = self.nv();
        assert forall|h: BlockHash| Self::map_stake(self.voted_stakes.notar@, h) + self.voted_stakes.skip.0 <= self.total() by {
            let pq = |v: int| self.c_notar(h, pend)(v) || self.c_skip(pend)(v);
            lemma_sum_disjoint(st, n, self.c_notar(h, pend), self.c_skip(pend), pq);
            lemma_sum_mono(st, n, pq, all_true());
        }
        assert forall|h: BlockHash| Self::map_stake(self.voted_stakes.notar@, h) + Self::map_stake(self.voted_stakes.notar_fallback@, h) <= self.total() by {
            let pq = |v: int| self.c_notar(h, pend)(v) || self.c_nf(h, pend)(v);
            lemma_sum_disjoint(st, n, self.c_notar(h, pend), self.c_nf(h, pend), pq);
            lemma_sum_mono(st, n, pq, all_true());
        }
        {
            let pq = |v: int| self.c_skip(pend)(v) || self.c_skip_fb(pend)(v);
            lemma_sum_disjoint(st, n, self.c_skip(pend), self.c_skip_fb(pend), pq);
            lemma_sum_mono(st, n, pq, all_true());
        }
        lemma_sum_mono(st, n, self.c_nos(pend), all_true());
        lemma_sum_mono(st, n, self.c_final(pend), all_true());
        lemma_sum_nonneg(st, n, self.c_nos(pend));
        if self.voted_stakes.top_notar.0 != 0 {
            let h = choose|h: BlockHash| self.sum(self.c_notar(h, pend)) == self.voted_stakes.top_notar.0;
            lemma_sum_mono(st, n, self.c_notar(h, pend), self.c_nos(pend));
        }
    }
}

// =============================================================== counting lemmas (PROVED)
impl SlotState {
    // same votes & epoch: every sum is unchanged
    pub open spec fn same_votes(&self, other: &SlotState) -> bool {
        self.votes == other.votes && self.epoch_info == other.epoch_info && self.slot == other.slot
    }

    // The state after the pending vote's stake has been added to exactly the counters of its class.
    pub open spec fn counted(pre: &SlotState, post: &SlotState, pend: Pending) -> bool {
        let st = pre.stakes();
        match pend {
            Pending::Nothing => false,
            Pending::Final(v) => 0 <= v < pre.nv() && pre.votes.finalize@[v] is Some
                && post.voted_stakes.finalize.0 == pre.voted_stakes.finalize.0 + st[v]
                && post.voted_stakes.notar@ == pre.voted_stakes.notar@ && post.voted_stakes.notar_fallback@ == pre.voted_stakes.notar_fallback@
                && post.voted_stakes.skip == pre.voted_stakes.skip && post.voted_stakes.skip_fallback == pre.voted_stakes.skip_fallback
                && post.voted_stakes.notar_or_skip == pre.voted_stakes.notar_or_skip && post.voted_stakes.top_notar == pre.voted_stakes.top_notar,
            Pending::Skip(v) => 0 <= v < pre.nv() && pre.votes.skip@[v] is Some
                && post.voted_stakes.skip.0 == pre.voted_stakes.skip.0 + st[v]
                && post.voted_stakes.notar@ == pre.voted_stakes.notar@ && post.voted_stakes.notar_fallback@ == pre.voted_stakes.notar_fallback@
                && post.voted_stakes.finalize == pre.voted_stakes.finalize && post.voted_stakes.skip_fallback == pre.voted_stakes.skip_fallback
                && post.voted_stakes.notar_or_skip == pre.voted_stakes.notar_or_skip && post.voted_stakes.top_notar == pre.voted_stakes.top_notar,
            Pending::SkipFallback(v) => 0 <= v < pre.nv() && pre.votes.skip_fallback@[v] is Some
                && post.voted_stakes.skip_fallback.0 == pre.voted_stakes.skip_fallback.0 + st[v]
                && post.voted_stakes.notar@ == pre.voted_stakes.notar@ && post.voted_stakes.notar_fallback@ == pre.voted_stakes.notar_fallback@
                && post.voted_stakes.finalize == pre.voted_stakes.finalize && post.voted_stakes.skip == pre.voted_stakes.skip
                && post.voted_stakes.notar_or_skip == pre.voted_stakes.notar_or_skip && post.voted_stakes.top_notar == pre.voted_stakes.top_notar,
            Pending::NotarFallback(v, h) => 0 <= v < pre.nv() && pre.votes.notar_fallback@[v]@.contains_key(h)
                && post.voted_stakes.notar_fallback@.contains_key(h)
                && post.voted_stakes.notar_fallback@[h].0 == Self::map_stake(pre.voted_stakes.notar_fallback@, h) + st[v]
                && (forall|g: BlockHash| g != h ==> Self::map_stake(post.voted_stakes.notar_fallback@, g) == Self::map_stake(pre.voted_stakes.notar_fallback@, g))
                && post.voted_stakes.notar@ == pre.voted_stakes.notar@
                && post.voted_stakes.finalize == pre.voted_stakes.finalize && post.voted_stakes.skip == pre.voted_stakes.skip
                && post.voted_stakes.skip_fallback == pre.voted_stakes.skip_fallback
                && post.voted_stakes.notar_or_skip == pre.voted_stakes.notar_or_skip && post.voted_stakes.top_notar == pre.voted_stakes.top_notar,
            Pending::Notar(v) => 0 <= v < pre.nv() && pre.votes.notar@[v] is Some && {
                let h = pre.votes.notar@[v]->0.block_hash;
                post.voted_stakes.notar@.contains_key(h)
                && post.voted_stakes.notar@[h].0 == Self::map_stake(pre.voted_stakes.notar@, h) + st[v]
                && (forall|g: BlockHash| g != h ==> Self::map_stake(post.voted_stakes.notar@, g) == Self::map_stake(pre.voted_stakes.notar@, g))
                && post.voted_stakes.notar_or_skip.0 == pre.voted_stakes.notar_or_skip.0 + st[v]
                && post.voted_stakes.top_notar.0 == (if post.voted_stakes.notar@[h].0 >= pre.voted_stakes.top_notar.0 { post.voted_stakes.notar@[h].0 } else { pre.voted_stakes.top_notar.0 })
                && post.voted_stakes.notar_fallback@ == pre.voted_stakes.notar_fallback@
                && post.voted_stakes.finalize == pre.voted_stakes.finalize && post.voted_stakes.skip == pre.voted_stakes.skip
                && post.voted_stakes.skip_fallback == pre.voted_stakes.skip_fallback },
        }
    }

    // the pending vote's stake fits: counter + stake[v] <= total
    pub proof fn lemma_room_for_pending(&self, pend: Pending)
        requires self.wf_pend(pend),
        ensures
            self.bounds_ok(),
            pend matches Pending::Final(v) ==> (0 <= v < self.nv() && self.votes.finalize@[v] is Some ==> self.voted_stakes.finalize.0 + self.stakes()[v] <= self.total()),
            pend matches Pending::Skip(v) ==> (0 <= v < self.nv() && self.votes.skip@[v] is Some ==> self.voted_stakes.skip.0 + self.stakes()[v] <= self.total()),
            pend matches Pending::SkipFallback(v) ==> (0 <= v < self.nv() && self.votes.skip_fallback@[v] is Some ==> self.voted_stakes.skip_fallback.0 + self.stakes()[v] <= self.total()),
            pend matches Pending::NotarFallback(v, h) ==> (0 <= v < self.nv() && self.votes.notar_fallback@[v]@.contains_key(h) ==>
                Self::map_stake(self.voted_stakes.notar_fallback@, h) + self.stakes()[v] <= self.total()),
            pend matches Pending::Notar(v) ==> (0 <= v < self.nv() && self.votes.notar@[v] is Some ==>
                Self::map_stake(self.voted_stakes.notar@, self.votes.notar@[v]->0.block_hash) + self.stakes()[v] <= self.total()
                && self.voted_stakes.notar_or_skip.0 + self.stakes()[v] <= self.total()),
    {
        self.lemma_bounds(pend);
        self.lemma_stakes_nonneg();
        let st = self.stakes();
        let n = self.nv();
        match pend {
            Pending::Final(v) => { if 0 <= v < n && self.votes.finalize@[v] is Some {
                lemma_sum_add_one(st, n, self.c_final(pend), self.c_final(Pending::Nothing), v);
                lemma_sum_mono(st, n, self.c_final(Pending::Nothing), all_true()); } }
            Pending::Skip(v) => { if 0 <= v < n && self.votes.skip@[v] is Some {
                lemma_sum_add_one(st, n, self.c_skip(pend), self.c_skip(Pending::Nothing), v);
                lemma_sum_mono(st, n, self.c_skip(Pending::Nothing), all_true()); } }
            Pending::SkipFallback(v) => { if 0 <= v < n && self.votes.skip_fallback@[v] is Some {
                lemma_sum_add_one(st, n, self.c_skip_fb(pend), self.c_skip_fb(Pending::Nothing), v);
                lemma_sum_mono(st, n, self.c_skip_fb(Pending::Nothing), all_true()); } }
            Pending::NotarFallback(v, h) => { if 0 <= v < n && self.votes.notar_fallback@[v]@.contains_key(h) {
                lemma_sum_add_one(st, n, self.c_nf(h, pend), self.c_nf(h, Pending::Nothing), v);
                lemma_sum_mono(st, n, self.c_nf(h, Pending::Nothing), all_true()); } }
            Pending::Notar(v) => { if 0 <= v < n && self.votes.notar@[v] is Some {
                let h = self.votes.notar@[v]->0.block_hash;
                lemma_sum_add_one(st, n, self.c_notar(h, pend), self.c_notar(h, Pending::Nothing), v);
                lemma_sum_mono(st, n, self.c_notar(h, Pending::Nothing), all_true());
                lemma_sum_add_one(st, n, self.c_nos(pend), self.c_nos(Pending::Nothing), v);
                lemma_sum_mono(st, n, self.c_nos(Pending::Nothing), all_true()); } }
            Pending::Nothing => {}
        }
    }

    // [C04.counted_once_per_class]: after counting, every counter again equals the stake sum of the
    // stored votes of its class - each validator's stake exactly once per class.
    pub proof fn lemma_wf_after_count(pre: &SlotState, post: &SlotState, pend: Pending)
        requires
            pre.wf_pend(pend),
            post.same_votes(pre),
            Self::counted(pre, post, pend),
        ensures
            post.wf_pend(Pending::Nothing),
    {
        let st = pre.stakes();
        let n = pre.nv();
        let none = Pending::Nothing;
        pre.lemma_stakes_nonneg();
        assert(post.stakes() == st);
        // classes not touched by `pend`: pointwise-equal predicates
        assert forall|h: BlockHash| #[trigger] post.sum(post.c_notar(h, none)) == pre.sum(pre.c_notar(h, pend)) + (if pend == Pending::Notar(Self::pv(pend)) && pre.votes.notar@[Self::pv(pend)]->0.block_hash == h { st[Self::pv(pend)] } else { 0 }) by {
            if let Pending::Notar(v) = pend {
                if pre.votes.notar@[v]->0.block_hash == h {
                    lemma_sum_add_one(st, n, pre.c_notar(h, pend), post.c_notar(h, none), v);
                } else {
                    lemma_sum_ext(st, n, pre.c_notar(h, pend), post.c_notar(h, none));
                }
            } else {
                lemma_sum_ext(st, n, pre.c_notar(h, pend), post.c_notar(h, none));
            }
        }
        assert forall|h: BlockHash| #[trigger] post.sum(post.c_nf(h, none)) == pre.sum(pre.c_nf(h, pend)) + (if pend == Pending::NotarFallback(Self::pv(pend), h) { st[Self::pv(pend)] } else { 0 }) by {
            if pend == Pending::NotarFallback(Self::pv(pend), h) {
                lemma_sum_add_one(st, n, pre.c_nf(h, pend), post.c_nf(h, none), Self::pv(pend));
            } else {
                lemma_sum_ext(st, n, pre.c_nf(h, pend), post.c_nf(h, none));
            }
        }
        if let Pending::Skip(v) = pend { lemma_sum_add_one(st, n, pre.c_skip(pend), post.c_skip(none), v); }
        else { lemma_sum_ext(st, n, pre.c_skip(pend), post.c_skip(none)); }
        if let Pending::SkipFallback(v) = pend { lemma_sum_add_one(st, n, pre.c_skip_fb(pend), post.c_skip_fb(none), v); }
        else { lemma_sum_ext(st, n, pre.c_skip_fb(pend), post.c_skip_fb(none)); }
        if let Pending::Final(v) = pend { lemma_sum_add_one(st, n, pre.c_final(pend), post.c_final(none), v); }
        else { lemma_sum_ext(st, n, pre.c_final(pend), post.c_final(none)); }
        if let Pending::Notar(v) = pend { lemma_sum_add_one(st, n, pre.c_nos(pend), post.c_nos(none), v); }
        else { lemma_sum_ext(st, n, pre.c_nos(pend), post.c_nos(none)); }
        // top_notar witness
        if post.voted_stakes.top_notar.0 != 0 {
            if let Pending::Notar(v) = pend {
                let h = pre.votes.notar@[v]->0.block_hash;
                if post.voted_stakes.notar@[h].0 >= pre.voted_stakes.top_notar.0 {
                    assert(post.sum(post.c_notar(h, none)) == post.voted_stakes.top_notar.0);
                } else {
                    let g = choose|g: BlockHash| pre.sum(pre.c_notar(g, pend)) == pre.voted_stakes.top_notar.0;
                    assert(post.sum(post.c_notar(g, none)) == post.voted_stakes.top_notar.0);
                }
            } else {
                let g = choose|g: BlockHash| pre.sum(pre.c_notar(g, pend)) == pre.voted_stakes.top_notar.0;
                assert(post.sum(post.c_notar(g, none)) == post.voted_stakes.top_notar.0);
            }
        }
        assert(post.wf_epoch());
        assert(post.wf_votes());
        assert(forall|h: BlockHash| Self::map_stake(post.voted_stakes.notar@, h) == post.sum(post.c_notar(h, none)));
        assert(forall|h: BlockHash| Self::map_stake(post.voted_stakes.notar_fallback@, h) == post.sum(post.c_nf(h, none)));
        assert(post.voted_stakes.skip.0 == post.sum(post.c_skip(none)));
        assert(post.voted_stakes.skip_fallback.0 == post.sum(post.c_skip_fb(none)));
        assert(post.voted_stakes.finalize.0 == post.sum(post.c_final(none)));
        assert(post.voted_stakes.notar_or_skip.0 == post.sum(post.c_nos(none)));
        assert(forall|h: BlockHash| post.sum(post.c_notar(h, none)) <= post.voted_stakes.top_notar.0);
        assert(post.voted_stakes.top_notar.0 == 0 || exists|h: BlockHash| post.sum(post.c_notar(h, none)) == post.voted_stakes.top_notar.0);
    }

    pub proof fn lemma_wf_transfer(a: &SlotState, b: &SlotState, pend: Pending)
        requires a.wf_pend(pend), b.same_votes(a), b.voted_stakes == a.voted_stakes,
        ensures b.wf_pend(pend),
    {
        assert(b.wf_epoch());
        assert(b.wf_votes());
        assert(b.stakes() == a.stakes());
        assert(b.nv() == a.nv());
        assert(forall|h: BlockHash| b.c_notar(h, pend) == a.c_notar(h, pend));
        assert(forall|h: BlockHash| b.sum(b.c_notar(h, pend)) == a.sum(a.c_notar(h, pend)));
        assert(b.voted_stakes.notar@ == a.voted_stakes.notar@);
        assert(forall|h: BlockHash| Self::map_stake(b.voted_stakes.notar@, h) == b.sum(b.c_notar(h, pend)));
        assert(forall|h: BlockHash| Self::map_stake(b.voted_stakes.notar_fallback@, h) == b.sum(b.c_nf(h, pend)));
        assert(b.voted_stakes.skip.0 == b.sum(b.c_skip(pend)));
        assert(b.voted_stakes.notar_or_skip.0 == b.sum(b.c_nos(pend)));
        assert(forall|h: BlockHash| b.sum(b.c_notar(h, pend)) <= b.voted_stakes.top_notar.0);
        assert(b.voted_stakes.top_notar.0 == 0 || exists|h: BlockHash| b.sum(b.c_notar(h, pend)) == b.voted_stakes.top_notar.0);
        assert(b.wf_stakes(pend));
    }
    pub open spec fn pv(pend: Pending) -> int {
        match pend {
            Pending::Nothing => -1,
            Pending::Notar(v) => v,
            Pending::NotarFallback(v, _) => v,
            Pending::Skip(v) => v,
            Pending::SkipFallback(v) => v,
            Pending::Final(v) => v,
        }
    }
}

// =============================================================== C03 specification (from the statement)
pub enum CertKind { Notar, NotarFallback, Skip, FastFinal, Final }

impl Cert {
    pub open spec fn kind(&self) -> CertKind {
        match *self {
            Cert::Notar(_) => CertKind::Notar,
            Cert::NotarFallback(_) => CertKind::NotarFallback,
            Cert::Skip(_) => CertKind::Skip,
            Cert::FastFinal(_) => CertKind::FastFinal,
            Cert::Final(_) => CertKind::Final,
        }
    }
}

pub open spec fn has_kind(certs: Seq<Cert>, k: CertKind) -> bool {
    exists|i: int| 0 <= i < certs.len() && (#[trigger] certs[i]).kind() == k
}
pub open spec fn kinds_distinct(certs: Seq<Cert>) -> bool {
    forall|i: int, j: int| 0 <= i < j < certs.len() ==> (#[trigger] certs[i]).kind() != (#[trigger] certs[j]).kind()
}

pub proof fn lemma_votes_from_idx<V>(n: int, p: spec_fn(int) -> bool, get: spec_fn(int) -> V, r: Seq<V>, signer: spec_fn(V) -> int)
    requires
        r.len() == idx_where(n, p).len(),
        forall|i: int| 0 <= i < r.len() ==> #[trigger] r[i] == get(idx_where(n, p)[i]),
        forall|v: int| 0 <= v < n && #[trigger] p(v) ==> signer(get(v)) == v,
    ensures
        distinct_in_range(r, signer, n),
        signers_of(r, signer) == set_of(n, p),
        forall|i: int| 0 <= i < r.len() ==> 0 <= signer(#[trigger] r[i]) < n && p(signer(r[i])) && r[i] == get(signer(r[i])),
{
    lemma_idx_where(n, p);
    let idx = idx_where(n, p);
    assert forall|i: int| 0 <= i < r.len() implies 0 <= signer(#[trigger] r[i]) < n && p(signer(r[i])) && r[i] == get(signer(r[i])) && signer(r[i]) == idx[i] by {
        assert(p(idx[i]));
    }
    assert(signers_of(r, signer) =~= set_of(n, p)) by {
        assert forall|v: int| set_of(n, p).contains(v) implies signers_of(r, signer).contains(v) by {
            assert(p(v));
            assert(idx.contains(v));
            let i = choose|i: int| 0 <= i < idx.len() && idx[i] == v;
            assert(signer(r[i]) == v);
        }
    }
}

pub proof fn lemma_positive_sum_nonempty(stakes: Seq<int>, n: int, p: spec_fn(int) -> bool)
    requires sum_where(stakes, n, p) > 0,
    ensures idx_where(n, p).len() > 0,
{
    lemma_idx_where(n, p);
    if forall|v: int| 0 <= v < n ==> !#[trigger] p(v) {
        lemma_sum_none(stakes, n, p);
    } else {
        let v = choose|v: int| 0 <= v < n && #[trigger] p(v);
        assert(idx_where(n, p).contains(v));
    }
}

impl SlotState {
    // The statement's notion of a valid, justified certificate, over the node's stored (accepted) votes:
    // signers are exactly the validators whose matching vote is stored (the two halves of a mixed
    // certificate are disjoint by wf_votes, so each validator counts once) and their stake meets the threshold.
    pub open spec fn cert_ok(&self, c: Cert) -> bool {
        let n = self.nv();
        match c {
            Cert::Notar(x) => x.slot == self.slot
                && x.agg_sig.signers() == set_of(n, self.votes.p_notar(x.block_hash))
                && at_least_pct(self.sum(self.votes.p_notar(x.block_hash)), self.total(), 60),
            Cert::FastFinal(x) => x.slot == self.slot
                && x.agg_sig.signers() == set_of(n, self.votes.p_notar(x.block_hash))
                && at_least_pct(self.sum(self.votes.p_notar(x.block_hash)), self.total(), 80),
            Cert::NotarFallback(x) => x.slot == self.slot
                && opt_signers(x.agg_sig_notar) == set_of(n, self.votes.p_notar(x.block_hash))
                && opt_signers(x.agg_sig_notar_fallback) == set_of(n, self.votes.p_nf(x.block_hash))
                && at_least_pct(self.sum(self.votes.p_notar(x.block_hash)) + self.sum(self.votes.p_nf(x.block_hash)), self.total(), 60),
            Cert::Skip(x) => x.slot == self.slot
                && opt_signers(x.agg_sig_skip) == set_of(n, self.votes.p_skip())
                && opt_signers(x.agg_sig_skip_fallback) == set_of(n, self.votes.p_skip_fb())
                && at_least_pct(self.sum(self.votes.p_skip()) + self.sum(self.votes.p_skip_fb()), self.total(), 60),
            Cert::Final(x) => x.slot == self.slot
                && x.agg_sig.signers() == set_of(n, self.votes.p_final())
                && at_least_pct(self.sum(self.votes.p_final()), self.total(), 60),
        }
    }

    // with nothing pending, "counted" and "stored" coincide
    pub proof fn lemma_counted_is_stored(&self)
        requires self.wf(),
        ensures
            forall|h: BlockHash| #[trigger] self.sum(self.votes.p_notar(h)) == Self::map_stake(self.voted_stakes.notar@, h),
            forall|h: BlockHash| #[trigger] self.sum(self.votes.p_nf(h)) == Self::map_stake(self.voted_stakes.notar_fallback@, h),
            self.sum(self.votes.p_skip()) == self.voted_stakes.skip.0,
            self.sum(self.votes.p_skip_fb()) == self.voted_stakes.skip_fallback.0,
            self.sum(self.votes.p_final()) == self.voted_stakes.finalize.0,
    {
        let st = self.stakes();
        let n = self.nv();
        let none = Pending::Nothing;
        assert forall|h: BlockHash| #[trigger] self.sum(self.votes.p_notar(h)) == Self::map_stake(self.voted_stakes.notar@, h) by {
            lemma_sum_ext(st, n, self.votes.p_notar(h), self.c_notar(h, none));
        }
        assert forall|h: BlockHash| #[trigger] self.sum(self.votes.p_nf(h)) == Self::map_stake(self.voted_stakes.notar_fallback@, h) by {
            lemma_sum_ext(st, n, self.votes.p_nf(h), self.c_nf(h, none));
        }
        lemma_sum_ext(st, n, self.votes.p_skip(), self.c_skip(none));
        lemma_sum_ext(st, n, self.votes.p_skip_fb(), self.c_skip_fb(none));
        lemma_sum_ext(st, n, self.votes.p_final(), self.c_final(none));
    }
}

// =============================================================== C06 event specification
// A safe-to-notar event for block b of this slot may be emitted only if b was not signalled before,
// is recorded as signalled afterwards, and the statement's condition holds in the resulting state.
pub open spec fn s2n_event_ok(old_sent: Set<BlockHash>, fin: &SlotState, e: PoolEvent) -> bool {
    match e {
        PoolEvent::SafeToNotar(id) => id.0 == fin.slot && !old_sent.contains(id.1) && fin.sent_safe_to_notar@.contains(id.1) && fin.spec_s2n(id.1),
        PoolEvent::SafeToSkip(_) => true,   // constrained by s2s_event_ok
        _ => false,
    }
}
pub open spec fn s2s_event_ok(old: &SlotState, fin: &SlotState, e: PoolEvent) -> bool {
    match e {
        PoolEvent::SafeToSkip(s) => s == fin.slot && !old.sent_safe_to_skip && fin.sent_safe_to_skip && fin.spec_s2s(),
        _ => true,
    }
}
pub open spec fn events_distinct(evs: Seq<PoolEvent>) -> bool {
    forall|i: int, j: int| 0 <= i < j < evs.len() ==> #[trigger] evs[i] != #[trigger] evs[j]
}
pub open spec fn events_ok(old: &SlotState, fin: &SlotState, evs: Seq<PoolEvent>) -> bool {
    &&& forall|i: int| 0 <= i < evs.len() ==> s2n_event_ok(old.sent_safe_to_notar@, fin, #[trigger] evs[i]) && s2s_event_ok(old, fin, evs[i])
    &&& events_distinct(evs)
    &&& old.sent_safe_to_notar@.subset_of(fin.sent_safe_to_notar@)
    &&& (old.sent_safe_to_skip ==> fin.sent_safe_to_skip)
}

impl Cert {
    pub open spec fn spec_block_hash(&self) -> Option<BlockHash> {
        match *self {
            Cert::Notar(x) => Some(x.block_hash),
            Cert::NotarFallback(x) => Some(x.block_hash),
            Cert::FastFinal(x) => Some(x.block_hash),
            Cert::Skip(_) => None,
            Cert::Final(_) => None,
        }
    }
    pub open spec fn spec_slot(&self) -> Slot {
        match *self {
            Cert::Notar(x) => x.slot,
            Cert::NotarFallback(x) => x.slot,
            Cert::FastFinal(x) => x.slot,
            Cert::Skip(x) => x.slot,
            Cert::Final(x) => x.slot,
        }
    }
}

impl SlotState {
    pub proof fn lemma_notar_cert_votes(&self, h: BlockHash, votes: Seq<NotarVote>)
        requires
            self.wf(),
            votes.len() == idx_where(self.votes.notar@.len() as int, self.votes.p_notar(h)).len(),
            forall|i: int| 0 <= i < votes.len() ==> Some(#[trigger] votes[i]) == self.votes.notar@[idx_where(self.votes.notar@.len() as int, self.votes.p_notar(h))[i]],
        ensures
            distinct_in_range(votes, nv_signer(), self.nv()),
            signers_of(votes, nv_signer()) == set_of(self.nv(), self.votes.p_notar(h)),
            forall|i: int| 0 <= i < votes.len() ==> (#[trigger] votes[i]).slot == self.slot && votes[i].block_hash == h,
            self.sum(self.votes.p_notar(h)) > 0 ==> votes.len() > 0,
    {
        let n = self.nv();
        let p = self.votes.p_notar(h);
        lemma_idx_where(n, p);
        lemma_votes_from_idx(n, p, |v: int| self.votes.notar@[v]->0, votes, nv_signer());
        if self.sum(p) > 0 { lemma_positive_sum_nonempty(self.stakes(), n, p); }
    }

    pub proof fn lemma_nf_cert_votes(&self, h: BlockHash, notar_votes: Seq<NotarVote>, nf_votes: Seq<NotarFallbackVote>)
        requires
            self.wf(),
            notar_votes.len() == idx_where(self.votes.notar@.len() as int, self.votes.p_notar(h)).len(),
            forall|i: int| 0 <= i < notar_votes.len() ==> Some(#[trigger] notar_votes[i]) == self.votes.notar@[idx_where(self.votes.notar@.len() as int, self.votes.p_notar(h))[i]],
            nf_votes.len() == idx_where(self.votes.notar_fallback@.len() as int, self.votes.p_nf(h)).len(),
            forall|i: int| 0 <= i < nf_votes.len() ==> #[trigger] nf_votes[i] == self.votes.notar_fallback@[idx_where(self.votes.notar_fallback@.len() as int, self.votes.p_nf(h))[i]]@[h],
        ensures
            distinct_in_range(notar_votes, nv_signer(), self.nv()),
            distinct_in_range(nf_votes, nfv_signer(), self.nv()),
            signers_of(notar_votes, nv_signer()) == set_of(self.nv(), self.votes.p_notar(h)),
            signers_of(nf_votes, nfv_signer()) == set_of(self.nv(), self.votes.p_nf(h)),
            forall|i: int| 0 <= i < notar_votes.len() ==> (#[trigger] notar_votes[i]).slot == self.slot && notar_votes[i].block_hash == h,
            forall|i: int| 0 <= i < nf_votes.len() ==> (#[trigger] nf_votes[i]).slot == self.slot && nf_votes[i].block_hash == h,
            self.sum(self.votes.p_notar(h)) + self.sum(self.votes.p_nf(h)) > 0 ==> notar_votes.len() + nf_votes.len() > 0,
    {
        let n = self.nv();
        self.lemma_notar_cert_votes(h, notar_votes);
        let p = self.votes.p_nf(h);
        lemma_idx_where(n, p);
        lemma_votes_from_idx(n, p, |v: int| self.votes.notar_fallback@[v]@[h], nf_votes, nfv_signer());
        self.lemma_stakes_nonneg();
        lemma_sum_nonneg(self.stakes(), n, self.votes.p_notar(h));
        lemma_sum_nonneg(self.stakes(), n, p);
        if self.sum(p) > 0 { lemma_positive_sum_nonempty(self.stakes(), n, p); }
    }
}

// =============================================================== storing an admitted vote (PROVED)
pub open spec fn vv_add(s: VV, k: VoteKind) -> VV {
    match k {
        VoteKind::Notar(h) => VV { notar: Some(h), ..s },
        VoteKind::NotarFallback(h) => VV { nf: s.nf.insert(h), ..s },
        VoteKind::Skip => VV { skip: true, ..s },
        VoteKind::SkipFallback => VV { skip_fb: true, ..s },
        VoteKind::Final => VV { fin: true, ..s },
    }
}

impl SlotState {
    // a vote the pool may hand to add_vote: known signer, this slot, neither slashable nor a repeat
    pub open spec fn admissible(&self, vote: Vote) -> bool {
        let v = vote.spec_signer().0 as int;
        &&& 0 <= v < self.nv()
        &&& vote.spec_slot() == self.slot
        &&& !conflict_exists(self.votes.vv(v), vote.spec_kind())
        &&& !repeat_exists(self.votes.vv(v), vote.spec_kind())
    }

    pub open spec fn pend_of(vote: Vote) -> Pending {
        let v = vote.spec_signer().0 as int;
        match vote {
            Vote::Notar(_) => Pending::Notar(v),
            Vote::NotarFallback(x) => Pending::NotarFallback(v, x.block_hash),
            Vote::Skip(_) => Pending::Skip(v),
            Vote::SkipFallback(_) => Pending::SkipFallback(v),
            Vote::Final(_) => Pending::Final(v),
        }
    }

    // `post` is `pre` with exactly this vote stored at its signer's index (and, for a skip vote,
    // notar_or_skip already incremented: that is the order in add_vote)
    pub open spec fn stored(pre: &SlotState, post: &SlotState, vote: Vote) -> bool {
        let v = vote.spec_signer().0 as int;
        &&& post.epoch_info == pre.epoch_info
        &&& post.slot == pre.slot
        &&& post.votes.shape(pre.nv())
        &&& match vote {
            Vote::Notar(x) => post.votes.notar@ == pre.votes.notar@.update(v, Some(x))
                && post.votes.notar_fallback == pre.votes.notar_fallback && post.votes.skip == pre.votes.skip
                && post.votes.skip_fallback == pre.votes.skip_fallback && post.votes.finalize == pre.votes.finalize
                && post.voted_stakes == pre.voted_stakes,
            Vote::NotarFallback(x) => post.votes.notar_fallback@[v]@ == pre.votes.notar_fallback@[v]@.insert(x.block_hash, x)
                && (forall|u: int| 0 <= u < pre.nv() && u != v ==> #[trigger] post.votes.notar_fallback@[u] == pre.votes.notar_fallback@[u])
                && post.votes.notar == pre.votes.notar && post.votes.skip == pre.votes.skip
                && post.votes.skip_fallback == pre.votes.skip_fallback && post.votes.finalize == pre.votes.finalize
                && post.voted_stakes == pre.voted_stakes,
            Vote::Skip(x) => post.votes.skip@ == pre.votes.skip@.update(v, Some(x))
                && post.votes.notar_fallback == pre.votes.notar_fallback && post.votes.notar == pre.votes.notar
                && post.votes.skip_fallback == pre.votes.skip_fallback && post.votes.finalize == pre.votes.finalize
                && post.voted_stakes.notar_or_skip.0 == pre.voted_stakes.notar_or_skip.0 + pre.stakes()[v]
                && post.voted_stakes.notar@ == pre.voted_stakes.notar@ && post.voted_stakes.notar_fallback@ == pre.voted_stakes.notar_fallback@
                && post.voted_stakes.skip == pre.voted_stakes.skip && post.voted_stakes.skip_fallback == pre.voted_stakes.skip_fallback
                && post.voted_stakes.finalize == pre.voted_stakes.finalize && post.voted_stakes.top_notar == pre.voted_stakes.top_notar,
            Vote::SkipFallback(x) => post.votes.skip_fallback@ == pre.votes.skip_fallback@.update(v, Some(x))
                && post.votes.notar_fallback == pre.votes.notar_fallback && post.votes.notar == pre.votes.notar
                && post.votes.skip == pre.votes.skip && post.votes.finalize == pre.votes.finalize
                && post.voted_stakes == pre.voted_stakes,
            Vote::Final(x) => post.votes.finalize@ == pre.votes.finalize@.update(v, Some(x))
                && post.votes.notar_fallback == pre.votes.notar_fallback && post.votes.notar == pre.votes.notar
                && post.votes.skip == pre.votes.skip && post.votes.skip_fallback == pre.votes.skip_fallback
                && post.voted_stakes == pre.voted_stakes,
        }
    }

    // [C04.accepted_vote_is_stored]: afterwards the signer's accepted votes are the old ones plus this
    // vote, every other validator's are untouched, and the counters are those of the old state with
    // this vote pending.
    pub proof fn lemma_wf_after_store(pre: &SlotState, post: &SlotState, vote: Vote)
        requires
            pre.wf(),
            pre.admissible(vote),
            Self::stored(pre, post, vote),
        ensures
            post.wf_pend(Self::pend_of(vote)),
            post.votes.vv(vote.spec_signer().0 as int) == vv_add(pre.votes.vv(vote.spec_signer().0 as int), vote.spec_kind()),
            forall|u: int| 0 <= u < pre.nv() && u != vote.spec_signer().0 ==> #[trigger] post.votes.vv(u) == pre.votes.vv(u),
    {
        let v = vote.spec_signer().0 as int;
        let st = pre.stakes();
        let n = pre.nv();
        let pend = Self::pend_of(vote);
        let none = Pending::Nothing;
        lemma_c04_expand(pre.votes.vv(v), vote.spec_kind());
        assert(post.votes.vv(v).nf =~= vv_add(pre.votes.vv(v), vote.spec_kind()).nf);
        assert(post.wf_votes());
        assert forall|h: BlockHash| #[trigger] post.sum(post.c_notar(h, pend)) == pre.sum(pre.c_notar(h, none)) by {
            lemma_sum_ext(st, n, post.c_notar(h, pend), pre.c_notar(h, none));
        }
        assert forall|h: BlockHash| #[trigger] post.sum(post.c_nf(h, pend)) == pre.sum(pre.c_nf(h, none)) by {
            lemma_sum_ext(st, n, post.c_nf(h, pend), pre.c_nf(h, none));
        }
        lemma_sum_ext(st, n, post.c_skip(pend), pre.c_skip(none));
        lemma_sum_ext(st, n, post.c_skip_fb(pend), pre.c_skip_fb(none));
        lemma_sum_ext(st, n, post.c_final(pend), pre.c_final(none));
        if vote is Skip {
            lemma_sum_add_one(st, n, pre.c_nos(none), post.c_nos(pend), v);
        } else {
            lemma_sum_ext(st, n, post.c_nos(pend), pre.c_nos(none));
        }
        if post.voted_stakes.top_notar.0 != 0 {
            let g = choose|g: BlockHash| pre.sum(pre.c_notar(g, none)) == pre.voted_stakes.top_notar.0;
            assert(post.sum(post.c_notar(g, pend)) == post.voted_stakes.top_notar.0);
        }
        assert forall|u: int| 0 <= u < pre.nv() && u != v implies #[trigger] post.votes.vv(u) == pre.votes.vv(u) by {
            assert(post.votes.vv(u).nf =~= pre.votes.vv(u).nf);
        }
        assert(post.stakes() == st);
        assert(forall|h: BlockHash| Self::map_stake(post.voted_stakes.notar@, h) == post.sum(post.c_notar(h, pend)));
        assert(forall|h: BlockHash| Self::map_stake(post.voted_stakes.notar_fallback@, h) == post.sum(post.c_nf(h, pend)));
        assert(post.voted_stakes.skip.0 == post.sum(post.c_skip(pend)));
        assert(post.voted_stakes.skip_fallback.0 == post.sum(post.c_skip_fb(pend)));
        assert(post.voted_stakes.finalize.0 == post.sum(post.c_final(pend)));
        assert(post.voted_stakes.notar_or_skip.0 == post.sum(post.c_nos(pend)));
        assert(forall|h: BlockHash| post.sum(post.c_notar(h, pend)) <= post.voted_stakes.top_notar.0);
    }

    // a skip vote's stake fits into notar_or_skip (the signer has neither notar nor skip stored)
    pub proof fn lemma_room_for_skip_in_nos(&self, vote: Vote)
        requires self.wf(), self.admissible(vote), vote is Skip,
        ensures self.voted_stakes.notar_or_skip.0 + self.stakes()[vote.spec_signer().0 as int] <= self.total(), self.total() <= u64::MAX,
    {
        let v = vote.spec_signer().0 as int;
        let st = self.stakes();
        let n = self.nv();
        lemma_c04_expand(self.votes.vv(v), vote.spec_kind());
        self.lemma_stakes_nonneg();
        self.lemma_bounds(Pending::Nothing);
        let q = |u: int| self.c_nos(Pending::Nothing)(u) || u == v;
        lemma_sum_add_one(st, n, self.c_nos(Pending::Nothing), q, v);
        lemma_sum_mono(st, n, q, all_true());
    }

    // which certificates are due after accepting `vote` (C03 "as soon as, and only when")
    pub open spec fn cert_due(old: &SlotState, fin: &SlotState, vote: Vote, k: CertKind) -> bool {
        match (k, vote.spec_kind()) {
            (CertKind::Notar, VoteKind::Notar(h)) => at_least_pct(fin.sum(fin.votes.p_notar(h)), fin.total(), 60) && old.certificates.notar is None,
            (CertKind::FastFinal, VoteKind::Notar(h)) => at_least_pct(fin.sum(fin.votes.p_notar(h)), fin.total(), 80) && old.certificates.fast_finalize is None,
            (CertKind::NotarFallback, VoteKind::Notar(h)) => at_least_pct(fin.sum(fin.votes.p_notar(h)) + fin.sum(fin.votes.p_nf(h)), fin.total(), 60) && !old.has_nf_cert(h),
            (CertKind::NotarFallback, VoteKind::NotarFallback(h)) => at_least_pct(fin.sum(fin.votes.p_notar(h)) + fin.sum(fin.votes.p_nf(h)), fin.total(), 60) && !old.has_nf_cert(h),
            (CertKind::Skip, VoteKind::Skip) => at_least_pct(fin.sum(fin.votes.p_skip()) + fin.sum(fin.votes.p_skip_fb()), fin.total(), 60) && old.certificates.skip is None,
            (CertKind::Skip, VoteKind::SkipFallback) => at_least_pct(fin.sum(fin.votes.p_skip()) + fin.sum(fin.votes.p_skip_fb()), fin.total(), 60) && old.certificates.skip is None,
            (CertKind::Final, VoteKind::Final) => at_least_pct(fin.sum(fin.votes.p_final()), fin.total(), 60) && old.certificates.finalize is None,
            _ => false,
        }
    }
}

