// Unit U2 `slot_state`: per-slot vote admission, stake counting, certificate creation and
// safe-to-notar / safe-to-skip signalling (src/consensus/pool/slot_state.rs).
// Serves C03 C04 C06.
use vstd::prelude::*;
use std::collections::BTreeMap;
use std::sync::Arc;

verus! {

/*@ include units/common/base_types.rs @*/
/*@ include units/common/quorum_core.rs @*/
/*@ include units/common/vote_types.rs @*/
/*@ include units/common/pool_stubs.rs @*/
/*@ include units/common/sums.rs @*/
/*@ include units/slot_state/spec.rs @*/

pub mod code {
use super::*;
broadcast use super::axiom_DoubleMerkleRoot_obeys_cmp_laws;

/*@ include units/common/std_specs.rs @*/

impl SlotState {
/*@ extract src/consensus/pool/slot_state.rs :: impl SlotState/fn check_slashable_offence
props C04
ret r
requires
        self.votes.shape(self.votes.notar@.len() as int),
        (vote.spec_signer().0 as int) < self.votes.notar@.len(),
ensures
        // [C04.slashable_iff_conflict]
        (r is Some) <==> conflict_exists(self.votes.vv(vote.spec_signer().0 as int), vote.spec_kind()),
        // [C04.offence_is_the_conflict]
        r matches Some(o) ==> offence_possible(self.votes.vv(vote.spec_signer().0 as int), vote.spec_kind(), o.kind())
            && o.who() == (vote.spec_signer(), vote.spec_slot()),
before `let slot = vote.slot();`
        proof { lemma_c04_expand(self.votes.vv(vote.spec_signer().0 as int), vote.spec_kind()); }
@*/

/*@ extract src/consensus/pool/slot_state.rs :: impl SlotState/fn should_ignore_vote
props C04
ret r
requires
        self.votes.shape(self.votes.notar@.len() as int),
        (vote.spec_signer().0 as int) < self.votes.notar@.len(),
ensures
        // [C04.repeat_is_refused]
        repeat_exists(self.votes.vv(vote.spec_signer().0 as int), vote.spec_kind()) ==> r is Some,
        // [C04.refused_only_if_repeat_or_conflict]
        r is Some ==> repeat_exists(self.votes.vv(vote.spec_signer().0 as int), vote.spec_kind())
            || conflict_exists(self.votes.vv(vote.spec_signer().0 as int), vote.spec_kind()),
before `let v = vote.signer().as_usize();`
        proof { lemma_c04_expand(self.votes.vv(vote.spec_signer().0 as int), vote.spec_kind()); }
closure 0
        params existing: &NotarVote
        ret b: bool
        ensures b == (existing.block_hash == nf_vote.block_hash)
@*/

// Canary: the real function under a deliberately false contract; it MUST fail to verify.
/*@ extract src/consensus/pool/slot_state.rs :: impl SlotState/fn check_slashable_offence
as canary_check_slashable_offence
expect-fail
ret r
requires
        self.votes.shape(self.votes.notar@.len() as int),
        (vote.spec_signer().0 as int) < self.votes.notar@.len(),
ensures
        r is None,
@*/

    // ASSUMED contract (body is `iter().any(..)`): some stored notar-fallback cert names this block.
    #[verifier::external_body]
    pub fn is_notar_fallback(&self, block_hash: &BlockHash) -> (r: bool)
        ensures r == self.has_nf_cert(*block_hash)
    { unimplemented!() }

/*@ extract src/consensus/pool/slot_state.rs :: impl SlotState/fn is_notar_fallback_or_stronger
props C06
ret r
ensures
        // [C06.parent_certified_means_notar_nf_or_fastfinal_cert]
        r == ((self.certificates.notar matches Some(c) && c.block_hash == *block_hash)
            || (self.certificates.fast_finalize matches Some(c) && c.block_hash == *block_hash)
            || self.has_nf_cert(*block_hash)),
closure 0
        params c: &NotarCert
        ret b: bool
        ensures b == (c.block_hash == *block_hash)
closure 1
        params c: &FastFinalCert
        ret b: bool
        ensures b == (c.block_hash == *block_hash)
@*/

/*@ extract src/consensus/pool/slot_state.rs :: impl SlotState/fn check_safe_to_notar
props C06
ret r
requires
        old(self).votes.shape(old(self).nv()),
        0 <= old(self).own() < old(self).nv(),
        old(self).bounds_ok(),
ensures
        // [C06.s2n_exactly_when_allowed]
        (r == SafeToNotarStatus::SafeToNotar) <==> old(self).spec_s2n(block_hash),
        // [C06.s2n_marks_sent]
        r == SafeToNotarStatus::SafeToNotar ==> final(self).sent_safe_to_notar@ == old(self).sent_safe_to_notar@.insert(block_hash)
            && final(self).pending_safe_to_notar@ == old(self).pending_safe_to_notar@.remove(block_hash),
        r != SafeToNotarStatus::SafeToNotar ==> final(self).sent_safe_to_notar@ == old(self).sent_safe_to_notar@
            && (final(self).pending_safe_to_notar@ == old(self).pending_safe_to_notar@
                || final(self).pending_safe_to_notar@ == old(self).pending_safe_to_notar@.insert(block_hash)),
        // [C06.block_waiting_for_more_votes_is_remembered] "raised as soon as all conditions hold, whichever arrives last": a block with
        // at least 20% notarize stake that still lacks votes is put on the list the skip-vote path re-examines ...
        (at_least_pct(Self::map_stake(old(self).voted_stakes.notar@, block_hash), old(self).total(), 20) && !old(self).cond_votes(block_hash))
            ==> final(self).pending_safe_to_notar@ == old(self).pending_safe_to_notar@.insert(block_hash),
        // [C06.block_waiting_for_the_own_vote_is_remembered] ... and so is a block for which only the node's own vote is missing
        // (add_vote re-examines the list when the own vote arrives)
        (old(self).cond_votes(block_hash) && old(self).cond_parent(block_hash)
            && old(self).votes.skip@[old(self).own()] is None && old(self).votes.notar@[old(self).own()] is None)
            ==> final(self).pending_safe_to_notar@ == old(self).pending_safe_to_notar@.insert(block_hash),
        // nothing else is put on that list
        (!at_least_pct(Self::map_stake(old(self).voted_stakes.notar@, block_hash), old(self).total(), 20)
            || (old(self).cond_votes(block_hash) && !old(self).cond_parent(block_hash)))
            ==> final(self).pending_safe_to_notar@ == old(self).pending_safe_to_notar@,
        r == SafeToNotarStatus::MissingBlock ==> old(self).cond_votes(block_hash) && !old(self).parents@.contains_key(block_hash),
        // [C06.examined_block_satisfies_the_completeness_invariant] after the examination the block is signalled, or on the waiting list
        // for exactly what it still lacks
        (old(self).sent_safe_to_notar@.contains(block_hash) ==> old(self).cond_votes(block_hash) && old(self).cond_parent(block_hash) && !old(self).own_none())
            ==> final(self).inv_b(block_hash, false),
        // ... and nothing changes for any other block
        forall|g: BlockHash, e: bool| g != block_hash ==> #[trigger] final(self).inv_b(g, e) == old(self).inv_b(g, e),
        // frame
        final(self).votes == old(self).votes,
        final(self).voted_stakes == old(self).voted_stakes,
        final(self).certificates == old(self).certificates,
        final(self).parents == old(self).parents,
        final(self).sent_safe_to_skip == old(self).sent_safe_to_skip,
        final(self).slot == old(self).slot,
        final(self).epoch_info == old(self).epoch_info,
@*/
/*@ extract src/consensus/pool/slot_state.rs :: impl SlotState/fn count_finalize_stake
props C03 C04
ret r
requires
        exists|v: int| 0 <= v < old(self).nv() && old(self).wf_pend(Pending::Final(v))
            && old(self).votes.finalize@[v] is Some && stake.0 == old(self).stakes()[v],
ensures
        // [C04.counted_once_per_class C03.counted_once_per_class]
        final(self).wf(),
        final(self).same_votes(old(self)),
        final(self).certificates == old(self).certificates,
        final(self).parents == old(self).parents,
        final(self).pending_safe_to_notar == old(self).pending_safe_to_notar,
        final(self).sent_safe_to_notar == old(self).sent_safe_to_notar,
        final(self).sent_safe_to_skip == old(self).sent_safe_to_skip,
        // (the completeness invariant of safe-to-notar does not read what this function changes)
        final(self).voted_stakes.notar == old(self).voted_stakes.notar && final(self).voted_stakes.skip == old(self).voted_stakes.skip,
        old(self).s2n_inv(false) ==> final(self).s2n_inv(false),
        old(self).s2n_inv(true) ==> final(self).s2n_inv(true),
        r.1@.len() == 0 && r.2@.len() == 0,
        // [C03.final_cert_exactly_when_due]
        r.0@.len() <= 1,
        (r.0@.len() == 1) <==> (at_least_pct(final(self).sum(final(self).votes.p_final()), final(self).total(), 60)
            && old(self).certificates.finalize is None),
        // [C03.final_cert_signers_are_the_stored_votes]
        forall|i: int| 0 <= i < r.0@.len() ==> (#[trigger] r.0@[i]).kind() == CertKind::Final && final(self).cert_ok(r.0@[i]),
        has_kind(r.0@, CertKind::Final) <==> r.0@.len() == 1,
before `self.voted_stakes.finalize += stake;`
        let ghost pre = *self;
        let ghost pv = choose|v: int| 0 <= v < pre.nv() && pre.wf_pend(Pending::Final(v))
            && pre.votes.finalize@[v] is Some && stake.0 == pre.stakes()[v];
        proof { pre.lemma_room_for_pending(Pending::Final(pv)); }
after `self.voted_stakes.finalize += stake;`
        proof {
            assert forall|g: BlockHash, e: bool| #[trigger] self.inv_b(g, e) == pre.inv_b(g, e) by {}
            assert forall|e: bool| pre.s2n_inv(e) implies self.s2n_inv(e) by { assert forall|g: BlockHash| #[trigger] self.inv_b(g, e) by { assert(pre.inv_b(g, e)); } }
            Self::lemma_wf_after_count(&pre, &*self, Pending::Final(pv));
            self.lemma_counted_is_stored();
        }
after `let votes: Vec<_> = self.votes.final_votes();`
        proof {
            let p = self.votes.p_final();
            let get = |v: int| self.votes.finalize@[v]->0;
            lemma_positive_sum_nonempty(self.stakes(), self.nv(), p);
            lemma_votes_from_idx(self.nv(), p, get, votes@, fv_signer());
        }
before `(new_certs, SmallVec::new(), SmallVec::new())`
        proof { if new_certs@.len() == 1 { assert(new_certs@[0].kind() == CertKind::Final); } }
@*/
/*@ extract src/consensus/pool/slot_state.rs :: impl SlotState/fn count_skip_stake
props C03 C04 C06
ret r
rewrite[R4] `for hash in self.pending_safe_to_notar.clone() {` => `let mut verif_it = self.pending_safe_to_notar.clone().into_iter(); loop { let hash = match verif_it.next() { Some(x) => x, None => break };`
requires
        slot == old(self).slot,
        // [C03.vote_stored_before_counted C06.vote_stored_before_counted]
        exists|v: int| 0 <= v < old(self).nv() && stake.0 == old(self).stakes()[v]
            && (fallback ==> old(self).wf_pend(Pending::SkipFallback(v)) && old(self).votes.skip_fallback@[v] is Some)
            && (!fallback ==> old(self).wf_pend(Pending::Skip(v)) && old(self).votes.skip@[v] is Some),
ensures
        // [C04.counted_once_per_class C03.counted_once_per_class]
        final(self).wf(),
        final(self).same_votes(old(self)),
        final(self).certificates == old(self).certificates,
        final(self).parents == old(self).parents,
        // [C03.skip_cert_exactly_when_due]
        r.0@.len() <= 1,
        (r.0@.len() == 1) <==> (at_least_pct(final(self).sum(final(self).votes.p_skip()) + final(self).sum(final(self).votes.p_skip_fb()), final(self).total(), 60)
            && old(self).certificates.skip is None),
        // [C03.skip_cert_signers_are_the_stored_votes]
        forall|i: int| 0 <= i < r.0@.len() ==> (#[trigger] r.0@[i]).kind() == CertKind::Skip && final(self).cert_ok(r.0@[i]),
        has_kind(r.0@, CertKind::Skip) <==> r.0@.len() == 1,
        // [C06.events_only_when_allowed_and_once C05.fallback_signal_only_after_the_own_vote_and_the_condition] (C05: what Votor answers with a fallback vote)
        events_ok(old(self), final(self), r.1@),
        // [C06.completeness_invariant_is_kept] (a skip vote arriving last)
        old(self).s2n_inv(false) ==> final(self).s2n_inv(false),
        old(self).s2n_inv(true) ==> final(self).s2n_inv(true),
before `if fallback {`
        let ghost pre = *self;
        let ghost pv = choose|v: int| 0 <= v < pre.nv() && stake.0 == pre.stakes()[v]
            && (fallback ==> pre.wf_pend(Pending::SkipFallback(v)) && pre.votes.skip_fallback@[v] is Some)
            && (!fallback ==> pre.wf_pend(Pending::Skip(v)) && pre.votes.skip@[v] is Some);
        let ghost pend = if fallback { Pending::SkipFallback(pv) } else { Pending::Skip(pv) };
        proof { pre.lemma_room_for_pending(pend); }
before `let mut verif_it`
        proof {
            Self::lemma_wf_after_count(&pre, &*self, pend);
            self.lemma_counted_is_stored();
            self.lemma_bounds(Pending::Nothing);
        }
        let ghost mid = *self;
        proof {
            // skip stake only grows: the vote conditions of every block can only get closer to holding; nothing else moves
            assert(mid.voted_stakes.notar@ == pre.voted_stakes.notar@ && mid.voted_stakes.skip.0 >= pre.voted_stakes.skip.0);
            assert forall|g: BlockHash| pre.cond_votes(g) implies #[trigger] mid.cond_votes(g) by {
                let n = Self::map_stake(pre.voted_stakes.notar@, g);
                assert((n + mid.voted_stakes.skip.0) * 100 >= (n + pre.voted_stakes.skip.0) * 100) by (nonlinear_arith)
                    requires mid.voted_stakes.skip.0 >= pre.voted_stakes.skip.0 {}
            }
            assert forall|e: bool, g: BlockHash| pre.s2n_inv(e) && !pre.pending_safe_to_notar@.contains(g) implies #[trigger] mid.inv_b(g, e) by {
                assert(pre.inv_b(g, e));
                assert(mid.weakest(g) == pre.weakest(g));
                if mid.cond_votes(g) { assert(mid.weakest(g)); }
            }
            assert(pre.s2n_inv(false) ==> pre.s2n_inv(true)) by {
                if pre.s2n_inv(false) { assert forall|g: BlockHash| #[trigger] pre.inv_b(g, true) by { assert(pre.inv_b(g, false)); } }
            }
            assert forall|g: BlockHash| pre.s2n_inv(true) && #[trigger] mid.sent_safe_to_notar@.contains(g)
                implies mid.cond_votes(g) && mid.cond_parent(g) && !mid.own_none() by { assert(pre.inv_b(g, true)); }
        }
loop 0
        invariant
            mid.wf(), self.bounds_ok(),
            self.same_votes(&mid), self.voted_stakes == mid.voted_stakes, self.certificates == mid.certificates,
            self.parents == mid.parents, self.sent_safe_to_skip == mid.sent_safe_to_skip,
            slot == self.slot,
            mid.sent_safe_to_notar@.subset_of(self.sent_safe_to_notar@),
            forall|i: int| 0 <= i < votor_events@.len() ==> s2n_event_ok(mid.sent_safe_to_notar@, &*self, #[trigger] votor_events@[i]) && votor_events@[i] is SafeToNotar,
            events_distinct(votor_events@),
            // every waiting block already visited has been signalled if (with the new skip stake) its conditions hold
            verif_it.rest().no_duplicates(),
            forall|h: BlockHash| verif_it.rest().contains(h) ==> #[trigger] mid.pending_safe_to_notar@.contains(h),
            forall|h: BlockHash| #[trigger] mid.pending_safe_to_notar@.contains(h) && !verif_it.rest().contains(h)
                ==> self.sent_safe_to_notar@.contains(h) || !mid.spec_s2n(h),
            // the completeness invariant holds for every block that is not still ahead
            pre.pending_safe_to_notar@ == mid.pending_safe_to_notar@,
            forall|e: bool, g: BlockHash| pre.s2n_inv(e) && !verif_it.rest().contains(g) ==> #[trigger] self.inv_b(g, e),
            pre.s2n_inv(false) ==> pre.s2n_inv(true),
            forall|g: BlockHash| pre.s2n_inv(true) && #[trigger] self.sent_safe_to_notar@.contains(g)
                ==> self.cond_votes(g) && self.cond_parent(g) && !self.own_none(),
        ensures
            verif_it.rest().len() == 0,
        decreases verif_it.rest().len(),
before `let hash = match verif_it.next() { Some(x) => x, None => break };`
        let ghost rest0 = verif_it.rest();
after `let hash = match verif_it.next() { Some(x) => x, None => break };`
        proof {
            assert(self.spec_s2n(hash) == mid.spec_s2n(hash));
            assert(rest0[0] == hash && verif_it.rest() == rest0.skip(1));
            assert forall|a: int, b: int| 0 <= a < b < verif_it.rest().len() implies verif_it.rest()[a] != verif_it.rest()[b] by {
                assert(rest0[a + 1] != rest0[b + 1]);
            }
            assert forall|h: BlockHash| verif_it.rest().contains(h) implies #[trigger] mid.pending_safe_to_notar@.contains(h) by {
                let k = choose|k: int| 0 <= k < verif_it.rest().len() && verif_it.rest()[k] == h;
                assert(rest0[k + 1] == h);
                assert(rest0.contains(h));
            }
            assert forall|h: BlockHash| #[trigger] mid.pending_safe_to_notar@.contains(h) && !verif_it.rest().contains(h) && h != hash
                implies !rest0.contains(h) by {
                if rest0.contains(h) {
                    let k = choose|k: int| 0 <= k < rest0.len() && rest0[k] == h;
                    assert(k > 0);
                    assert(verif_it.rest()[k - 1] == h);
                }
            }
        }
before `match self.check_safe_to_notar(hash.clone()) {`
        let ghost bef = *self;
blockend `let hash = match verif_it.next() { Some(x) => x, None => break };`
        proof {
            assert forall|e: bool, g: BlockHash| pre.s2n_inv(e) && !verif_it.rest().contains(g) implies #[trigger] self.inv_b(g, e) by {
                if g == hash { assert(self.inv_b(hash, false)); }
                else { if rest0.contains(g) { let k = choose|k: int| 0 <= k < rest0.len() && rest0[k] == g; assert(k > 0); assert(verif_it.rest()[k - 1] == g); } assert(!rest0.contains(g)); assert(bef.inv_b(g, e)); }
            }
            assert forall|g: BlockHash| pre.s2n_inv(true) && #[trigger] self.sent_safe_to_notar@.contains(g)
                implies self.cond_votes(g) && self.cond_parent(g) && !self.own_none() by {
                if g == hash { assert(self.inv_b(hash, false)); } else { assert(bef.sent_safe_to_notar@.contains(g)); }
            }
        }
before `continue;`
        proof {
            assert forall|e: bool, g: BlockHash| pre.s2n_inv(e) && !verif_it.rest().contains(g) implies #[trigger] self.inv_b(g, e) by {
                if g != hash { if rest0.contains(g) { let k = choose|k: int| 0 <= k < rest0.len() && rest0[k] == g; assert(k > 0); assert(verif_it.rest()[k - 1] == g); } assert(!rest0.contains(g)); }
            }
        }
before `let total_skip_stake = self.voted_stakes.skip + self.voted_stakes.skip_fallback;`
        let ghost aft = *self;
        proof {
            assert forall|e: bool| pre.s2n_inv(e) implies aft.s2n_inv(e) by {
                assert forall|g: BlockHash| #[trigger] aft.inv_b(g, e) by { assert(!verif_it.rest().contains(g)); }
            }
        }
        proof {
            Self::lemma_wf_transfer(&mid, &*self, Pending::Nothing); self.lemma_counted_is_stored();
            // [C06.skip_vote_arriving_last_raises_every_waiting_signal] "raised as soon as all of its conditions hold, whichever of them - a
            // vote ... - arrives last": after a skip(-fallback) vote is counted, no block on the waiting list whose conditions hold is left
            // without its signal
            assert forall|h: BlockHash| #[trigger] mid.pending_safe_to_notar@.contains(h) && self.spec_s2n(h) implies self.sent_safe_to_notar@.contains(h) by {
                assert(!verif_it.rest().contains(h));
                assert(self.spec_s2n(h) == mid.spec_s2n(h));
            }
        }
after `let total_skip_stake = self.voted_stakes.skip + self.voted_stakes.skip_fallback;`
        proof { assert(total_skip_stake.0 == self.sum(self.votes.p_skip()) + self.sum(self.votes.p_skip_fb())); }
after `let sf_votes = self.votes.skip_fallback_votes();`
        proof {
            let n = self.nv();
            lemma_votes_from_idx(n, self.votes.p_skip(), |v: int| self.votes.skip@[v]->0, skip_votes@, sv_signer());
            lemma_votes_from_idx(n, self.votes.p_skip_fb(), |v: int| self.votes.skip_fallback@[v]->0, sf_votes@, sfv_signer());
            self.lemma_stakes_nonneg();
            lemma_sum_nonneg(self.stakes(), n, self.votes.p_skip());
            lemma_sum_nonneg(self.stakes(), n, self.votes.p_skip_fb());
            if self.sum(self.votes.p_skip()) > 0 { lemma_positive_sum_nonempty(self.stakes(), n, self.votes.p_skip()); }
            else { lemma_positive_sum_nonempty(self.stakes(), n, self.votes.p_skip_fb()); }
        }
before `(new_certs, votor_events, blocks_to_repair)`
        proof { assert forall|g: BlockHash, e: bool| #[trigger] self.inv_b(g, e) == aft.inv_b(g, e) by {}
                Self::lemma_wf_transfer(&mid, &*self, Pending::Nothing); if new_certs@.len() == 1 { assert(new_certs@[0].kind() == CertKind::Skip); } }
@*/
/*@ extract src/consensus/pool/slot_state.rs :: impl SlotState/fn count_notar_fallback_stake
props C03 C04
ret r
requires
        // [C03.vote_stored_before_counted]
        exists|v: int| 0 <= v < old(self).nv() && stake.0 == old(self).stakes()[v]
            && old(self).wf_pend(Pending::NotarFallback(v, *block_hash)) && old(self).votes.notar_fallback@[v]@.contains_key(*block_hash),
ensures
        // [C04.counted_once_per_class C03.counted_once_per_class]
        final(self).wf(),
        final(self).same_votes(old(self)),
        final(self).certificates == old(self).certificates,
        final(self).parents == old(self).parents,
        final(self).pending_safe_to_notar == old(self).pending_safe_to_notar,
        final(self).sent_safe_to_notar == old(self).sent_safe_to_notar,
        final(self).sent_safe_to_skip == old(self).sent_safe_to_skip,
        // (the completeness invariant of safe-to-notar does not read what this function changes)
        final(self).voted_stakes.notar == old(self).voted_stakes.notar && final(self).voted_stakes.skip == old(self).voted_stakes.skip,
        old(self).s2n_inv(false) ==> final(self).s2n_inv(false),
        old(self).s2n_inv(true) ==> final(self).s2n_inv(true),
        r.1@.len() == 0 && r.2@.len() == 0,
        // [C03.notar_fallback_cert_exactly_when_due]
        r.0@.len() <= 1,
        (r.0@.len() == 1) <==> (at_least_pct(final(self).sum(final(self).votes.p_notar(*block_hash)) + final(self).sum(final(self).votes.p_nf(*block_hash)), final(self).total(), 60)
            && !old(self).has_nf_cert(*block_hash)),
        // [C03.notar_fallback_cert_signers_are_the_stored_votes]
        forall|i: int| 0 <= i < r.0@.len() ==> (#[trigger] r.0@[i]).kind() == CertKind::NotarFallback && final(self).cert_ok(r.0@[i])
            && r.0@[i]->NotarFallback_0.block_hash == *block_hash,
        has_kind(r.0@, CertKind::NotarFallback) <==> r.0@.len() == 1,
before `let nf_stake = {`
        let ghost pre = *self;
        let ghost pv = choose|v: int| 0 <= v < pre.nv() && stake.0 == pre.stakes()[v]
            && pre.wf_pend(Pending::NotarFallback(v, *block_hash)) && pre.votes.notar_fallback@[v]@.contains_key(*block_hash);
        proof { pre.lemma_room_for_pending(Pending::NotarFallback(pv, *block_hash)); }
before `let notar_stake = self`
        proof {
            assert forall|g: BlockHash, e: bool| #[trigger] self.inv_b(g, e) == pre.inv_b(g, e) by {}
            assert forall|e: bool| pre.s2n_inv(e) implies self.s2n_inv(e) by { assert forall|g: BlockHash| #[trigger] self.inv_b(g, e) by { assert(pre.inv_b(g, e)); } }
            Self::lemma_wf_after_count(&pre, &*self, Pending::NotarFallback(pv, *block_hash));
            self.lemma_counted_is_stored();
            self.lemma_bounds(Pending::Nothing);
        }
after `let nf_votes = self.votes.notar_fallback_votes(block_hash);`
        proof { self.lemma_nf_cert_votes(*block_hash, notar_votes@, nf_votes@); }
before `(new_certs, SmallVec::new(), SmallVec::new())`
        proof { if new_certs@.len() == 1 { assert(new_certs@[0].kind() == CertKind::NotarFallback); } }
@*/

/*@ extract src/consensus/pool/slot_state.rs :: impl SlotState/fn count_notar_stake
props C03 C04 C06
prefix #[verifier::rlimit(60)] #[verifier::spinoff_prover]
ret r
requires
        slot == old(self).slot,
        // [C03.vote_stored_before_counted C06.vote_stored_before_counted]
        exists|v: int| 0 <= v < old(self).nv() && stake.0 == old(self).stakes()[v]
            && old(self).wf_pend(Pending::Notar(v))
            && (old(self).votes.notar@[v] matches Some(x) && x.block_hash == *block_hash),
ensures
        // [C04.counted_once_per_class C03.counted_once_per_class]
        final(self).wf(),
        final(self).same_votes(old(self)),
        final(self).certificates == old(self).certificates,
        final(self).parents == old(self).parents,
        // [C03.notar_certs_exactly_when_due]
        kinds_distinct(r.0@),
        has_kind(r.0@, CertKind::NotarFallback) <==> (at_least_pct(final(self).sum(final(self).votes.p_notar(*block_hash)) + final(self).sum(final(self).votes.p_nf(*block_hash)), final(self).total(), 60)
            && !old(self).has_nf_cert(*block_hash)),
        has_kind(r.0@, CertKind::Notar) <==> (at_least_pct(final(self).sum(final(self).votes.p_notar(*block_hash)), final(self).total(), 60)
            && old(self).certificates.notar is None),
        has_kind(r.0@, CertKind::FastFinal) <==> (at_least_pct(final(self).sum(final(self).votes.p_notar(*block_hash)), final(self).total(), 80)
            && old(self).certificates.fast_finalize is None),
        // [C03.notar_cert_signers_are_the_stored_votes]
        forall|i: int| 0 <= i < r.0@.len() ==> final(self).cert_ok(#[trigger] r.0@[i]) && r.0@[i].spec_block_hash() == Some(*block_hash)
            && (r.0@[i].kind() == CertKind::Notar || r.0@[i].kind() == CertKind::NotarFallback || r.0@[i].kind() == CertKind::FastFinal),
        // [C06.events_only_when_allowed_and_once C05.fallback_signal_only_after_the_own_vote_and_the_condition] (C05: what Votor answers with a fallback vote)
        events_ok(old(self), final(self), r.1@),
        // [C06.completeness_invariant_is_kept] (a notarize vote arriving last)
        old(self).s2n_inv(false) ==> final(self).s2n_inv(false),
        old(self).s2n_inv(true) ==> final(self).s2n_inv(true),
before `let notar_stake = {`
        let ghost pre = *self;
        let ghost pv = choose|v: int| 0 <= v < pre.nv() && stake.0 == pre.stakes()[v]
            && pre.wf_pend(Pending::Notar(v))
            && (pre.votes.notar@[v] matches Some(x) && x.block_hash == *block_hash);
        proof { pre.lemma_room_for_pending(Pending::Notar(pv)); }
before `if !self.sent_safe_to_notar.contains(block_hash) {`
        proof {
            Self::lemma_wf_after_count(&pre, &*self, Pending::Notar(pv));
            self.lemma_counted_is_stored();
            self.lemma_bounds(Pending::Nothing);
        }
        let ghost mid = *self;
        proof {
            // counting touches the counters of this block only; its conditions can only get closer to holding
            assert(Self::map_stake(mid.voted_stakes.notar@, *block_hash) == Self::map_stake(pre.voted_stakes.notar@, *block_hash) + stake.0);
            assert forall|g: BlockHash| g != *block_hash implies Self::map_stake(mid.voted_stakes.notar@, g) == Self::map_stake(pre.voted_stakes.notar@, g) by {}
            Self::lemma_inv_after_notar_count(&pre, &mid, *block_hash, stake.0 as int);
        }
before `if !self.sent_safe_to_skip#0`
        let ghost aft = *self;
        proof {
            if pre.s2n_inv(false) { Self::lemma_inv_after_examining(&pre, &mid, &aft, *block_hash, false); }
            if pre.s2n_inv(true) { Self::lemma_inv_after_examining(&pre, &mid, &aft, *block_hash, true); }
        }
blockafter `self.sent_safe_to_skip = true;`
        proof { Self::lemma_wf_transfer(&mid, &*self, Pending::Nothing); self.lemma_counted_is_stored(); self.lemma_bounds(Pending::Nothing); }
        let ghost mid2 = *self;
after `let nf_votes = self.votes.notar_fallback_votes(block_hash);`
        proof { self.lemma_nf_cert_votes(*block_hash, notar_votes@, nf_votes@); }
before `if self.epoch_info.epoch_info().is_quorum(notar_stake) && self.certificates.notar.is_none()`
        let ghost s1 = new_certs@;
        proof {
            assert(s1.len() <= 1);
            assert(s1.len() == 1 ==> s1[0].kind() == CertKind::NotarFallback);
        }
before `(new_certs, votor_events, blocks_to_repair)`
        let ghost s3 = new_certs@;
        // the certificates before the fast-finalization check (no snapshot is taken there: a hint between the two `if`s would not
        // survive their being chained with `else`)
        let ghost s2 = if s3.len() > s1.len() && s3.last().kind() == CertKind::FastFinal { s3.drop_last() } else { s3 };
        proof {
            assert(s1.len() <= s2.len() <= s1.len() + 1);
            assert(forall|i: int| 0 <= i < s1.len() ==> s2[i] == s1[i]);
            assert(s2.len() == s1.len() + 1 ==> s2[s1.len() as int].kind() == CertKind::Notar);
            assert forall|g: BlockHash, e: bool| #[trigger] self.inv_b(g, e) == aft.inv_b(g, e) by {}
            assert(s2.len() <= s3.len() <= s2.len() + 1);
            assert(forall|i: int| 0 <= i < s2.len() ==> s3[i] == s2[i]);
            assert(s3.len() == s2.len() + 1 ==> s3[s2.len() as int].kind() == CertKind::FastFinal);
            if s1.len() == 1 { assert(s3[0].kind() == CertKind::NotarFallback); }
            if s2.len() == s1.len() + 1 { assert(s3[s1.len() as int].kind() == CertKind::Notar); }
            assert(has_kind(s3, CertKind::NotarFallback) <==> s1.len() == 1);
            assert(has_kind(s3, CertKind::Notar) <==> s2.len() == s1.len() + 1);
            assert(has_kind(s3, CertKind::FastFinal) <==> s3.len() == s2.len() + 1);
            assert(kinds_distinct(s3));
        }
after `let votes = self.votes.notar_votes(block_hash);#0`
        proof { self.lemma_notar_cert_votes(*block_hash, votes@); }
after `let votes = self.votes.notar_votes(block_hash);#1`
        proof { self.lemma_notar_cert_votes(*block_hash, votes@); }
@*/
/*@ extract src/consensus/pool/slot_state.rs :: impl SlotState/fn add_vote
props C03 C04 C06
prefix #[verifier::rlimit(60)] #[verifier::spinoff_prover]
ret r
rewrite[R4] `for hash in self.pending_safe_to_notar.clone() {` => `let mut verif_it = self.pending_safe_to_notar.clone().into_iter(); loop { let hash = match verif_it.next() { Some(x) => x, None => break };`
requires
        old(self).wf(),
        old(self).admissible(vote),
        voter_stake.0 == old(self).stakes()[vote.spec_signer().0 as int],
ensures
        // [C04.counted_once_per_class C03.counted_once_per_class]
        final(self).wf(),
        // [C04.accepted_vote_is_stored]
        final(self).votes.vv(vote.spec_signer().0 as int) == vv_add(old(self).votes.vv(vote.spec_signer().0 as int), vote.spec_kind()),
        forall|u: int| 0 <= u < old(self).nv() && u != vote.spec_signer().0 ==> #[trigger] final(self).votes.vv(u) == old(self).votes.vv(u),
        final(self).certificates == old(self).certificates,
        final(self).parents == old(self).parents,
        final(self).epoch_info == old(self).epoch_info,
        final(self).slot == old(self).slot,
        // [C03.certs_exactly_when_due]
        kinds_distinct(r.0@),
        has_kind(r.0@, CertKind::Notar) <==> Self::cert_due(old(self), final(self), vote, CertKind::Notar),
        has_kind(r.0@, CertKind::NotarFallback) <==> Self::cert_due(old(self), final(self), vote, CertKind::NotarFallback),
        has_kind(r.0@, CertKind::Skip) <==> Self::cert_due(old(self), final(self), vote, CertKind::Skip),
        has_kind(r.0@, CertKind::FastFinal) <==> Self::cert_due(old(self), final(self), vote, CertKind::FastFinal),
        has_kind(r.0@, CertKind::Final) <==> Self::cert_due(old(self), final(self), vote, CertKind::Final),
        // [C03.cert_signers_are_the_stored_votes]
        forall|i: int| 0 <= i < r.0@.len() ==> final(self).cert_ok(#[trigger] r.0@[i]),
        // [C06.events_only_when_allowed_and_once C05.fallback_signal_only_after_the_own_vote_and_the_condition] (C05: what Votor answers with a fallback vote)
        events_ok(old(self), final(self), r.1@),
        // [C06.completeness_invariant_is_kept] THE "as soon as" CLAUSE: whichever vote arrives - another validator's notarize or skip
        // vote, or the node's own - afterwards every block whose conditions hold has had its signal, and every block that still
        // lacks votes, or only the own vote, is on the list that is re-examined when those arrive
        old(self).s2n_inv(false) ==> final(self).s2n_inv(false),
before `let slot = vote.slot();`
        let ghost pre = *self;
        let ghost gvote = vote;
        proof { pre.lemma_bounds(Pending::Nothing); }
after `self.votes.notar[v] = Some(notar_vote);`
        proof { Self::lemma_wf_after_store(&pre, &*self, gvote); if pre.s2n_inv(false) { Self::lemma_inv_after_store(&pre, &*self, gvote); } }
after `let res = self.votes.notar_fallback[v].insert(block_hash.clone(), nf_vote);`
        proof { lemma_c04_expand(pre.votes.vv(gvote.spec_signer().0 as int), gvote.spec_kind()); Self::lemma_wf_after_store(&pre, &*self, gvote);
                if pre.s2n_inv(false) { Self::lemma_inv_after_store(&pre, &*self, gvote); } }
before `self.votes.skip[v] = Some(skip_vote);`
        proof { pre.lemma_room_for_skip_in_nos(gvote); }
before `self.count_skip_stake(slot, voter_stake, false)`
        proof { Self::lemma_wf_after_store(&pre, &*self, gvote); if pre.s2n_inv(false) { Self::lemma_inv_after_store(&pre, &*self, gvote); } }
after `self.votes.skip_fallback[v] = Some(sf_vote);`
        proof { Self::lemma_wf_after_store(&pre, &*self, gvote); if pre.s2n_inv(false) { Self::lemma_inv_after_store(&pre, &*self, gvote); } }
after `self.votes.finalize[v] = Some(final_vote);`
        proof { Self::lemma_wf_after_store(&pre, &*self, gvote); if pre.s2n_inv(false) { Self::lemma_inv_after_store(&pre, &*self, gvote); } }
before `if voter == self.epoch_info.own_id()`
        proof {
            self.lemma_bounds(Pending::Nothing);
        }
        let ghost mid = *self;
        let ghost is_own = gvote.spec_signer() == pre.epoch_info.own_id;
        proof {
            // [C06.completeness_invariant_is_kept] after storing and counting the vote
            assert(pre.s2n_inv(false) ==> mid.s2n_inv(is_own));
        }
loop 0
        invariant
            mid.wf(), self.bounds_ok(),
            self.same_votes(&mid), self.voted_stakes == mid.voted_stakes, self.certificates == mid.certificates,
            self.parents == mid.parents, self.sent_safe_to_skip == mid.sent_safe_to_skip,
            slot == self.slot,
            pre.sent_safe_to_notar@.subset_of(mid.sent_safe_to_notar@),
            mid.sent_safe_to_notar@.subset_of(self.sent_safe_to_notar@),
            forall|i: int| 0 <= i < votor_events@.len() ==> s2n_event_ok(pre.sent_safe_to_notar@, &*self, #[trigger] votor_events@[i]) && s2s_event_ok(&pre, &*self, votor_events@[i]),
            events_distinct(votor_events@),
            // every waiting block already visited has been signalled if (now that the own vote is in) its conditions hold
            verif_it.rest().no_duplicates(),
            forall|h: BlockHash| verif_it.rest().contains(h) ==> #[trigger] mid.pending_safe_to_notar@.contains(h),
            forall|h: BlockHash| #[trigger] mid.pending_safe_to_notar@.contains(h) && !verif_it.rest().contains(h)
                ==> self.sent_safe_to_notar@.contains(h) || !mid.spec_s2n(h),
            // the completeness invariant: in full for every block no longer ahead, in its `e` form for the others
            pre.s2n_inv(false) ==> mid.s2n_inv(true),
            forall|g: BlockHash| pre.s2n_inv(false) && !verif_it.rest().contains(g) ==> #[trigger] self.inv_b(g, false),
            forall|g: BlockHash| pre.s2n_inv(false) && verif_it.rest().contains(g) ==> #[trigger] self.inv_b(g, true),
        ensures
            verif_it.rest().len() == 0,
        decreases verif_it.rest().len(),
before `let hash = match verif_it.next() { Some(x) => x, None => break };`
        let ghost rest0 = verif_it.rest();
after `let hash = match verif_it.next() { Some(x) => x, None => break };`
        proof {
            assert(self.spec_s2n(hash) == mid.spec_s2n(hash));
            assert(rest0[0] == hash && verif_it.rest() == rest0.skip(1));
            assert forall|a: int, b: int| 0 <= a < b < verif_it.rest().len() implies verif_it.rest()[a] != verif_it.rest()[b] by {
                assert(rest0[a + 1] != rest0[b + 1]);
            }
            assert forall|h: BlockHash| verif_it.rest().contains(h) implies #[trigger] mid.pending_safe_to_notar@.contains(h) by {
                let k = choose|k: int| 0 <= k < verif_it.rest().len() && verif_it.rest()[k] == h;
                assert(rest0[k + 1] == h);
                assert(rest0.contains(h));
            }
            // a waiting block that is no longer ahead was either behind already or is the one visited now
            assert forall|h: BlockHash| #[trigger] mid.pending_safe_to_notar@.contains(h) && !verif_it.rest().contains(h) && h != hash
                implies !rest0.contains(h) by {
                if rest0.contains(h) {
                    let k = choose|k: int| 0 <= k < rest0.len() && rest0[k] == h;
                    assert(k > 0);
                    assert(verif_it.rest()[k - 1] == h);
                }
            }
        }
before `(certs_created, votor_events, blocks_to_repair)`
        proof {
            // (when the vote is not the node's own, nothing is left to re-examine)
            assert(pre.s2n_inv(false) && !is_own ==> self.s2n_inv(false));
            Self::lemma_wf_transfer(&mid, &*self, Pending::Nothing);
            // [C06.own_vote_arriving_last_raises_every_waiting_signal] "raised as soon as all of its conditions hold, whichever of them
            // ... the node's own vote ... arrives last": once the own vote is stored and counted, no block on the waiting list whose
            // conditions hold is left without its signal
            assert(gvote.spec_signer() == pre.epoch_info.own_id ==> forall|h: BlockHash| #[trigger] mid.pending_safe_to_notar@.contains(h) && self.spec_s2n(h)
                ==> self.sent_safe_to_notar@.contains(h));
        }
after `let mut verif_it = self.pending_safe_to_notar.clone().into_iter();`
        proof {
            if pre.s2n_inv(false) {
                assert(mid.s2n_inv(true));
                assert forall|g: BlockHash| !verif_it.rest().contains(g) implies #[trigger] self.inv_b(g, false) by {
                    assert(mid.inv_b(g, true));
                    assert(verif_it.rest().to_set().contains(g) == mid.pending_safe_to_notar@.contains(g));
                    assert(!mid.pending_safe_to_notar@.contains(g));
                }
                assert forall|g: BlockHash| verif_it.rest().contains(g) implies #[trigger] self.inv_b(g, true) by { assert(mid.inv_b(g, true)); }
            }
        }
before `match self.check_safe_to_notar(hash.clone()) {`
        let ghost bef = *self;
blockend `let hash = match verif_it.next() { Some(x) => x, None => break };`
        proof {
            if pre.s2n_inv(false) {
                assert(rest0.contains(hash));
                assert(bef.inv_b(hash, true));
                assert forall|g: BlockHash| !verif_it.rest().contains(g) implies #[trigger] self.inv_b(g, false) by {
                    if g == hash { assert(self.inv_b(hash, false)); }
                    else { if rest0.contains(g) { let k = choose|k: int| 0 <= k < rest0.len() && rest0[k] == g; assert(k > 0); assert(verif_it.rest()[k - 1] == g); } assert(!rest0.contains(g)); assert(bef.inv_b(g, false)); }
                }
                assert forall|g: BlockHash| verif_it.rest().contains(g) implies #[trigger] self.inv_b(g, true) by {
                    let k = choose|k: int| 0 <= k < verif_it.rest().len() && verif_it.rest()[k] == g;
                    assert(rest0[k + 1] == g); assert(rest0.contains(g)); assert(g != hash);
                    assert(bef.inv_b(g, true));
                }
            }
        }
before `continue;`
        proof {
            if pre.s2n_inv(false) {
                assert(rest0.contains(hash));
                assert(self.inv_b(hash, true));
                assert forall|g: BlockHash| !verif_it.rest().contains(g) implies #[trigger] self.inv_b(g, false) by {
                    if g != hash { if rest0.contains(g) { let k = choose|k: int| 0 <= k < rest0.len() && rest0[k] == g; assert(k > 0); assert(verif_it.rest()[k - 1] == g); } assert(!rest0.contains(g)); }
                }
                assert forall|g: BlockHash| verif_it.rest().contains(g) implies #[trigger] self.inv_b(g, true) by {
                    let k = choose|k: int| 0 <= k < verif_it.rest().len() && verif_it.rest()[k] == g;
                    assert(rest0[k + 1] == g); assert(rest0.contains(g));
                }
            }
        }
blockend `let mut verif_it = self.pending_safe_to_notar.clone().into_iter();`
        proof {
            if pre.s2n_inv(false) {
                assert forall|g: BlockHash| #[trigger] self.inv_b(g, false) by { assert(!verif_it.rest().contains(g)); }
                assert(self.s2n_inv(false));
            }
            assert forall|h: BlockHash| #[trigger] mid.pending_safe_to_notar@.contains(h) && self.spec_s2n(h) implies self.sent_safe_to_notar@.contains(h) by {
                assert(!verif_it.rest().contains(h));
                assert(self.spec_s2n(h) == mid.spec_s2n(h));
            }
        }
@*/
/*@ extract src/consensus/pool/slot_state.rs :: impl SlotState/fn notify_parent_known
props C06
ensures
        // [C06.parent_known_recorded]
        final(self).parents@ == (if old(self).parents@.contains_key(*hash) { old(self).parents@ } else { old(self).parents@.insert(*hash, ParentStatus::Known) }),
        final(self).votes == old(self).votes,
        final(self).voted_stakes == old(self).voted_stakes,
        final(self).certificates == old(self).certificates,
        final(self).pending_safe_to_notar == old(self).pending_safe_to_notar,
        final(self).sent_safe_to_notar == old(self).sent_safe_to_notar,
        final(self).sent_safe_to_skip == old(self).sent_safe_to_skip,
        final(self).slot == old(self).slot,
        final(self).epoch_info == old(self).epoch_info,
        // [C06.completeness_invariant_is_kept] (a block that is merely known is not yet eligible)
        old(self).s2n_inv(false) ==> final(self).s2n_inv(false),
before `self.parents .get_or_insert_with(hash,`
        let ghost pre = *self;
blockend `self.parents .get_or_insert_with(hash,`
        proof {
            if pre.s2n_inv(false) {
                assert forall|g: BlockHash| #[trigger] self.inv_b(g, false) by {
                    assert(pre.inv_b(g, false));
                    assert(self.cond_parent(g) == pre.cond_parent(g));
                }
            }
        }
closure 0
        ret s: ParentStatus
        ensures s == ParentStatus::Known
@*/

/*@ extract src/consensus/pool/slot_state.rs :: impl SlotState/fn notify_parent_certified
props C06
ret r
requires
        old(self).wf(),
        // [C06.parent_registered_before_certified]
        old(self).parents@.contains_key(hash),
ensures
        final(self).parents@ == old(self).parents@.insert(hash, ParentStatus::Certified),
        final(self).votes == old(self).votes,
        final(self).voted_stakes == old(self).voted_stakes,
        final(self).certificates == old(self).certificates,
        final(self).sent_safe_to_skip == old(self).sent_safe_to_skip,
        final(self).slot == old(self).slot,
        final(self).epoch_info == old(self).epoch_info,
        old(self).sent_safe_to_notar@.subset_of(final(self).sent_safe_to_notar@),
        // [C06.events_only_when_allowed_and_once C05.fallback_signal_only_after_the_own_vote_and_the_condition] (C05: what Votor answers with a fallback vote)
        r matches Some(Either::Left(e)) ==> e == PoolEvent::SafeToNotar((final(self).slot, hash))
            && !old(self).sent_safe_to_notar@.contains(hash) && final(self).sent_safe_to_notar@.contains(hash) && final(self).spec_s2n(hash),
        // [C06.s2n_as_soon_as_parent_certified]
        (final(self).spec_s2n(hash) && !old(self).sent_safe_to_notar@.contains(hash)) ==> r matches Some(Either::Left(_)),
        r matches Some(Either::Right(id)) ==> id == (final(self).slot, hash),
        // [C06.completeness_invariant_is_kept] (the parent's certificate arriving last)
        old(self).s2n_inv(false) ==> final(self).s2n_inv(false),
before `let Some(parent_info) = self.parents.get_mut(&hash)`
        let ghost pre = *self;
        proof { self.lemma_bounds(Pending::Nothing); }
after `*parent_info = ParentStatus::Certified;`
        let ghost mid = *self;
        proof {
            if pre.s2n_inv(false) {
                assert forall|g: BlockHash| g != hash implies #[trigger] mid.inv_b(g, false) by {
                    assert(pre.inv_b(g, false));
                    assert(mid.cond_parent(g) == pre.cond_parent(g));
                }
                assert(pre.inv_b(hash, false));
            }
        }
@*/

/*@ extract src/consensus/pool/slot_state.rs :: impl SlotState/fn add_cert
props C03 C06
ensures
        // [C03.cert_recorded_at_most_once_per_type]
        match cert {
            Cert::Notar(n) => final(self).certificates.notar == Some(n) && final(self).certificates.notar_fallback == old(self).certificates.notar_fallback
                && final(self).certificates.skip == old(self).certificates.skip && final(self).certificates.fast_finalize == old(self).certificates.fast_finalize
                && final(self).certificates.finalize == old(self).certificates.finalize,
            Cert::NotarFallback(n) => final(self).certificates.notar_fallback@ == (if old(self).has_nf_cert(n.block_hash) { old(self).certificates.notar_fallback@ } else { old(self).certificates.notar_fallback@.push(n) })
                && final(self).certificates.notar == old(self).certificates.notar
                && final(self).certificates.skip == old(self).certificates.skip && final(self).certificates.fast_finalize == old(self).certificates.fast_finalize
                && final(self).certificates.finalize == old(self).certificates.finalize,
            Cert::Skip(n) => final(self).certificates.skip == Some(n) && final(self).certificates.notar_fallback == old(self).certificates.notar_fallback
                && final(self).certificates.notar == old(self).certificates.notar && final(self).certificates.fast_finalize == old(self).certificates.fast_finalize
                && final(self).certificates.finalize == old(self).certificates.finalize,
            Cert::FastFinal(n) => final(self).certificates.fast_finalize == Some(n) && final(self).certificates.notar_fallback == old(self).certificates.notar_fallback
                && final(self).certificates.skip == old(self).certificates.skip && final(self).certificates.notar == old(self).certificates.notar
                && final(self).certificates.finalize == old(self).certificates.finalize,
            Cert::Final(n) => final(self).certificates.finalize == Some(n) && final(self).certificates.notar_fallback == old(self).certificates.notar_fallback
                && final(self).certificates.skip == old(self).certificates.skip && final(self).certificates.fast_finalize == old(self).certificates.fast_finalize
                && final(self).certificates.notar == old(self).certificates.notar,
        },
        final(self).votes == old(self).votes,
        final(self).voted_stakes == old(self).voted_stakes,
        final(self).parents == old(self).parents,
        final(self).pending_safe_to_notar == old(self).pending_safe_to_notar,
        final(self).sent_safe_to_notar == old(self).sent_safe_to_notar,
        final(self).sent_safe_to_skip == old(self).sent_safe_to_skip,
        final(self).slot == old(self).slot,
        final(self).epoch_info == old(self).epoch_info,
@*/
}

// `vec![x; n]` (R9): n copies of x.  TRUSTED std semantics, named through two wrappers.
#[verifier::external_body]
pub fn verif_vec_none<T>(n: usize) -> (r: Vec<Option<T>>)
    ensures r@.len() == n, forall|i: int| 0 <= i < n ==> (#[trigger] r@[i]) is None
{ unimplemented!() }
#[verifier::external_body]
pub fn verif_vec_empty_maps<K, V>(n: usize) -> (r: Vec<BTreeMap<K, V>>)
    ensures r@.len() == n, forall|i: int| 0 <= i < n ==> (#[trigger] r@[i])@ == Map::<K, V>::empty()
{ unimplemented!() }
// #[derive(Default)] on SlotVotedStake / SlotCertificates: TRUSTED to be all-zero / all-empty.
impl SlotVotedStake {
    #[verifier::external_body]
    pub fn default() -> (r: SlotVotedStake)
        ensures r.notar@ == Map::<BlockHash, Stake>::empty(), r.notar_fallback@ == Map::<BlockHash, Stake>::empty(),
            r.skip.0 == 0, r.skip_fallback.0 == 0, r.finalize.0 == 0, r.notar_or_skip.0 == 0, r.top_notar.0 == 0
    { unimplemented!() }
}
impl SlotCertificates {
    #[verifier::external_body]
    pub fn default() -> (r: SlotCertificates)
        ensures r.notar is None, r.notar_fallback@.len() == 0, r.skip is None, r.fast_finalize is None, r.finalize is None
    { unimplemented!() }
}
impl SlotVotes {
/*@ extract src/consensus/pool/slot_state.rs :: impl SlotVotes/fn new
props C04 C03
ret r
rewrite*[R9] `vec![None; num_validators]` => `verif_vec_none(num_validators)`
rewrite[R9] `vec![BTreeMap::new(); num_validators]` => `verif_vec_empty_maps(num_validators)`
ensures
        // [C04.fresh_slot_holds_no_votes]
        r.shape(num_validators as int),
        forall|v: int| 0 <= v < num_validators ==> (#[trigger] r.vv(v)) == (VV { notar: None, nf: Set::<BlockHash>::empty(), skip: false, skip_fb: false, fin: false }),
@*/
}
impl SlotState {
/*@ extract src/consensus/pool/slot_state.rs :: impl SlotState/fn new
props C04 C03 C06
ret r
ensures
        // [C04.fresh_slot_state_is_empty_and_well_formed C03.fresh_slot_state_is_empty_and_well_formed C06.fresh_slot_state_is_empty_and_well_formed]
        // what the pool unit assumes of the state a slot gets on first use (its axiom_fresh_slot_state)
        r.slot == slot && r.epoch_info == epoch_info,
        r.votes.shape(r.nv()),
        forall|v: int| 0 <= v < r.nv() ==> (#[trigger] r.votes.vv(v)) == (VV { notar: None, nf: Set::<BlockHash>::empty(), skip: false, skip_fb: false, fin: false }),
        r.certificates.notar is None && r.certificates.skip is None && r.certificates.fast_finalize is None
            && r.certificates.finalize is None && r.certificates.notar_fallback@.len() == 0,
        r.parents@ == Map::<BlockHash, ParentStatus>::empty(),
        r.voted_stakes.notar@ == Map::<BlockHash, Stake>::empty() && r.voted_stakes.notar_fallback@ == Map::<BlockHash, Stake>::empty()
            && r.voted_stakes.skip.0 == 0 && r.voted_stakes.skip_fallback.0 == 0 && r.voted_stakes.finalize.0 == 0
            && r.voted_stakes.notar_or_skip.0 == 0 && r.voted_stakes.top_notar.0 == 0,
        r.sent_safe_to_notar@ == Set::<BlockHash>::empty() && r.pending_safe_to_notar@ == Set::<BlockHash>::empty() && !r.sent_safe_to_skip,
        // (with SlotState::lemma_wf_of_an_empty_state: such a state is well formed whenever the epoch is)
        r.wf_epoch() ==> r.s2n_inv(false),
@*/
}
// what the pool assumes of a fresh slot state, from the postcondition of the real SlotState::new
pub proof fn theorem_fresh_slot_state_is_well_formed(r: &SlotState)
    requires
        r.votes.shape(r.nv()),
        forall|v: int| 0 <= v < r.nv() ==> (#[trigger] r.votes.vv(v)) == (VV { notar: None, nf: Set::<BlockHash>::empty(), skip: false, skip_fb: false, fin: false }),
        r.voted_stakes.notar@ == Map::<BlockHash, Stake>::empty() && r.voted_stakes.notar_fallback@ == Map::<BlockHash, Stake>::empty()
            && r.voted_stakes.skip.0 == 0 && r.voted_stakes.skip_fallback.0 == 0 && r.voted_stakes.finalize.0 == 0
            && r.voted_stakes.notar_or_skip.0 == 0 && r.voted_stakes.top_notar.0 == 0,
    ensures
        // [C04.fresh_slot_state_is_empty_and_well_formed C03.fresh_slot_state_is_empty_and_well_formed]
        r.wf_epoch() ==> r.wf(),
{
    if r.wf_epoch() { SlotState::lemma_wf_of_an_empty_state(r); }
}
impl SlotState {

}
impl SlotVotes {
/*@ extract src/consensus/pool/slot_state.rs :: impl SlotVotes/fn skip_votes
as skip_votes_body
props C03
ret r
rewrite[R4] `self.skip.iter().filter_map(Clone::clone).collect()` => `let mut verif_out: Vec<SkipVote> = Vec::new(); let mut verif_i: usize = 0; while verif_i < self.skip.len() { if let Some(verif_x) = self.skip[verif_i].clone() { verif_out.push(verif_x); } verif_i += 1; } verif_out`
ensures
        // [C03.vote_helpers_return_the_stored_votes_in_index_order] (the contract ASSUMED for `skip_votes` in spec.rs, proved here on the real body)
        r@.len() == idx_where(self.skip@.len() as int, self.p_skip()).len(),
        forall|i: int| 0 <= i < r@.len() ==> Some(#[trigger] r@[i]) == self.skip@[idx_where(self.skip@.len() as int, self.p_skip())[i]],
loop 0
        invariant
            verif_i <= self.skip@.len(),
            verif_out@.len() == idx_where(verif_i as int, self.p_skip()).len(),
            forall|i: int| 0 <= i < verif_out@.len() ==> Some(#[trigger] verif_out@[i]) == self.skip@[idx_where(verif_i as int, self.p_skip())[i]],
        decreases self.skip@.len() - verif_i,
@*/
/*@ extract src/consensus/pool/slot_state.rs :: impl SlotVotes/fn skip_fallback_votes
as skip_fallback_votes_body
props C03
ret r
rewrite[R4] `self.skip_fallback.iter().filter_map(Clone::clone).collect()` => `let mut verif_out: Vec<SkipFallbackVote> = Vec::new(); let mut verif_i: usize = 0; while verif_i < self.skip_fallback.len() { if let Some(verif_x) = self.skip_fallback[verif_i].clone() { verif_out.push(verif_x); } verif_i += 1; } verif_out`
ensures
        // [C03.vote_helpers_return_the_stored_votes_in_index_order] (the contract ASSUMED for `skip_fallback_votes` in spec.rs, proved here on the real body)
        r@.len() == idx_where(self.skip_fallback@.len() as int, self.p_skip_fb()).len(),
        forall|i: int| 0 <= i < r@.len() ==> Some(#[trigger] r@[i]) == self.skip_fallback@[idx_where(self.skip_fallback@.len() as int, self.p_skip_fb())[i]],
loop 0
        invariant
            verif_i <= self.skip_fallback@.len(),
            verif_out@.len() == idx_where(verif_i as int, self.p_skip_fb()).len(),
            forall|i: int| 0 <= i < verif_out@.len() ==> Some(#[trigger] verif_out@[i]) == self.skip_fallback@[idx_where(verif_i as int, self.p_skip_fb())[i]],
        decreases self.skip_fallback@.len() - verif_i,
@*/
/*@ extract src/consensus/pool/slot_state.rs :: impl SlotVotes/fn final_votes
as final_votes_body
props C03
ret r
rewrite[R4] `self.finalize.iter().filter_map(Clone::clone).collect()` => `let mut verif_out: Vec<FinalVote> = Vec::new(); let mut verif_i: usize = 0; while verif_i < self.finalize.len() { if let Some(verif_x) = self.finalize[verif_i].clone() { verif_out.push(verif_x); } verif_i += 1; } verif_out`
ensures
        // [C03.vote_helpers_return_the_stored_votes_in_index_order] (the contract ASSUMED for `final_votes` in spec.rs, proved here on the real body)
        r@.len() == idx_where(self.finalize@.len() as int, self.p_final()).len(),
        forall|i: int| 0 <= i < r@.len() ==> Some(#[trigger] r@[i]) == self.finalize@[idx_where(self.finalize@.len() as int, self.p_final())[i]],
loop 0
        invariant
            verif_i <= self.finalize@.len(),
            verif_out@.len() == idx_where(verif_i as int, self.p_final()).len(),
            forall|i: int| 0 <= i < verif_out@.len() ==> Some(#[trigger] verif_out@[i]) == self.finalize@[idx_where(verif_i as int, self.p_final())[i]],
        decreases self.finalize@.len() - verif_i,
@*/
}

impl SlotVotes {
/*@ extract src/consensus/pool/slot_state.rs :: impl SlotVotes/fn notar_fallback_votes
as notar_fallback_votes_body
props C03
ret r
rewrite[R4] `self.notar_fallback .iter() .filter_map(|m| m.get(block_hash).cloned()) .collect()` => `let mut verif_out: Vec<NotarFallbackVote> = Vec::new(); let mut verif_i: usize = 0; while verif_i < self.notar_fallback.len() { let m = &self.notar_fallback[verif_i]; if let Some(verif_x) = m.get(block_hash).cloned() { verif_out.push(verif_x); } verif_i += 1; } verif_out`
ensures
        // [C03.vote_helpers_return_the_stored_votes_in_index_order]
        r@.len() == idx_where(self.notar_fallback@.len() as int, self.p_nf(*block_hash)).len(),
        forall|i: int| 0 <= i < r@.len() ==> #[trigger] r@[i] == self.notar_fallback@[idx_where(self.notar_fallback@.len() as int, self.p_nf(*block_hash))[i]]@[*block_hash],
loop 0
        invariant
            verif_i <= self.notar_fallback@.len(),
            verif_out@.len() == idx_where(verif_i as int, self.p_nf(*block_hash)).len(),
            forall|i: int| 0 <= i < verif_out@.len() ==> #[trigger] verif_out@[i] == self.notar_fallback@[idx_where(verif_i as int, self.p_nf(*block_hash))[i]]@[*block_hash],
        decreases self.notar_fallback@.len() - verif_i,
@*/
/*@ extract src/consensus/pool/slot_state.rs :: impl SlotVotes/fn notar_votes
as notar_votes_body
props C03
ret r
rewrite[R4] `self.notar .iter() .filter_map(|vote| {` => `let mut verif_out: Vec<NotarVote> = Vec::new(); let mut verif_i: usize = 0; while verif_i < self.notar.len() { let vote = &self.notar[verif_i]; let verif_o: Option<&NotarVote> = {`
rewrite[R4] `}) .cloned() .collect()` => `}; if let Some(verif_x) = verif_o { verif_out.push(verif_x.clone()); } verif_i += 1; } verif_out`
ensures
        // [C03.vote_helpers_return_the_stored_votes_in_index_order]
        r@.len() == idx_where(self.notar@.len() as int, self.p_notar(*block_hash)).len(),
        forall|i: int| 0 <= i < r@.len() ==> Some(#[trigger] r@[i]) == self.notar@[idx_where(self.notar@.len() as int, self.p_notar(*block_hash))[i]],
closure 0
        params vote: &NotarVote
        ret o: Option<&NotarVote>
        ensures o == (if vote.block_hash == *block_hash { Some(vote) } else { None })
loop 0
        invariant
            verif_i <= self.notar@.len(),
            verif_out@.len() == idx_where(verif_i as int, self.p_notar(*block_hash)).len(),
            forall|i: int| 0 <= i < verif_out@.len() ==> Some(#[trigger] verif_out@[i]) == self.notar@[idx_where(verif_i as int, self.p_notar(*block_hash))[i]],
        decreases self.notar@.len() - verif_i,
@*/
}

} // mod code

} // verus!

fn main() {}
