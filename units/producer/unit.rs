// Unit `producer`: the space accounting of the leader's slice builder
// (src/consensus/block_producer.rs produce_slice_payload, the statements executed per received transaction).  Serves C10.
use vstd::prelude::*;

verus! {

/*@ include units/common/base_types.rs @*/

/*@ extract src/lib.rs :: const MAX_TRANSACTION_SIZE
@*/
/*@ extract src/lib.rs :: struct Transaction
derive
@*/
#[verifier::external_body] #[derive(Debug)] pub struct IoError { _p: () }
// SlicePayload (src/types/slice.rs): the parent carried by a slice and its data
pub struct SlicePayload { pub parent: Option<BlockId>, pub data: Vec<u8> }
#[verifier::external_body] #[derive(Debug)] pub struct RecvError { _p: () }


// `wincode::serialize_into(&mut buffer, &tx).expect(..)` (R8): the encoding of a Transaction(Vec<u8>) is an 8-byte length
// followed by the payload bytes (what the "+8" in the real code accounts for).  TRUSTED.
#[verifier::external_body]
pub fn verif_serialize_tx(buffer: &mut Vec<u8>, tx: &Transaction)
    ensures final(buffer)@.len() == old(buffer)@.len() + 8 + tx.0@.len(),
        spec_tx_items(final(buffer)@) == spec_tx_items(old(buffer)@) + 1,
{ unimplemented!() }
// number of transactions serialized into the slice buffer so far (after the 8-byte count prefix, which is written last)
pub uninterp spec fn spec_tx_items(buffer: Seq<u8>) -> nat;

// wincode (fixint) encoding of the slice's parent: one tag byte, plus slot (8) and block hash (32) when present.  TRUSTED.
pub open spec fn spec_parent_len(p: Option<BlockId>) -> nat { if p is Some { 41 } else { 1 } }
// `wincode::serialized_size(&p).expect(..) as usize` (R8)
#[verifier::external_body]
pub fn verif_parent_encoded_len(p: &Option<BlockId>) -> (r: usize)
    ensures r == spec_parent_len(*p)
{ unimplemented!() }
// serialized size of a slice payload: parent, 8-byte length prefix of the data, data
pub open spec fn spec_payload_len(p: SlicePayload) -> nat { spec_parent_len(p.parent) + 8 + p.data@.len() }
/*@ extract src/shredder.rs :: const MAX_DATA_PER_SHRED
@*/
/*@ extract src/shredder.rs :: const DATA_SHREDS
@*/
/*@ extract src/shredder.rs :: const MAX_DATA_PER_SLICE_AFTER_PADDING
@*/
/*@ extract src/shredder.rs :: const MAX_DATA_PER_SLICE
@*/
// Slot::genesis() / GENESIS_BLOCK_HASH as used for a placeholder parent (values irrelevant here)
impl Slot { pub fn genesis() -> (r: Slot) { Slot(0) } }
/*@ extract src/crypto/merkle.rs :: const GENESIS_BLOCK_HASH
prefix #[verifier::external_body]
ensures
        true,
@*/

pub mod code {
use super::*;

// The space computation at the head of produce_slice_payload, as a function of the parent the slice starts with.
/*@ extract-stmts src/consensus/block_producer.rs :: fn produce_slice_payload
props C10
from `const _: () = assert!(MAX_DATA_PER_SLICE >= MAX_TRANSACTION_SIZE + 8 + 8);`
to `let buffer_space = MAX_DATA_PER_SLICE - parent_encoded_len - 8;`
drop `const _: () = assert!(MAX_DATA_PER_SLICE >= MAX_TRANSACTION_SIZE + 8 + 8);`
wrap fn slice_space(parent: Option<BlockId>) -> (r: usize)
tail buffer_space
rewrite[R8] `wincode::serialized_size(&VANY) .expect("computing serialized size of parent should not fail") as usize` => `verif_parent_encoded_len(&VANY)`
ensures
        // the slice as produced fits: parent + length prefix + data <= MAX_DATA_PER_SLICE
        r + 8 + spec_parent_len(parent) <= MAX_DATA_PER_SLICE,
        // [C10.room_for_a_parent_is_always_reserved] ... and it still fits when optimistic handover later puts a parent on a
        // slice that was started without one (apply_parent_ready): the space for a parent is reserved in any case
        r + 8 + 41 <= MAX_DATA_PER_SLICE,
        // room for the first transaction (the loop invariant of slice_step holds initially: 8 bytes used)
        8 + MAX_TRANSACTION_SIZE + 8 <= r,
@*/

// The statements of the receive loop that run for each received transaction, as a function: `true` = the loop breaks.
/*@ extract-stmts src/consensus/block_producer.rs :: fn produce_slice_payload
props C10
from `let tx = res.expect("receiving tx");`
to `break duration_left.saturating_sub(start_time.elapsed()); }`
wrap fn slice_step(buffer_space: usize, buffer: &mut Vec<u8>, tx_count_in: u64, res: Result<Transaction, IoError>) -> (rr: (bool, u64))
tail (false, tx_count)
rewrite[R8] `wincode::serialize_into(&mut buffer, &tx) .expect("serializing transaction into buffer should not fail");` => `verif_serialize_tx(buffer, &tx);`
rewrite[stmt-range-param] `break duration_left.saturating_sub(start_time.elapsed());` => `return (true, tx_count);`
rewrite[stmt-range-param] `continue;` => `return (false, tx_count);`
requires
        // loop invariant of the real loop: room for one more maximal transaction (initially: 8 bytes used, and the
        // const assertion MAX_DATA_PER_SLICE >= MAX_TRANSACTION_SIZE + 16)
        old(buffer)@.len() + MAX_TRANSACTION_SIZE + 8 <= buffer_space,
        res is Ok,
        tx_count_in < u64::MAX,
ensures
        // [C10.slice_payload_within_limit] whatever a client sends, the payload never outgrows the slice
        final(buffer)@.len() <= buffer_space,
        // the loop continues only with room for one more maximal transaction
        !rr.0 ==> final(buffer)@.len() + MAX_TRANSACTION_SIZE + 8 <= buffer_space,
        // [C10.oversized_transaction_is_dropped] a transaction above the size limit leaves the slice untouched
        (res matches Ok(t) && t.0@.len() > MAX_TRANSACTION_SIZE) ==> final(buffer)@ == old(buffer)@ && !rr.0,
        // [C10.transaction_count_matches_the_serialized_transactions] the count written into the slice's length prefix moves in
        // step with the transactions actually serialized (also when a hostile transaction is dropped): otherwise the slice
        // does not decode and the leader's own block fails reconstruction (the `unreachable!` of add_own_slice)
        rr.1 - tx_count_in == spec_tx_items(final(buffer)@) - spec_tx_items(old(buffer)@),
before `let tx = res.expect("receiving tx");`
        let mut tx_count = tx_count_in;
@*/

/*@ extract src/consensus/block_producer.rs :: fn apply_parent_ready
props C10
sig `oneshot::error::RecvError` => `RecvError`
ensures
        // [C10.parent_ready_for_any_certified_block_is_applied] whatever block the pool reports as
        // the ready parent - also another block of the SAME slot as the optimistic parent (equivocating previous leader) -
        // the producer switches to it instead of crashing; the same block is a no-op
        // ("the same block" is the same block ID: the block hash does not cover the slot, the same content signed for another slot of
        //  the same leader is another block - finding F36: code and contract compared the hashes only)
        (received is Ok && received->Ok_0 == *parent_block_id) ==> final(payload).parent == old(payload).parent,
        (received is Ok && received->Ok_0 != *parent_block_id) ==> final(payload).parent == Some(received->Ok_0),
        // [C10.dropped_parent_ready_sender_is_survived] the pool drops the sender when it prunes the window's slot (a leader
        // lagging behind finalization): no crash, the slice keeps its parent (finding F16: the `expect` failed this
        // obligation before fix 1fefaba)
        received is Err ==> final(payload).parent == old(payload).parent,
        final(payload).data == old(payload).data,
        // [C10.slice_stays_within_the_limit_after_a_parent_switch] given what produce_slice_payload guarantees about the data
        // (slice_space above), the payload still fits a slice after the switch - else shredding fails and
        // `.expect("shredding of valid slice should never fail")` panics the producer
        old(payload).data@.len() + 8 + 41 <= MAX_DATA_PER_SLICE ==> spec_payload_len(*final(payload)) <= MAX_DATA_PER_SLICE,
@*/

// Canary: the same statements under a false contract (claims the slice never fills up); MUST fail.
/*@ extract-stmts src/consensus/block_producer.rs :: fn produce_slice_payload
expect-fail
from `let tx = res.expect("receiving tx");`
to `break duration_left.saturating_sub(start_time.elapsed()); }`
wrap fn canary_slice_step(buffer_space: usize, buffer: &mut Vec<u8>, tx_count_in: u64, res: Result<Transaction, IoError>) -> (r: bool)
tail false
rewrite[R8] `wincode::serialize_into(&mut buffer, &tx) .expect("serializing transaction into buffer should not fail");` => `verif_serialize_tx(buffer, &tx);`
rewrite[stmt-range-param] `break duration_left.saturating_sub(start_time.elapsed());` => `return true;`
rewrite[stmt-range-param] `continue;` => `return false;`
requires
        old(buffer)@.len() + MAX_TRANSACTION_SIZE + 8 <= buffer_space,
        res is Ok,
        tx_count_in < u64::MAX,
ensures
        !r,
before `let tx = res.expect("receiving tx");`
        let mut tx_count = tx_count_in;
@*/

} // mod code

} // verus!

fn main() {}
