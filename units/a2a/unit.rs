// Unit `a2a`: what a node does with a consensus message received from all-to-all broadcast
// (src/consensus.rs Alpenglow::handle_all2all_message).  Serves C09 (C10).
use vstd::prelude::*;

verus! {

/*@ include units/common/base_types.rs @*/

// TRUSTED opaque stand-ins: raw (unvalidated) votes / certificates as they come off the wire, and the validated wrappers
#[verifier::external_body] pub struct Vote { _p: () }
#[verifier::external_body] pub struct Cert { _p: () }
#[verifier::external_body] pub struct VoteError { _p: () }
#[verifier::external_body] pub struct CertError { _p: () }
#[verifier::external_body] pub struct SlashableOffence { _p: () }
#[verifier::external_body] pub struct OtherAddVoteError { _p: () }
#[verifier::external_body] pub struct AddCertError { _p: () }
/*@ extract src/consensus.rs :: enum ConsensusMessage
derive
@*/
// AddVoteError (src/consensus/pool.rs): the variant this handler singles out, everything else folded into one
pub enum AddVoteError { Slashable(SlashableOffence), Other(OtherAddVoteError) }

#[verifier::external_body] pub struct EpochInner { _p: () }
#[verifier::external_body] pub struct EpochHandle { _p: () }
impl EpochHandle {
    pub uninterp spec fn spec_inner(&self) -> EpochInner;
    #[verifier::external_body] pub fn epoch_info(&self) -> (r: &EpochInner) ensures *r == self.spec_inner() { unimplemented!() }
}
// "this vote / certificate passes validation under this epoch": signer in range and signature over exactly its payload /
// recomputed stake meets the threshold and every aggregate verifies - PROVED for the real constructors in unit `validated` (C09)
pub uninterp spec fn vote_valid(v: Vote, e: EpochInner) -> bool;
pub uninterp spec fn cert_valid(c: Cert, e: EpochInner) -> bool;
#[verifier::external_body] pub struct ValidatedVote { _p: () }
#[verifier::external_body] pub struct ValidatedCert { _p: () }
impl ValidatedVote {
    pub uninterp spec fn spec_vote(&self) -> Vote;
    // ASSUMED here, PROVED in unit `validated` on the real ValidatedVote::try_new
    #[verifier::external_body]
    pub fn try_new(vote: Vote, epoch_info: &EpochInner) -> (r: Result<ValidatedVote, VoteError>)
        ensures
            r is Ok <==> vote_valid(vote, *epoch_info),
            r matches Ok(v) ==> v.spec_vote() == vote,
    { unimplemented!() }
}
impl ValidatedCert {
    pub uninterp spec fn spec_cert(&self) -> Cert;
    #[verifier::external_body]
    pub fn try_new(cert: Cert, epoch_info: &EpochInner) -> (r: Result<ValidatedCert, CertError>)
        ensures
            r is Ok <==> cert_valid(cert, *epoch_info),
            r matches Ok(c) ==> c.spec_cert() == cert,
    { unimplemented!() }
}

// the shared pool handle (Arc<RwLock<dyn Pool>>) as a ghost log of what was handed to it
#[verifier::external_body] pub struct SharedPool { _p: () }
impl SharedPool {
    pub uninterp spec fn votes(&self) -> Seq<Vote>;
    pub uninterp spec fn certs(&self) -> Seq<Cert>;
    #[verifier::external_body] pub fn write(&mut self) -> (r: &mut SharedPool) ensures *r == *old(self), *final(self) == *final(r) { unimplemented!() }
    // Pool::add_vote / add_cert: whatever they answer (duplicate, out of bounds, slashable ..) is an error VALUE
    #[verifier::external_body]
    pub fn add_vote(&mut self, vote: ValidatedVote) -> (r: Result<(), AddVoteError>)
        ensures final(self).votes() == old(self).votes().push(vote.spec_vote()), final(self).certs() == old(self).certs()
    { unimplemented!() }
    #[verifier::external_body]
    pub fn add_cert(&mut self, cert: ValidatedCert) -> (r: Result<(), AddCertError>)
        ensures final(self).certs() == old(self).certs().push(cert.spec_cert()), final(self).votes() == old(self).votes()
    { unimplemented!() }
}

// struct Alpenglow<A, D, T> (src/consensus.rs) with the two handles handle_all2all_message uses
pub struct Alpenglow {
    pub epoch_info: EpochHandle,
    pub pool: SharedPool,
}

pub mod code {
use super::*;

impl Alpenglow {
/*@ extract src/consensus.rs :: impl Alpenglow<A, D, T>/fn handle_all2all_message
props C09 C10
elide-async
sig `&self` => `&mut self`
ensures
        final(self).epoch_info == old(self).epoch_info,
        // [C09.only_validated_messages_reach_the_pool] a vote / certificate is handed to the pool only after it passed validation
        // under the current epoch, and then exactly once, unchanged; an invalid one is dropped (no panic, no pool access)
        msg matches ConsensusMessage::Vote(v) ==> final(self).pool.certs() == old(self).pool.certs()
            && final(self).pool.votes() == (if vote_valid(v, old(self).epoch_info.spec_inner()) { old(self).pool.votes().push(v) } else { old(self).pool.votes() }),
        msg matches ConsensusMessage::Cert(c) ==> final(self).pool.votes() == old(self).pool.votes()
            && final(self).pool.certs() == (if cert_valid(c, old(self).epoch_info.spec_inner()) { old(self).pool.certs().push(c) } else { old(self).pool.certs() }),
@*/

// Canary: the real body under a false contract (claims nothing ever reaches the pool); MUST fail.
/*@ extract src/consensus.rs :: impl Alpenglow<A, D, T>/fn handle_all2all_message
as canary_handle_all2all_message
expect-fail
elide-async
sig `&self` => `&mut self`
ensures
        final(self).pool.votes() == old(self).pool.votes() && final(self).pool.certs() == old(self).pool.certs(),
@*/
}

} // mod code

} // verus!

fn main() {}
