// Unit `ingest`: what a node does with a shred received from block dissemination
// (src/consensus.rs Alpenglow::handle_disseminator_shred).  Serves C12, C13, C16.
use vstd::prelude::*;

verus! {

/*@ include units/common/base_types.rs @*/

/*@ extract src/types/slice_index.rs :: struct SliceIndex
derive Clone, Copy
traits Eq OrdU64
@*/
/*@ extract src/consensus/blockstore.rs :: struct BlockInfo
derive
@*/
/*@ extract src/shredder/validated_shred.rs :: enum ShredValidationError
derive Clone, Copy
@*/

// TRUSTED opaque stand-ins
#[verifier::external_body] pub struct PublicKey { _p: () }
impl Clone for PublicKey { #[verifier::external_body] fn clone(&self) -> (r: Self) ensures r == *self { unimplemented!() } }
impl Copy for PublicKey {}
#[verifier::external_body] pub struct SliceCommitment { _p: () }
#[verifier::external_body] #[derive(Debug)] pub struct IoError { _p: () }
#[verifier::external_body] pub struct AddShredError { _p: () }
// the parts of a shred read here (src/shredder.rs)
pub struct SliceHeader { pub slot: Slot, pub slice_index: SliceIndex, pub is_last: bool }
pub struct ShredPayload { pub header: SliceHeader }
#[verifier::external_body] pub struct Shred { _p: () }
impl Shred {
    pub uninterp spec fn spec_payload(&self) -> ShredPayload;
    #[verifier::external_body]
    pub fn payload(&self) -> (r: &ShredPayload) ensures *r == self.spec_payload() { unimplemented!() }
}
// "the leader with key pk signed exactly this shred's commitment" / "c is this shred's commitment" (C12)
pub uninterp spec fn sig_ok(shred: Shred, pk: PublicKey) -> bool;
pub uninterp spec fn commit_matches(c: SliceCommitment, shred: Shred) -> bool;
#[verifier::external_body] pub struct ValidatedShred { _p: () }
impl ValidatedShred {
    pub uninterp spec fn spec_shred(&self) -> Shred;
    // ASSUMED here, PROVED in unit `shred_auth` (C12) on the real ValidatedShred::try_new
    #[verifier::external_body]
    pub fn try_new(shred: Shred, cached_commitment: Option<&SliceCommitment>, pk: &PublicKey) -> (r: Result<ValidatedShred, ShredValidationError>)
        ensures
            r matches Ok(v) ==> v.spec_shred() == shred
                && ((cached_commitment matches Some(c) && commit_matches(*c, shred)) || sig_ok(shred, *pk)),
            (cached_commitment is None && sig_ok(shred, *pk)) ==> r is Ok,
            (cached_commitment matches Some(c) && commit_matches(*c, shred)) ==> r is Ok,
            // two different validly signed commitments: equivocation
            (cached_commitment matches Some(c) && !commit_matches(*c, shred) && sig_ok(shred, *pk))
                ==> r == Err::<ValidatedShred, ShredValidationError>(ShredValidationError::Equivocation),
            (cached_commitment matches Some(c) && !commit_matches(*c, shred) && !sig_ok(shred, *pk))
                ==> r == Err::<ValidatedShred, ShredValidationError>(ShredValidationError::InvalidSignature),
            (cached_commitment is None && !sig_ok(shred, *pk)) ==> r == Err::<ValidatedShred, ShredValidationError>(ShredValidationError::InvalidSignature),
    { unimplemented!() }
    #[verifier::external_body]
    pub fn as_shred(&self) -> (r: &Shred) ensures *r == self.spec_shred() { unimplemented!() }
}

// epoch information: only the leader of a slot (its index and key) and the own index are read
pub struct LeaderInfo { pub id: ValidatorIndex, pub pubkey: PublicKey }
#[verifier::external_body] pub struct EpochInner { _p: () }
#[verifier::external_body] pub struct EpochHandle { _p: () }
impl EpochHandle {
    pub uninterp spec fn spec_own(&self) -> ValidatorIndex;
    pub uninterp spec fn spec_leader(&self, slot: Slot) -> LeaderInfo;
    #[verifier::external_body] pub fn epoch_info(&self) -> (r: &EpochInner) ensures r.of() == *self { unimplemented!() }
    #[verifier::external_body] pub fn own_id(&self) -> (r: ValidatorIndex) ensures r == self.spec_own() { unimplemented!() }
}
impl EpochInner {
    pub uninterp spec fn of(&self) -> EpochHandle;
    #[verifier::external_body] pub fn leader(&self, slot: Slot) -> (r: &LeaderInfo) ensures *r == self.of().spec_leader(slot) { unimplemented!() }
}

// The shared handles (Arc<RwLock<dyn ..>>, Arc<D>) as ghost logs of the calls made through them.  The method takes `&self` in
// the source and reaches them through interior mutability; here it takes `&mut self` (logged signature rewrite).
#[verifier::external_body] pub struct SharedBlockstore { _p: () }
#[verifier::external_body] pub struct SharedPool { _p: () }
#[verifier::external_body] pub struct DisseminatorHandle { _p: () }
impl SharedBlockstore {
    pub uninterp spec fn spec_cached(&self, slot: Slot, slice: SliceIndex) -> Option<SliceCommitment>;
    pub uninterp spec fn ingested(&self) -> Seq<Shred>;          // shreds handed to add_shred_from_dissemination
    pub uninterp spec fn flagged(&self) -> ISet<Slot>;           // slots passed to flag_leader_misbehavior
    #[verifier::external_body] pub fn read(&self) -> (r: &SharedBlockstore) ensures *r == *self { unimplemented!() }
    #[verifier::external_body] pub fn write(&mut self) -> (r: &mut SharedBlockstore) ensures *r == *old(self), *final(self) == *final(r) { unimplemented!() }
    #[verifier::external_body]
    pub fn cached_commitment(&self, slot: Slot, slice: SliceIndex) -> (r: Option<SliceCommitment>)
        ensures r == self.spec_cached(slot, slice)
    { unimplemented!() }
    // ASSUMED (proved for BlockData / SlotBlockData in unit blockdata): a completed block has its parent in an earlier slot
    #[verifier::external_body]
    pub fn add_shred_from_dissemination(&mut self, shred: ValidatedShred) -> (r: Result<Option<BlockInfo>, AddShredError>)
        ensures
            final(self).ingested() == old(self).ingested().push(shred.spec_shred()),
            final(self).flagged().subset_of(final(self).flagged()) && old(self).flagged().subset_of(final(self).flagged()),
            r matches Ok(Some(info)) ==> info.parent.0.0 < shred.spec_shred().spec_payload().header.slot.0,
    { unimplemented!() }
    #[verifier::external_body]
    pub fn flag_leader_misbehavior(&mut self, slot: Slot)
        ensures
            final(self).flagged() == old(self).flagged().insert(slot),
            final(self).ingested() == old(self).ingested(),
    { unimplemented!() }
}
impl SharedPool {
    // Pool::finalized_slot (the highest finalized slot; PoolImpl::finalized_slot is under contract in unit pool)
    pub uninterp spec fn spec_finalized(&self) -> Slot;
    #[verifier::external_body] pub fn read(&self) -> (r: &SharedPool) ensures *r == *self { unimplemented!() }
    #[verifier::external_body] pub fn finalized_slot(&self) -> (r: Slot) ensures r == self.spec_finalized() { unimplemented!() }
    #[verifier::external_body] pub fn write(&mut self) -> (r: &mut SharedPool) { unimplemented!() }
    #[verifier::external_body]
    pub fn add_block(&mut self, id: BlockId, parent: BlockId)
        requires
            // [C13.announced_block_parent_in_earlier_slot C10.parent_in_earlier_slot]
            id.0.0 > parent.0.0,
    { unimplemented!() }
}
impl DisseminatorHandle {
    pub uninterp spec fn forwarded(&self) -> Seq<Shred>;      // shreds offered to Disseminator::forward
    #[verifier::external_body]
    pub fn verif_forward(&mut self, shred: &Shred) -> (r: Result<(), IoError>)
        ensures final(self).forwarded() == old(self).forwarded().push(*shred)
    { unimplemented!() }
}

// "far in the future": at or beyond the bound the pool puts on votes and certificates (two epochs past the finalized slot)
pub open spec fn far_future(finalized: Slot, slot: Slot) -> bool {
    slot.0 >= (if finalized.0 + 2 * SLOTS_PER_EPOCH > u64::MAX { u64::MAX as int } else { finalized.0 + 2 * SLOTS_PER_EPOCH })
}

// struct Alpenglow<A, D, T> (src/consensus.rs) with the four handles handle_disseminator_shred uses
pub struct Alpenglow {
    pub epoch_info: EpochHandle,
    pub blockstore: SharedBlockstore,
    pub pool: SharedPool,
    pub disseminator: DisseminatorHandle,
}

pub mod code {
use super::*;

impl Slot {
/*@ extract src/types/slot.rs :: impl Slot/fn inner
ret r
ensures
        r == self.0,
@*/
}

impl Alpenglow {
/*@ extract src/consensus.rs :: impl Alpenglow<A, D, T>/fn handle_disseminator_shred
props C12 C13 C16
ret r
elide-async
sig `&self` => `&mut self`
sig `std::io::Result<()>` => `Result<(), IoError>`
rewrite[R3b] `self.disseminator.forward(` => `self.disseminator.verif_forward(`
ensures
        final(self).epoch_info == old(self).epoch_info,
        // [C10.far_future_shred_is_ignored C13.far_future_shred_is_ignored] a shred for a slot two epochs or more past the finalized
        // slot is dropped whoever signed it: nothing is forwarded, stored or reported for it (no slot near u64::MAX ever reaches
        // the blockstore and, through its events, the slot arithmetic of the voting loop)
        far_future(old(self).pool.spec_finalized(), shred.spec_payload().header.slot) ==>
            final(self).disseminator.forwarded() == old(self).disseminator.forwarded()
            && final(self).blockstore.ingested() == old(self).blockstore.ingested()
            && final(self).blockstore.flagged() == old(self).blockstore.flagged(),
        // [C12.proven_equivocation_is_reported C13.conflicting_slices_flag_the_leader] a validly signed shred whose commitment differs
        // from the one cached for its slot and slice is proof of leader equivocation: the slot is flagged, never silently dropped
        (!far_future(old(self).pool.spec_finalized(), shred.spec_payload().header.slot)
            && (old(self).blockstore.spec_cached(shred.spec_payload().header.slot, shred.spec_payload().header.slice_index) matches Some(c)
            && !commit_matches(c, shred) && sig_ok(shred, old(self).epoch_info.spec_leader(shred.spec_payload().header.slot).pubkey)))
            ==> final(self).blockstore.flagged().contains(shred.spec_payload().header.slot),
        // [C12.unauthentic_shred_goes_nowhere]
        !( (old(self).blockstore.spec_cached(shred.spec_payload().header.slot, shred.spec_payload().header.slice_index) matches Some(c) && commit_matches(c, shred))
            || sig_ok(shred, old(self).epoch_info.spec_leader(shred.spec_payload().header.slot).pubkey) )
            ==> final(self).disseminator.forwarded() == old(self).disseminator.forwarded() && final(self).blockstore.ingested() == old(self).blockstore.ingested(),
        // [C16.every_authentic_shred_is_offered_for_forwarding] also in the leader's own slots (the leader can be a relay)
        (!far_future(old(self).pool.spec_finalized(), shred.spec_payload().header.slot) && ((old(self).blockstore.spec_cached(shred.spec_payload().header.slot, shred.spec_payload().header.slice_index) is None
            && sig_ok(shred, old(self).epoch_info.spec_leader(shred.spec_payload().header.slot).pubkey))
          || (old(self).blockstore.spec_cached(shred.spec_payload().header.slot, shred.spec_payload().header.slice_index) matches Some(c) && commit_matches(c, shred))))
            ==> final(self).disseminator.forwarded() == old(self).disseminator.forwarded().push(shred),
        // [C13.authentic_shred_is_ingested_unless_own_slot]
        final(self).blockstore.ingested() == old(self).blockstore.ingested()
            || final(self).blockstore.ingested() == old(self).blockstore.ingested().push(shred),
        (old(self).epoch_info.spec_leader(shred.spec_payload().header.slot).id == old(self).epoch_info.spec_own())
            ==> final(self).blockstore.ingested() == old(self).blockstore.ingested(),
@*/

// The same body once more, for the responder half of C14 alone ("a node answers every request about a block it holds with
// ... shreds with the leader's signature").  The blockstore stores every shred of a slice with the signature of the shred
// that populated the slice's cache entry (unit blockdata: C14.stored_shred_carries_the_verified_signature_of_its_slice,
// finding F22); what this function owes is that THAT shred's signature was checked: without a cached commitment nothing
// lets a shred skip the check.
/*@ extract src/consensus.rs :: impl Alpenglow<A, D, T>/fn handle_disseminator_shred
as handle_disseminator_shred_signature_of_stored_shreds
props C14
ret r
elide-async
sig `&self` => `&mut self`
sig `std::io::Result<()>` => `Result<(), IoError>`
rewrite[R3b] `self.disseminator.forward(` => `self.disseminator.verif_forward(`
before `let res = self`
        // [C14.shred_that_populates_the_commitment_cache_is_verified]
        assert(cached is None ==> sig_ok(validated.spec_shred(), leader_pk));
@*/

// Canary: the real body under a false contract (claims nothing is ever forwarded); MUST fail.
/*@ extract src/consensus.rs :: impl Alpenglow<A, D, T>/fn handle_disseminator_shred
as canary_handle_disseminator_shred
expect-fail
ret r
elide-async
sig `&self` => `&mut self`
sig `std::io::Result<()>` => `Result<(), IoError>`
rewrite[R3b] `self.disseminator.forward(` => `self.disseminator.verif_forward(`
ensures
        final(self).disseminator.forwarded() == old(self).disseminator.forwarded(),
@*/
}

} // mod code

} // verus!

fn main() {}
