// Unit U3 `pool`: the pool's public entry points (src/consensus/pool.rs).  Callees of SlotState and
// FinalityTracker are used through the contracts PROVED on their real bodies in units slot_state /
// finality (`stub` directives).  Serves C04 C08 C18 C10.
use vstd::prelude::*;
use std::collections::BTreeMap;
use std::sync::Arc;

verus! {

/*@ include units/common/base_types.rs @*/
/*@ include units/common/quorum_core.rs @*/
/*@ include units/common/vote_types.rs @*/
/*@ include units/common/pool_stubs.rs @*/
/*@ include units/common/sums.rs @*/
/*@ include units/slot_state/spec.rs @*/

// TRUSTED: the tuple order on BlockId = (Slot, BlockHash) is a lawful total order.
#[verifier::external_body]
pub broadcast proof fn axiom_block_id_obeys_cmp_laws()
    ensures #[trigger] vstd::laws_cmp::obeys_cmp::<(Slot, DoubleMerkleRoot)>()
{}

/*@ extract src/consensus/pool/finality_tracker.rs :: struct FinalityTracker
@*/
/*@ extract src/consensus/pool/finality_tracker.rs :: enum FinalizationStatus
derive
@*/
/*@ extract src/consensus/validated_vote.rs :: struct ValidatedVote
derive
@*/
/*@ extract src/consensus/validated_cert.rs :: struct ValidatedCert
derive
@*/
/*@ extract src/consensus/pool.rs :: enum AddVoteError
derive Clone, Copy
@*/
/*@ extract src/consensus/pool.rs :: enum AddCertError
derive Clone, Copy
@*/
/*@ extract src/consensus/pool.rs :: struct PoolImpl
@*/

// TRUSTED opaque stand-ins: parent-ready tracker (unit not built yet), tokio mpsc sender.
#[verifier::external_body]
pub struct ParentReadyTracker { _p: () }
#[verifier::external_body]
#[verifier::reject_recursive_types(T)]
pub struct Sender<T> { _p: std::marker::PhantomData<T> }

// the state a slot gets on first use (SlotState::new): ASSUMED empty and well formed
pub uninterp spec fn spec_fresh_slot_state(slot: Slot, ei: Arc<ValidatorEpochInfo>) -> SlotState;
#[verifier::external_body]
pub broadcast proof fn axiom_fresh_slot_state(slot: Slot, ei: Arc<ValidatorEpochInfo>)
    ensures ({
        let s = #[trigger] spec_fresh_slot_state(slot, ei);
        &&& s.slot == slot && s.epoch_info == ei
        &&& s.votes.shape(s.nv())
        &&& forall|v: int| 0 <= v < s.nv() ==> (#[trigger] s.votes.vv(v)) == VV { notar: None, nf: Set::<BlockHash>::empty(), skip: false, skip_fb: false, fin: false }
        &&& s.certificates.notar is None && s.certificates.skip is None && s.certificates.fast_finalize is None
            && s.certificates.finalize is None && s.certificates.notar_fallback@.len() == 0
        &&& (s.wf_epoch() ==> s.wf())
    }),
{}

impl PoolImpl {
    pub open spec fn st(&self, slot: Slot) -> SlotState {
        if self.slot_states@.contains_key(slot) { self.slot_states@[slot] } else { spec_fresh_slot_state(slot, self.epoch_info) }
    }
    pub open spec fn lo(&self) -> int { self.finality_tracker.first_unpruned_slot.0 as int }
    pub open spec fn hi(&self) -> int { self.finality_tracker.highest_finalized_slot.0 as int }
    // representation invariant of the pool
    pub open spec fn wf(&self) -> bool {
        &&& forall|s: Slot| #[trigger] self.slot_states@.contains_key(s) ==> self.slot_states@[s].wf()
            && self.slot_states@[s].slot == s && self.slot_states@[s].epoch_info == self.epoch_info
        &&& spec_fresh_slot_state(Slot(0), self.epoch_info).wf_epoch()
        &&& self.lo() <= self.hi()
        &&& self.hi() + 2 * SLOTS_PER_EPOCH <= u64::MAX
    }
    // "slot window bounds": too old (below the pruning watermark) or too far in the future
    pub open spec fn out_of_bounds(&self, slot: Slot) -> bool {
        slot.0 < self.lo() || slot.0 >= self.hi() + 2 * SLOTS_PER_EPOCH
    }
}

pub mod code {
use super::*;
broadcast use super::axiom_Slot_obeys_cmp_laws, super::axiom_block_id_obeys_cmp_laws, super::axiom_DoubleMerkleRoot_obeys_cmp_laws;

/*@ include units/common/std_specs.rs @*/

impl Slot {
/*@ extract src/types/slot.rs :: impl Slot/fn new
ret r
ensures
        r.0 == slot,
@*/
/*@ extract src/types/slot.rs :: impl Slot/fn inner
ret r
ensures
        r == self.0,
@*/
}

impl FinalityTracker {
/*@ stub units/finality/unit.rs :: src/consensus/pool/finality_tracker.rs :: impl FinalityTracker/fn highest_finalized_slot @*/
/*@ stub units/finality/unit.rs :: src/consensus/pool/finality_tracker.rs :: impl FinalityTracker/fn first_unpruned_slot @*/
}

impl SlotState {
/*@ stub units/slot_state/unit.rs :: src/consensus/pool/slot_state.rs :: impl SlotState/fn check_slashable_offence @*/
/*@ stub units/slot_state/unit.rs :: src/consensus/pool/slot_state.rs :: impl SlotState/fn should_ignore_vote @*/
/*@ stub units/slot_state/unit.rs :: src/consensus/pool/slot_state.rs :: impl SlotState/fn add_vote @*/
}

impl ValidatedVote {
/*@ extract src/consensus/validated_vote.rs :: impl ValidatedVote/fn slot
ret r
ensures
        r == self.vote.spec_slot(),
@*/
/*@ extract src/consensus/validated_vote.rs :: impl ValidatedVote/fn into_vote
ret r
ensures
        r == self.vote,
@*/
}

// SmallVec by-value iteration (rewrite R4 turns `for x in smallvec` into Rust's own desugaring)
#[verifier::external_body]
#[verifier::reject_recursive_types(T)]
pub struct SvIter<T> { _p: std::marker::PhantomData<T> }
impl<T> SvIter<T> {
    pub uninterp spec fn rest(&self) -> Seq<T>;
    #[verifier::external_body]
    pub fn next(&mut self) -> (r: Option<T>)
        ensures
            old(self).rest().len() == 0 ==> r is None && final(self).rest() == old(self).rest(),
            old(self).rest().len() > 0 ==> r == Some(old(self).rest()[0]) && final(self).rest() == old(self).rest().skip(1),
    { unimplemented!() }
}
impl<T, const N: usize> SmallVec<[T; N]> {
    #[verifier::external_body]
    pub fn into_iter(self) -> (r: SvIter<T>)
        ensures r.rest() == self.view()
    { unimplemented!() }
}

// Rewrite R8: `m.split_off(&k)` (no vstd specification) is named `m.verif_split_off(&k)`, a TRUSTED
// method with the documented behaviour: the result keeps exactly the keys >= k.
pub trait VerifSplitOff: Sized {
    spec fn spec_map(&self) -> Map<Slot, SlotState>;
    fn verif_split_off(&mut self, root: &Slot) -> (r: Self)
        ensures
            forall|s: Slot| #[trigger] r.spec_map().contains_key(s) <==> (old(self).spec_map().contains_key(s) && s.0 >= root.0),
            forall|s: Slot| r.spec_map().contains_key(s) ==> r.spec_map()[s] == old(self).spec_map()[s];
}
impl VerifSplitOff for BTreeMap<Slot, SlotState> {
    open spec fn spec_map(&self) -> Map<Slot, SlotState> { self@ }
    #[verifier::external_body]
    fn verif_split_off(&mut self, root: &Slot) -> (r: Self) { unimplemented!() }
}

impl ParentReadyTracker {
    #[verifier::external_body]
    pub fn prune(&mut self, new_root: Slot) { unimplemented!() }
}

impl PoolImpl {
    // ASSUMED contract of the `entry(slot).or_insert_with(|| SlotState::new(..))` helper:
    // the state of that slot, created empty on first use; nothing else changes.
    #[verifier::external_body]
    pub fn slot_state(&mut self, slot: Slot) -> (r: &mut SlotState)
        ensures
            *r == old(self).st(slot),
            final(self).slot_states@ == old(self).slot_states@.insert(slot, *final(r)),
            final(self).finality_tracker == old(self).finality_tracker,
            final(self).epoch_info == old(self).epoch_info,
            final(self).s2n_waiting_parent_cert == old(self).s2n_waiting_parent_cert,
    { unimplemented!() }

    // Event / repair channel sends and certificate follow-up: effects on other components are not
    // tracked in this unit (ASSUMED to keep the pool invariant; add_valid_cert is not yet under contract).
    #[verifier::external_body]
    pub fn send_votor_event(&self, event: PoolEvent) { unimplemented!() }
    #[verifier::external_body]
    pub fn send_repair(&self, block: BlockId) { unimplemented!() }
    #[verifier::external_body]
    pub fn add_valid_cert(&mut self, cert: Cert)
        requires old(self).epoch_info == old(self).epoch_info,
        ensures final(self).epoch_info == old(self).epoch_info,
    { unimplemented!() }

/*@ extract src/consensus/pool.rs :: impl PoolImpl/fn first_unpruned_slot
props C08 C04
ret r
ensures
        r == self.finality_tracker.first_unpruned_slot,
@*/
/*@ extract src/consensus/pool.rs :: impl Pool for PoolImpl/fn finalized_slot
props C08 C04 C18
ret r
ensures
        r == self.finality_tracker.highest_finalized_slot,
@*/

/*@ extract src/consensus/pool.rs :: impl Pool for PoolImpl/fn add_vote
props C04 C08
elide-async
ret r
rewrite[R4] `for cert in new_certs {` => `let mut verif_it1 = new_certs.into_iter(); loop { let cert = match verif_it1.next() { Some(x) => x, None => break };`
rewrite[R4] `for event in votor_events {` => `let mut verif_it2 = votor_events.into_iter(); loop { let event = match verif_it2.next() { Some(x) => x, None => break };`
rewrite[R4] `for (slot, block_hash) in blocks_to_repair {` => `let mut verif_it3 = blocks_to_repair.into_iter(); loop { let (slot, block_hash) = match verif_it3.next() { Some(x) => x, None => break };`
requires
        old(self).wf(),
        // what ValidatedVote::try_new guarantees (C09): the signer is a validator of the epoch
        (vote.vote.spec_signer().0 as int) < old(self).epoch_info.epoch.validators@.len(),
ensures
        // [C04.slot_window_bounds C08.nothing_older_than_watermark_accepted]
        (r == Err::<(), AddVoteError>(AddVoteError::SlotOutOfBounds)) <==> old(self).out_of_bounds(vote.vote.spec_slot()),
        // [C04.slashable_reported_before_duplicate]
        (!old(self).out_of_bounds(vote.vote.spec_slot())
            && conflict_exists(old(self).st(vote.vote.spec_slot()).votes.vv(vote.vote.spec_signer().0 as int), vote.vote.spec_kind()))
            ==> (r matches Err(AddVoteError::Slashable(o))
                 && offence_possible(old(self).st(vote.vote.spec_slot()).votes.vv(vote.vote.spec_signer().0 as int), vote.vote.spec_kind(), o.kind())
                 && o.who() == (vote.vote.spec_signer(), vote.vote.spec_slot())),
        // [C04.repeat_refused_as_duplicate]
        (!old(self).out_of_bounds(vote.vote.spec_slot())
            && !conflict_exists(old(self).st(vote.vote.spec_slot()).votes.vv(vote.vote.spec_signer().0 as int), vote.vote.spec_kind())
            && repeat_exists(old(self).st(vote.vote.spec_slot()).votes.vv(vote.vote.spec_signer().0 as int), vote.vote.spec_kind()))
            ==> r == Err::<(), AddVoteError>(AddVoteError::Duplicate),
        // [C04.legitimate_vote_accepted]
        (!old(self).out_of_bounds(vote.vote.spec_slot())
            && !conflict_exists(old(self).st(vote.vote.spec_slot()).votes.vv(vote.vote.spec_signer().0 as int), vote.vote.spec_kind())
            && !repeat_exists(old(self).st(vote.vote.spec_slot()).votes.vv(vote.vote.spec_signer().0 as int), vote.vote.spec_kind()))
            ==> r is Ok,
before `let slot = vote.slot();`
        let ghost pre = *self;
        let ghost gv = vote.vote;
        proof { broadcast use axiom_fresh_slot_state; }
loop 0
        invariant true,
        decreases verif_it1.rest().len(),
loop 1
        invariant true,
        decreases verif_it2.rest().len(),
loop 2
        invariant true,
        decreases verif_it3.rest().len(),
@*/

/*@ extract src/consensus/pool.rs :: impl PoolImpl/fn prune
props C08
rewrite[R8] `self.slot_states.split_off(` => `self.slot_states.verif_split_off(`
ensures
        // [C08.pool_retains_exactly_the_unpruned_slots]
        forall|s: Slot| #[trigger] final(self).slot_states@.contains_key(s) <==> (old(self).slot_states@.contains_key(s) && s.0 >= old(self).lo()),
        forall|s: Slot| final(self).slot_states@.contains_key(s) ==> final(self).slot_states@[s] == old(self).slot_states@[s],
        final(self).finality_tracker == old(self).finality_tracker,
before `self.parent_ready_tracker.prune(`
        proof {
            assert forall|s: Slot| #[trigger] self.slot_states@.contains_key(s) == self.slot_states.spec_map().contains_key(s) by {}
            assert(self.slot_states.spec_map() == self.slot_states@);
        }
@*/

// Canary: MUST fail (claims nothing is ever out of bounds).
/*@ extract src/consensus/pool.rs :: impl PoolImpl/fn prune
as canary_prune
expect-fail
rewrite[R8] `self.slot_states.split_off(` => `self.slot_states.verif_split_off(`
ensures
        final(self).slot_states@ == old(self).slot_states@,
@*/
}

} // mod code

} // verus!

fn main() {}
