// Unit U3 `pool`: the pool's public entry points (src/consensus/pool.rs).  Callees of SlotState and
// FinalityTracker are used through the contracts PROVED on their real bodies in units slot_state /
// finality (`stub` directives).  Serves C04 C08 C18 C10.
use vstd::prelude::*;
use std::collections::BTreeMap;
use std::sync::Arc;

verus! {

/*@ include units/common/base_types.rs @*/
/*@ include units/common/quorum_core.rs @*/
/*@ include units/common/vote_types.rs @*/
/*@ include units/common/pool_stubs.rs @*/
/*@ include units/common/sums.rs @*/
/*@ include units/slot_state/spec.rs @*/

// TRUSTED: the tuple order on BlockId = (Slot, BlockHash) is a lawful total order.
#[verifier::external_body]
pub broadcast proof fn axiom_block_id_obeys_cmp_laws()
    ensures #[trigger] vstd::laws_cmp::obeys_cmp::<(Slot, DoubleMerkleRoot)>()
{}

/*@ extract src/consensus/pool/finality_tracker.rs :: struct FinalityTracker
@*/
/*@ extract src/consensus/pool/finality_tracker.rs :: enum FinalizationStatus
derive
@*/
/*@ extract src/consensus/validated_vote.rs :: struct ValidatedVote
derive
@*/
/*@ extract src/consensus/validated_cert.rs :: struct ValidatedCert
derive
@*/
/*@ extract src/consensus/pool.rs :: enum AddVoteError
derive Clone, Copy
@*/
/*@ extract src/consensus/pool.rs :: enum AddCertError
derive Clone, Copy
@*/
/*@ extract src/consensus/pool.rs :: struct PoolImpl
@*/

// TRUSTED opaque stand-ins: parent-ready tracker (unit not built yet), tokio mpsc sender.
#[verifier::external_body]
pub struct ParentReadyTracker { _p: () }
#[verifier::external_body]
#[verifier::reject_recursive_types(T)]
pub struct Sender<T> { _p: std::marker::PhantomData<T> }

// the state a slot gets on first use: the value SlotState::new returns, named by an uninterpreted function; what the axiom says
// of it is the postcondition PROVED on the real SlotState::new / SlotVotes::new plus theorem_fresh_slot_state_is_well_formed (unit
// slot_state); copied here by hand
pub uninterp spec fn spec_fresh_slot_state(slot: Slot, ei: Arc<ValidatorEpochInfo>) -> SlotState;
#[verifier::external_body]
pub broadcast proof fn axiom_fresh_slot_state(slot: Slot, ei: Arc<ValidatorEpochInfo>)
    ensures ({
        let s = #[trigger] spec_fresh_slot_state(slot, ei);
        &&& s.slot == slot && s.epoch_info == ei
        &&& s.votes.shape(s.nv())
        &&& forall|v: int| 0 <= v < s.nv() ==> (#[trigger] s.votes.vv(v)) == VV { notar: None, nf: Set::<BlockHash>::empty(), skip: false, skip_fb: false, fin: false }
        &&& s.certificates.notar is None && s.certificates.skip is None && s.certificates.fast_finalize is None
            && s.certificates.finalize is None && s.certificates.notar_fallback@.len() == 0
        &&& (s.wf_epoch() ==> s.wf())
    }),
{}

impl PoolImpl {
    pub open spec fn st(&self, slot: Slot) -> SlotState {
        if self.slot_states@.contains_key(slot) { self.slot_states@[slot] } else { spec_fresh_slot_state(slot, self.epoch_info) }
    }
    pub open spec fn lo(&self) -> int { self.finality_tracker.first_unpruned_slot.0 as int }
    pub open spec fn hi(&self) -> int { self.finality_tracker.highest_finalized_slot.0 as int }
    // representation invariant of the pool
    // ... the part every operation re-establishes (PROVED: `final(self).wf_states()` on each of them) ...
    pub open spec fn wf_states(&self) -> bool {
        &&& forall|s: Slot| #[trigger] self.slot_states@.contains_key(s) ==> self.slot_states@[s].wf()
            && self.slot_states@[s].slot == s && self.slot_states@[s].epoch_info == self.epoch_info
        &&& spec_fresh_slot_state(Slot(0), self.epoch_info).wf_epoch()
        &&& self.lo() <= self.hi()
    }
    // ... and the machine-arithmetic assumption that slot numbers stay clear of u64::MAX (never re-established: ASSUMED at entry)
    pub open spec fn wf(&self) -> bool {
        &&& self.wf_states()
        &&& self.hi() + 2 * SLOTS_PER_EPOCH <= u64::MAX
    }
    // "slot window bounds": too old (below the pruning watermark) or too far in the future
    pub open spec fn out_of_bounds(&self, slot: Slot) -> bool {
        slot.0 < self.lo() || slot.0 >= self.hi() + 2 * SLOTS_PER_EPOCH
    }
}


// ---------------------------------------------------------------- C18 / C03 pool-level specification
impl SlotState {
    // this slot already holds a certificate of the same type (per block for notar-fallback)
    pub open spec fn holds_cert_like(&self, c: Cert) -> bool {
        match c {
            Cert::Notar(_) => self.certificates.notar is Some,
            Cert::NotarFallback(x) => self.has_nf_cert(x.block_hash),
            Cert::Skip(_) => self.certificates.skip is Some,
            Cert::FastFinal(_) => self.certificates.fast_finalize is Some,
            Cert::Final(_) => self.certificates.finalize is Some,
        }
    }
    // c is one of the certificates stored for this slot
    pub open spec fn stores_cert(&self, c: Cert) -> bool {
        match c {
            Cert::Notar(x) => self.certificates.notar == Some(x),
            Cert::NotarFallback(x) => exists|i: int| 0 <= i < self.certificates.notar_fallback@.len() && #[trigger] self.certificates.notar_fallback@[i] == x,
            Cert::Skip(x) => self.certificates.skip == Some(x),
            Cert::FastFinal(x) => self.certificates.fast_finalize == Some(x),
            Cert::Final(x) => self.certificates.finalize == Some(x),
        }
    }
    // the stored certificates prove this slot finalized: fast-final, or final together with notar
    pub open spec fn proves_finalized(&self) -> bool {
        self.certificates.fast_finalize is Some || (self.certificates.finalize is Some && self.certificates.notar is Some)
    }
}
pub open spec fn bundle_proves_final(st: &SlotState, certs: Seq<Cert>) -> bool {
    (certs.len() == 1 && st.certificates.fast_finalize is Some && certs[0] == Cert::FastFinal(st.certificates.fast_finalize->0))
    || (certs.len() == 2 && st.certificates.finalize is Some && st.certificates.notar is Some
        && certs[0] == Cert::Final(st.certificates.finalize->0) && certs[1] == Cert::Notar(st.certificates.notar->0))
}

pub open spec fn st_is_notarized(st: Option<FinalizationStatus>) -> bool {
    st matches Some(x) && x is Notarized
}
// certificates are never taken back: what one state holds of the three kinds that prove finality, the other holds as well
pub open spec fn certs_grow(a: SlotState, b: SlotState) -> bool {
    &&& a.certificates.notar is Some ==> b.certificates.notar is Some
    &&& a.certificates.finalize is Some ==> b.certificates.finalize is Some
    &&& a.certificates.fast_finalize is Some ==> b.certificates.fast_finalize is Some
}
pub proof fn lemma_fin_ok_transfer(o: &PoolImpl, n: &PoolImpl)
    requires
        o.fin_ok(),
        n.finality_tracker == o.finality_tracker,
        forall|s: Slot| #[trigger] o.slot_states@.contains_key(s) && s.0 >= o.lo()
            ==> n.slot_states@.contains_key(s) && certs_grow(o.slot_states@[s], n.slot_states@[s]),
    ensures
        n.fin_ok(),
{
    assert forall|s: Slot| (#[trigger] n.finality_tracker.st(s)) == Some(FinalizationStatus::FinalPendingNotar)
        implies n.slot_states@.contains_key(s) && n.slot_states@[s].certificates.finalize is Some by {
        assert(o.finality_tracker.status@.contains_key(s));
        assert(o.slot_states@.contains_key(s));
    }
    assert forall|s: Slot| s.0 > 0 && st_is_notarized(#[trigger] n.finality_tracker.st(s))
        implies n.slot_states@.contains_key(s) && n.slot_states@[s].certificates.notar is Some by {
        assert(o.finality_tracker.status@.contains_key(s));
        assert(o.slot_states@.contains_key(s));
    }
    if n.hi() > 0 {
        let h = o.finality_tracker.highest_finalized_slot;
        assert(o.slot_states@.contains_key(h) && h.0 >= o.lo());
    }
}

// the keys >= from of the slot-state map, in iteration (ascending) order: what `range(from..)` visits
pub uninterp spec fn spec_range_keys(m: Map<Slot, SlotState>, from: int) -> Seq<Slot>;
#[verifier::external_body]
pub broadcast proof fn axiom_range_keys(m: Map<Slot, SlotState>, from: int)
    ensures
        forall|i: int| 0 <= i < (#[trigger] spec_range_keys(m, from)).len() ==> m.contains_key(spec_range_keys(m, from)[i]) && spec_range_keys(m, from)[i].0 >= from,
        forall|s: Slot| m.contains_key(s) && s.0 >= from ==> spec_range_keys(m, from).contains(s),
{}

pub proof fn lemma_push_contains<T>(s: Seq<T>)
    requires s.len() > 0,
    ensures
        s.contains(s.last()),
        forall|y: T| s.drop_last().contains(y) ==> #[trigger] s.contains(y),
{
    assert(s[s.len() - 1] == s.last());
    assert forall|y: T| s.drop_last().contains(y) implies #[trigger] s.contains(y) by {
        let i = choose|i: int| 0 <= i < s.drop_last().len() && s.drop_last()[i] == y;
        assert(s[i] == y);
    }
}

// some slot >= from stores this certificate
pub open spec fn stored_from(m: Map<Slot, SlotState>, from: int, c: Cert) -> bool {
    exists|s: Slot| s.0 >= from && m.contains_key(s) && #[trigger] m[s].stores_cert(c)
}
// [C18] the tail of the bundle: exactly the certificates stored for slots after the finalized one
pub open spec fn tail_ok(p: &PoolImpl, tail: Seq<Cert>) -> bool {
    &&& forall|i: int| 0 <= i < tail.len() ==> stored_from(p.slot_states@, p.hi() + 1, #[trigger] tail[i])
    &&& forall|c: Cert| #[trigger] stored_from(p.slot_states@, p.hi() + 1, c) ==> tail.contains(c)
}
// [C18] the head of the bundle: certificates proving the highest finalized slot (none only while nothing
// beyond genesis is finalized)
pub open spec fn head_ok(p: &PoolImpl, head: Seq<Cert>) -> bool {
    if p.hi() > 0 { bundle_proves_final(&p.slot_states@[p.finality_tracker.highest_finalized_slot], head) }
    else { head.len() == 0 || bundle_proves_final(&p.slot_states@[p.finality_tracker.highest_finalized_slot], head) }
}
// [C18] the votes of the bundle: exactly the node's own stored votes for slots after the finalized one
pub open spec fn votes_ok(p: &PoolImpl, votes: Seq<Vote>) -> bool {
    &&& forall|i: int| 0 <= i < votes.len() ==> own_stored_from(p.slot_states@, p.hi() + 1, p.epoch_info.own_id.0 as int, #[trigger] votes[i])
    &&& forall|v: Vote| #[trigger] own_stored_from(p.slot_states@, p.hi() + 1, p.epoch_info.own_id.0 as int, v) ==> votes.contains(v)
}
// the event handed to the voting component for re-broadcast
pub uninterp spec fn was_sent(e: PoolEvent) -> bool;
pub uninterp spec fn was_sent_standstill(next: Slot, certs: Seq<Cert>, votes: Seq<Vote>) -> bool;

// ---------------------------------------------------------------- C06 pool-level wiring specification
/*@ extract src/consensus/pool/finality_tracker.rs :: struct FinalizationEvent
derive
@*/
/*@ include units/finality/spec.rs @*/
impl SlotState {
    // "notarized-fallback-or-stronger certified" (the postcondition PROVED for is_notar_fallback_or_stronger in unit slot_state)
    pub open spec fn nf_or_stronger(&self, h: BlockHash) -> bool {
        (self.certificates.notar matches Some(c) && c.block_hash == h)
            || (self.certificates.fast_finalize matches Some(c) && c.block_hash == h)
            || self.has_nf_cert(h)
    }
}
// the block a certificate certifies (notar, notar-fallback, fast-final), if any
// what storing certificate c does to the certificates of its slot (the postcondition PROVED for SlotState::add_cert)
pub open spec fn certs_added(o: SlotState, n: SlotState, c: Cert) -> bool {
    match c {
        Cert::Notar(x) => n.certificates.notar == Some(x) && n.certificates.notar_fallback == o.certificates.notar_fallback
            && n.certificates.skip == o.certificates.skip && n.certificates.fast_finalize == o.certificates.fast_finalize
            && n.certificates.finalize == o.certificates.finalize,
        Cert::NotarFallback(x) => n.certificates.notar_fallback@ == (if o.has_nf_cert(x.block_hash) { o.certificates.notar_fallback@ } else { o.certificates.notar_fallback@.push(x) })
            && n.certificates.notar == o.certificates.notar
            && n.certificates.skip == o.certificates.skip && n.certificates.fast_finalize == o.certificates.fast_finalize
            && n.certificates.finalize == o.certificates.finalize,
        Cert::Skip(x) => n.certificates.skip == Some(x) && n.certificates.notar_fallback == o.certificates.notar_fallback
            && n.certificates.notar == o.certificates.notar && n.certificates.fast_finalize == o.certificates.fast_finalize
            && n.certificates.finalize == o.certificates.finalize,
        Cert::FastFinal(x) => n.certificates.fast_finalize == Some(x) && n.certificates.notar_fallback == o.certificates.notar_fallback
            && n.certificates.skip == o.certificates.skip && n.certificates.notar == o.certificates.notar
            && n.certificates.finalize == o.certificates.finalize,
        Cert::Final(x) => n.certificates.finalize == Some(x) && n.certificates.notar_fallback == o.certificates.notar_fallback
            && n.certificates.skip == o.certificates.skip && n.certificates.fast_finalize == o.certificates.fast_finalize
            && n.certificates.notar == o.certificates.notar,
    }
}
// add_valid_cert: `a` is the state right after the certificate was stored, `f` a later state that keeps a subset of the slot
// states with their certificates
pub proof fn lemma_certs_after(pre: &PoolImpl, a: &PoolImpl, f: &PoolImpl, cert: Cert)
    requires
        a.slot_states@ == pre.slot_states@.insert(cert.spec_slot(), a.slot_states@[cert.spec_slot()]),
        certs_added(pre.st(cert.spec_slot()), a.slot_states@[cert.spec_slot()], cert),
        forall|sl: Slot| #[trigger] f.slot_states@.contains_key(sl) ==> a.slot_states@.contains_key(sl) && f.slot_states@[sl].certificates == a.slot_states@[sl].certificates,
    ensures
        f.slot_states@.contains_key(cert.spec_slot()) ==> certs_added(pre.st(cert.spec_slot()), f.slot_states@[cert.spec_slot()], cert),
        forall|sl: Slot| sl != cert.spec_slot() && #[trigger] f.slot_states@.contains_key(sl) ==> f.slot_states@[sl].certificates == pre.st(sl).certificates,
{
    assert forall|sl: Slot| sl != cert.spec_slot() && #[trigger] f.slot_states@.contains_key(sl) implies f.slot_states@[sl].certificates == pre.st(sl).certificates by {
        assert(a.slot_states@.contains_key(sl));
        assert(pre.slot_states@.contains_key(sl));
    }
}
// C08 at the pool: the certificate that completes the proof of a slot - a fast-finalization certificate for a slot without a
// final hash, a finalization certificate meeting a notarized block, a notarization certificate meeting a pending finalization
pub open spec fn cert_finalizes(t: &FinalityTracker, c: Cert) -> bool {
    match c {
        Cert::FastFinal(x) => fin_hash(t.st(x.slot)) is None,
        Cert::Final(x) => st_is_notarized(t.st(x.slot)),
        Cert::Notar(x) => t.st(x.slot) == Some(FinalizationStatus::FinalPendingNotar),
        _ => false,
    }
}
pub open spec fn max_int(a: int, b: int) -> int { if a >= b { a } else { b } }
pub open spec fn cert_certifies(c: Cert) -> Option<BlockId> {
    match c {
        Cert::Notar(x) => Some((x.slot, x.block_hash)),
        Cert::NotarFallback(x) => Some((x.slot, x.block_hash)),
        Cert::FastFinal(x) => Some((x.slot, x.block_hash)),
        _ => None,
    }
}
impl PoolImpl {
    pub open spec fn certified(&self, b: BlockId) -> bool {
        self.slot_states@.contains_key(b.0) && self.slot_states@[b.0].nf_or_stronger(b.1)
    }
    // block c waits for a certificate of its parent p
    pub open spec fn waits(&self, p: BlockId, c: BlockId) -> bool {
        self.s2n_waiting_parent_cert@.contains_key(p) && self.s2n_waiting_parent_cert@[p]@.contains(c)
    }
    // block c was registered (Pool::add_block) in the state kept for its slot
    pub open spec fn registered(&self, c: BlockId) -> bool {
        self.slot_states@.contains_key(c.0) && self.slot_states@[c.0].parents@.contains_key(c.1)
    }
    // every waiting block is still registered in a slot state the pool keeps: what SlotState::notify_parent_certified
    // (panic!("parent not known")) relies on when the parent's certificate arrives
    pub open spec fn waiting_ok(&self) -> bool {
        forall|p: BlockId, c: BlockId| #[trigger] self.waits(p, c) ==> self.registered(c)
    }
    // "once it is decided the node neither retains ... anything older": no slot state below the pruning watermark
    pub open spec fn retained_ok(&self) -> bool {
        forall|s: Slot| #[trigger] self.slot_states@.contains_key(s) ==> s.0 >= self.lo()
    }
    // ---- C18: what standstill recovery relies on.  The finality tracker keeps a status per slot, the pool keeps the certificates
    // per slot; the two are tied together: a slot the tracker has as Notarized / FinalPendingNotar holds the notarization /
    // finalization certificate, and the highest finalized slot holds the certificates that prove it finalized
    pub open spec fn marks_backed(&self) -> bool {
        &&& forall|s: Slot| (#[trigger] self.finality_tracker.st(s)) == Some(FinalizationStatus::FinalPendingNotar)
                ==> self.slot_states@.contains_key(s) && self.slot_states@[s].certificates.finalize is Some
        // (genesis is notarized from the start, without a certificate)
        &&& forall|s: Slot| s.0 > 0 && st_is_notarized(#[trigger] self.finality_tracker.st(s))
                ==> self.slot_states@.contains_key(s) && self.slot_states@[s].certificates.notar is Some
    }
    pub open spec fn final_backed(&self) -> bool {
        self.hi() > 0 ==> self.slot_states@.contains_key(self.finality_tracker.highest_finalized_slot)
            && self.slot_states@[self.finality_tracker.highest_finalized_slot].proves_finalized()
    }
    pub open spec fn fin_ok(&self) -> bool { self.finality_tracker.wf() && self.marks_backed() && self.final_backed() }
    // the slot states of `self` extend those of `o`: the same slots, no registered block forgotten
    pub open spec fn extends(&self, o: &PoolImpl) -> bool {
        &&& forall|s: Slot| #[trigger] self.slot_states@.contains_key(s) <==> o.slot_states@.contains_key(s)
        &&& forall|c: BlockId| #[trigger] o.registered(c) ==> self.registered(c)
    }
}

// waiting_ok carries over to a state with the same waiting map that forgets no registered block
pub proof fn lemma_waiting_ok_transfer(o: &PoolImpl, n: &PoolImpl)
    requires
        o.waiting_ok(),
        n.s2n_waiting_parent_cert@ == o.s2n_waiting_parent_cert@,
        forall|c: BlockId| #[trigger] o.registered(c) ==> n.registered(c),
    ensures
        n.waiting_ok(),
        forall|p: BlockId, c: BlockId| #[trigger] n.waits(p, c) ==> o.waits(p, c),
        forall|p: BlockId, c: BlockId| #[trigger] o.waits(p, c) ==> n.waits(p, c),
{
    assert forall|p: BlockId, c: BlockId| #[trigger] n.waits(p, c) implies n.registered(c) by { assert(o.waits(p, c)); }
}
// the slot state a slot has or gets on first use is well formed in a well-formed pool
pub proof fn lemma_st_wf(o: &PoolImpl, slot: Slot)
    requires o.wf_states(),
    ensures o.st(slot).wf() && o.st(slot).slot == slot && o.st(slot).epoch_info == o.epoch_info,
{
    broadcast use axiom_fresh_slot_state;
    if !o.slot_states@.contains_key(slot) {
        let f = spec_fresh_slot_state(slot, o.epoch_info);
        let g = spec_fresh_slot_state(Slot(0), o.epoch_info);
        assert(f.epoch_info == g.epoch_info);
        assert(f.wf_epoch());
    }
}
// wf_states carries over when one slot's state is replaced by one with the same votes and counters (what every SlotState
// operation the pool calls, except add_vote, guarantees)
pub proof fn lemma_wf_states_update(o: &PoolImpl, n: &PoolImpl, slot: Slot)
    requires
        o.wf_states(),
        n.epoch_info == o.epoch_info,
        n.finality_tracker == o.finality_tracker,
        n.slot_states@ == o.slot_states@.insert(slot, n.slot_states@[slot]),
        n.slot_states@[slot].same_votes(&o.st(slot)),
        n.slot_states@[slot].voted_stakes == o.st(slot).voted_stakes,
    ensures
        n.wf_states(),
{
    lemma_st_wf(o, slot);
    SlotState::lemma_wf_transfer(&o.st(slot), &n.slot_states@[slot], Pending::Nothing);
    assert forall|s: Slot| #[trigger] n.slot_states@.contains_key(s) implies n.slot_states@[s].wf()
        && n.slot_states@[s].slot == s && n.slot_states@[s].epoch_info == n.epoch_info by {
        if s != slot { assert(o.slot_states@.contains_key(s)); }
    }
}
// what add_valid_cert knows after telling the blocks waiting for `bid`: `m` is the state before, `n` after
// PoolImpl::notify_waiting_children, `pre` the state the certificate was added to
pub proof fn lemma_after_notify(pre: &PoolImpl, m: &PoolImpl, n: &PoolImpl, bid: BlockId)
    requires
        m.waiting_ok(), m.retained_ok(),
        forall|p: BlockId, c: BlockId| #[trigger] m.waits(p, c) ==> pre.waits(p, c) && c.0.0 >= m.lo(),
        forall|p: BlockId, c: BlockId| #[trigger] pre.waits(p, c) && c.0.0 >= m.lo() ==> m.waits(p, c),
        // the postcondition of notify_waiting_children
        n.finality_tracker == m.finality_tracker, n.extends(m), n.waiting_ok(),
        !n.s2n_waiting_parent_cert@.contains_key(bid),
        forall|p: BlockId| p != bid ==> (#[trigger] n.s2n_waiting_parent_cert@.contains_key(p) <==> m.s2n_waiting_parent_cert@.contains_key(p))
            && (n.s2n_waiting_parent_cert@.contains_key(p) ==> n.s2n_waiting_parent_cert@[p] == m.s2n_waiting_parent_cert@[p]),
        m.s2n_waiting_parent_cert@.contains_key(bid) ==> forall|k: int| 0 <= k < m.s2n_waiting_parent_cert@[bid]@.len() ==>
            n.st((#[trigger] m.s2n_waiting_parent_cert@[bid]@[k]).0).parents@.contains_key(m.s2n_waiting_parent_cert@[bid]@[k].1)
            && n.st(m.s2n_waiting_parent_cert@[bid]@[k].0).parents@[m.s2n_waiting_parent_cert@[bid]@[k].1] == ParentStatus::Certified,
    ensures
        n.retained_ok(), n.lo() == m.lo(),
        forall|p: BlockId, c: BlockId| #[trigger] n.waits(p, c) ==> pre.waits(p, c) && c.0.0 >= n.lo(),
        forall|p: BlockId, c: BlockId| #[trigger] pre.waits(p, c) && p != bid && c.0.0 >= n.lo() ==> n.waits(p, c),
        forall|c: BlockId| #[trigger] pre.waits(bid, c) && c.0.0 >= n.lo() ==>
            n.st(c.0).parents@.contains_key(c.1) && n.st(c.0).parents@[c.1] == ParentStatus::Certified,
{
    assert forall|p: BlockId, c: BlockId| #[trigger] n.waits(p, c) implies pre.waits(p, c) && c.0.0 >= n.lo() by {
        assert(p != bid);
        assert(m.waits(p, c));
    }
    assert forall|p: BlockId, c: BlockId| #[trigger] pre.waits(p, c) && p != bid && c.0.0 >= n.lo() implies n.waits(p, c) by {
        assert(m.waits(p, c));
    }
    assert forall|c: BlockId| #[trigger] pre.waits(bid, c) && c.0.0 >= n.lo() implies
        n.st(c.0).parents@.contains_key(c.1) && n.st(c.0).parents@[c.1] == ParentStatus::Certified by {
        assert(m.waits(bid, c));
        let k = choose|k: int| 0 <= k < m.s2n_waiting_parent_cert@[bid]@.len() && m.s2n_waiting_parent_cert@[bid]@[k] == c;
        assert(m.s2n_waiting_parent_cert@[bid]@[k] == c);
    }
}
// a block that waits is registered in a kept slot state, hence in a slot at or above the watermark
pub proof fn lemma_waiting_slot_bound(o: &PoolImpl, p: BlockId, c: BlockId)
    requires o.waiting_ok(), o.retained_ok(), o.waits(p, c),
    ensures c.0.0 >= o.lo(), o.registered(c),
{
    assert(o.registered(c));
    assert(o.slot_states@.contains_key(c.0));
}

// ---------------------------------------------------------------- C18: own votes of later slots
pub open spec fn nf_value_of(m: Map<BlockHash, NotarFallbackVote>, x: NotarFallbackVote) -> bool {
    exists|h: BlockHash| m.contains_key(h) && #[trigger] m[h] == x
}
impl SlotState {
    // v is one of the votes validator `own` cast in this slot, as stored
    pub open spec fn stores_own_vote(&self, own: int, v: Vote) -> bool {
        match v {
            Vote::Final(x) => self.votes.finalize@[own] == Some(x),
            Vote::Notar(x) => self.votes.notar@[own] == Some(x),
            Vote::NotarFallback(x) => nf_value_of(self.votes.notar_fallback@[own]@, x),
            Vote::Skip(x) => self.votes.skip@[own] == Some(x),
            Vote::SkipFallback(x) => self.votes.skip_fallback@[own] == Some(x),
        }
    }
}
pub open spec fn own_stored_from(m: Map<Slot, SlotState>, from: int, own: int, v: Vote) -> bool {
    exists|s: Slot| s.0 >= from && m.contains_key(s) && #[trigger] m[s].stores_own_vote(own, v)
}

pub mod code {
use super::*;
broadcast use super::axiom_Slot_obeys_cmp_laws, super::axiom_block_id_obeys_cmp_laws, super::axiom_DoubleMerkleRoot_obeys_cmp_laws;

/*@ include units/common/std_specs.rs @*/

impl Slot {
/*@ extract src/types/slot.rs :: impl Slot/fn next
ret r
requires
        // [C18.slot_next_no_overflow C10.slot_next_no_overflow]
        self.0 < u64::MAX,
ensures
        r.0 == self.0 + 1,
@*/
/*@ extract src/types/slot.rs :: impl Slot/fn is_genesis
ret r
ensures
        r == (self.0 == 0),
@*/
/*@ extract src/types/slot.rs :: impl Slot/fn new
ret r
ensures
        r.0 == slot,
@*/
/*@ extract src/types/slot.rs :: impl Slot/fn inner
ret r
ensures
        r == self.0,
@*/
}

impl FinalityTracker {
/*@ stub units/finality/unit.rs :: src/consensus/pool/finality_tracker.rs :: impl FinalityTracker/fn highest_finalized_slot @*/
/*@ stub units/finality/unit.rs :: src/consensus/pool/finality_tracker.rs :: impl FinalityTracker/fn first_unpruned_slot @*/
}

impl SlotState {
/*@ stub units/slot_state/unit.rs :: src/consensus/pool/slot_state.rs :: impl SlotState/fn check_slashable_offence @*/
/*@ stub units/slot_state/unit.rs :: src/consensus/pool/slot_state.rs :: impl SlotState/fn should_ignore_vote @*/
/*@ stub units/slot_state/unit.rs :: src/consensus/pool/slot_state.rs :: impl SlotState/fn add_vote @*/
}

impl ValidatedVote {
/*@ extract src/consensus/validated_vote.rs :: impl ValidatedVote/fn slot
ret r
ensures
        r == self.vote.spec_slot(),
@*/
/*@ extract src/consensus/validated_vote.rs :: impl ValidatedVote/fn into_vote
ret r
ensures
        r == self.vote,
@*/
}

// SmallVec by-value iteration (rewrite R4 turns `for x in smallvec` into Rust's own desugaring)
#[verifier::external_body]
#[verifier::reject_recursive_types(T)]
pub struct SvIter<T> { _p: std::marker::PhantomData<T> }
impl<T> SvIter<T> {
    pub uninterp spec fn rest(&self) -> Seq<T>;
    #[verifier::external_body]
    pub fn next(&mut self) -> (r: Option<T>)
        ensures
            old(self).rest().len() == 0 ==> r is None && final(self).rest() == old(self).rest(),
            old(self).rest().len() > 0 ==> r == Some(old(self).rest()[0]) && final(self).rest() == old(self).rest().skip(1),
    { unimplemented!() }
}
impl<T, const N: usize> SmallVec<[T; N]> {
    #[verifier::external_body]
    pub fn into_iter(self) -> (r: SvIter<T>)
        ensures r.rest() == self.view()
    { unimplemented!() }
}

// Rewrite R8: `m.split_off(&k)` (no vstd specification) is named `m.verif_split_off(&k)`, a TRUSTED
// method with the documented behaviour: the result keeps exactly the keys >= k.
pub trait VerifSplitOff: Sized {
    spec fn spec_map(&self) -> Map<Slot, SlotState>;
    fn verif_split_off(&mut self, root: &Slot) -> (r: Self)
        ensures
            forall|s: Slot| #[trigger] r.spec_map().contains_key(s) <==> (old(self).spec_map().contains_key(s) && s.0 >= root.0),
            forall|s: Slot| r.spec_map().contains_key(s) ==> r.spec_map()[s] == old(self).spec_map()[s];
}
impl VerifSplitOff for BTreeMap<Slot, SlotState> {
    open spec fn spec_map(&self) -> Map<Slot, SlotState> { self@ }
    #[verifier::external_body]
    fn verif_split_off(&mut self, root: &Slot) -> (r: Self) { unimplemented!() }
}


// Rewrite R9: `.clone()` of an Option of a #[derive(Clone)] type (vstd's Option::clone spec does not say the
// result is Some): TRUSTED to be a faithful copy.
#[verifier::external_body]
pub fn verif_clone_opt<T: Clone>(o: &Option<T>) -> (r: Option<T>)
    ensures r == *o
{ unimplemented!() }

// Rewrite R8 wrappers (iterator adapters / generic extend): TRUSTED documented behaviour.
#[verifier::external_body]
pub fn verif_any_nf_for_block(v: &Vec<NotarFallbackCert>, h: &BlockHash) -> (r: bool)
    ensures r == exists|i: int| 0 <= i < v@.len() && #[trigger] v@[i].block_hash == *h
{ unimplemented!() }
#[verifier::external_body]
pub fn verif_extend_certs(v: &mut Vec<Cert>, more: Vec<Cert>)
    ensures final(v)@ == old(v)@ + more@
{ unimplemented!() }

impl ValidatedCert {
/*@ extract src/consensus/validated_cert.rs :: impl ValidatedCert/fn slot
ret r
ensures
        r == self.cert.spec_slot(),
@*/
/*@ extract src/consensus/validated_cert.rs :: impl ValidatedCert/fn into_cert
ret r
ensures
        r == self.cert,
@*/
}
impl Cert {
/*@ extract src/consensus/cert.rs :: impl Cert/fn slot
ret r
ensures
        r == self.spec_slot(),
@*/
}
impl Clone for NotarCert { #[verifier::external_body] fn clone(&self) -> (r: Self) ensures r == *self { unimplemented!() } }
impl Clone for FastFinalCert { #[verifier::external_body] fn clone(&self) -> (r: Self) ensures r == *self { unimplemented!() } }
impl Clone for FinalCert { #[verifier::external_body] fn clone(&self) -> (r: Self) ensures r == *self { unimplemented!() } }
impl Clone for NotarFallbackCert { #[verifier::external_body] fn clone(&self) -> (r: Self) ensures r == *self { unimplemented!() } }
impl Clone for SkipCert { #[verifier::external_body] fn clone(&self) -> (r: Self) ensures r == *self { unimplemented!() } }

impl PoolImpl {
    // ASSUMED contracts (bodies iterate `BTreeMap::range` with a generic RangeBounds; not yet under contract):
    // every certificate / own vote stored for a slot after `from`, and only those.
    // Rewrite R4 wrapper: the states `self.slot_states.range(from..)` visits, in order (TRUSTED).
    #[verifier::external_body]
    pub fn verif_range_from<'a>(m: &'a BTreeMap<Slot, SlotState>, from: &std::ops::RangeFrom<Slot>) -> (r: Vec<&'a SlotState>)
        ensures
            r@.len() == spec_range_keys(m@, from.start.0 as int).len(),
            forall|i: int| 0 <= i < r@.len() ==> *#[trigger] r@[i] == m@[spec_range_keys(m@, from.start.0 as int)[i]],
    { unimplemented!() }

/*@ extract src/consensus/pool.rs :: impl PoolImpl/fn get_certs
props C18
ret r
sig `slots: impl RangeBounds<Slot>` => `slots: std::ops::RangeFrom<Slot>`
rewrite[R9] `slot_state.certificates.finalize.clone()` => `verif_clone_opt(&slot_state.certificates.finalize)`
rewrite[R9] `slot_state.certificates.fast_finalize.clone()` => `verif_clone_opt(&slot_state.certificates.fast_finalize)`
rewrite[R9] `slot_state.certificates.notar.clone()` => `verif_clone_opt(&slot_state.certificates.notar)`
rewrite[R9] `slot_state.certificates.skip.clone()` => `verif_clone_opt(&slot_state.certificates.skip)`
rewrite[R4] `for (_, slot_state) in self.slot_states.range(slots) {` => `let verif_states = Self::verif_range_from(&self.slot_states, &slots); let mut verif_i: usize = 0; while verif_i < verif_states.len() { let slot_state = verif_states[verif_i]; verif_i += 1;`
rewrite[R4] `for cert in slot_state.certificates.notar_fallback.iter().cloned() {` => `let verif_nf = &slot_state.certificates.notar_fallback; let mut verif_j: usize = 0; while verif_j < verif_nf.len() { let cert = verif_nf[verif_j].clone(); verif_j += 1;`
ensures
        // [C18.every_later_certificate_and_only_those]
        forall|i: int| 0 <= i < r@.len() ==> stored_from(self.slot_states@, slots.start.0 as int, #[trigger] r@[i]),
        forall|c: Cert| #[trigger] stored_from(self.slot_states@, slots.start.0 as int, c) ==> r@.contains(c),
before `let verif_states = Self::verif_range_from(&self.slot_states, &slots);`
        proof { broadcast use axiom_range_keys; }
        let ghost from = slots.start.0 as int;
        let ghost keys = spec_range_keys(self.slot_states@, from);
loop 0
        invariant
            verif_i <= verif_states@.len(),
            verif_states@.len() == keys.len(),
            keys == spec_range_keys(self.slot_states@, from),
            forall|i: int| 0 <= i < verif_states@.len() ==> *#[trigger] verif_states@[i] == self.slot_states@[keys[i]],
            forall|i: int| 0 <= i < keys.len() ==> self.slot_states@.contains_key(#[trigger] keys[i]) && keys[i].0 >= from,
            forall|i: int| 0 <= i < certs@.len() ==> stored_from(self.slot_states@, from, #[trigger] certs@[i]),
            forall|j: int, c: Cert| 0 <= j < verif_i && #[trigger] self.slot_states@[keys[j]].stores_cert(c) ==> certs@.contains(c),
        decreases verif_states@.len() - verif_i,
loop 1
        invariant
            0 < verif_i <= verif_states@.len(),
            verif_states@.len() == keys.len(),
            *slot_state == self.slot_states@[keys[verif_i - 1]],
            self.slot_states@.contains_key(keys[verif_i - 1]) && keys[verif_i - 1].0 >= from,
            verif_nf@ == slot_state.certificates.notar_fallback@,
            verif_j <= verif_nf@.len(),
            forall|i: int| 0 <= i < certs@.len() ==> stored_from(self.slot_states@, from, #[trigger] certs@[i]),
            forall|j: int, c: Cert| 0 <= j < verif_i - 1 && #[trigger] self.slot_states@[keys[j]].stores_cert(c) ==> certs@.contains(c),
            slot_state.certificates.finalize is Some ==> certs@.contains(Cert::Final(slot_state.certificates.finalize->0)),
            slot_state.certificates.fast_finalize is Some ==> certs@.contains(Cert::FastFinal(slot_state.certificates.fast_finalize->0)),
            slot_state.certificates.notar is Some ==> certs@.contains(Cert::Notar(slot_state.certificates.notar->0)),
            forall|k: int| 0 <= k < verif_j ==> certs@.contains(Cert::NotarFallback(#[trigger] verif_nf@[k])),
        decreases verif_nf@.len() - verif_j,
before `if let Some(cert) = verif_clone_opt(&slot_state.certificates.fast_finalize)`
        proof { assert(slot_state.certificates.finalize is Some ==> certs@.contains(Cert::Final(slot_state.certificates.finalize->0))); }
before `if let Some(cert) = verif_clone_opt(&slot_state.certificates.notar)`
        proof {
            assert(slot_state.certificates.finalize is Some ==> certs@.contains(Cert::Final(slot_state.certificates.finalize->0)));
            assert(slot_state.certificates.fast_finalize is Some ==> certs@.contains(Cert::FastFinal(slot_state.certificates.fast_finalize->0)));
        }
before `let verif_nf = &slot_state.certificates.notar_fallback;`
        proof {
            assert(slot_state.certificates.finalize is Some ==> certs@.contains(Cert::Final(slot_state.certificates.finalize->0)));
            assert(slot_state.certificates.fast_finalize is Some ==> certs@.contains(Cert::FastFinal(slot_state.certificates.fast_finalize->0)));
            assert(slot_state.certificates.notar is Some ==> certs@.contains(Cert::Notar(slot_state.certificates.notar->0)));
        }
before `certs.push(Cert::Final(cert));`
        let ghost prev = certs@;
after `certs.push(Cert::Final(cert));`
        proof {
            assert(certs@.drop_last() =~= prev);
            lemma_push_contains(certs@);
            assert forall|y: Cert| prev.contains(y) implies #[trigger] certs@.contains(y) by {}
            assert(stored_from(self.slot_states@, from, certs@.last())) by {
                assert(self.slot_states@[keys[verif_i - 1]].stores_cert(certs@.last()));
            }
        }
before `certs.push(Cert::FastFinal(cert));`
        let ghost prev = certs@;
after `certs.push(Cert::FastFinal(cert));`
        proof {
            assert(certs@.drop_last() =~= prev);
            lemma_push_contains(certs@);
            assert forall|y: Cert| prev.contains(y) implies #[trigger] certs@.contains(y) by {}
            assert(stored_from(self.slot_states@, from, certs@.last())) by {
                assert(self.slot_states@[keys[verif_i - 1]].stores_cert(certs@.last()));
            }
        }
before `certs.push(Cert::Notar(cert));`
        let ghost prev = certs@;
after `certs.push(Cert::Notar(cert));`
        proof {
            assert(certs@.drop_last() =~= prev);
            lemma_push_contains(certs@);
            assert forall|y: Cert| prev.contains(y) implies #[trigger] certs@.contains(y) by {}
            assert(stored_from(self.slot_states@, from, certs@.last())) by {
                assert(self.slot_states@[keys[verif_i - 1]].stores_cert(certs@.last()));
            }
        }
before `certs.push(Cert::NotarFallback(cert));`
        let ghost prev = certs@;
after `certs.push(Cert::NotarFallback(cert));`
        proof {
            assert(certs@.drop_last() =~= prev);
            lemma_push_contains(certs@);
            assert forall|y: Cert| prev.contains(y) implies #[trigger] certs@.contains(y) by {}
            assert(stored_from(self.slot_states@, from, certs@.last())) by {
                assert(self.slot_states@[keys[verif_i - 1]].stores_cert(certs@.last()));
            }
        }
before `certs.push(Cert::Skip(cert));`
        let ghost prev = certs@;
after `certs.push(Cert::Skip(cert));`
        proof {
            assert(certs@.drop_last() =~= prev);
            lemma_push_contains(certs@);
            assert forall|y: Cert| prev.contains(y) implies #[trigger] certs@.contains(y) by {}
            assert(stored_from(self.slot_states@, from, certs@.last())) by {
                assert(self.slot_states@[keys[verif_i - 1]].stores_cert(certs@.last()));
            }
        }
@*/

    // R4: `map.values()` of one validator's notar-fallback votes, in key order (TRUSTED): exactly the map's values
    #[verifier::external_body]
    pub fn verif_nf_values<'a>(m: &'a BTreeMap<BlockHash, NotarFallbackVote>) -> (r: Vec<&'a NotarFallbackVote>)
        ensures
            forall|i: int| 0 <= i < r@.len() ==> nf_value_of(m@, *#[trigger] r@[i]),
            forall|x: NotarFallbackVote| #[trigger] nf_value_of(m@, x) ==> exists|i: int| 0 <= i < r@.len() && *#[trigger] r@[i] == x,
    { unimplemented!() }

/*@ extract src/consensus/pool.rs :: impl PoolImpl/fn get_own_votes
props C18 C10
ret r
sig `slots: impl RangeBounds<Slot>` => `slots: std::ops::RangeFrom<Slot>`
rewrite[R4] `for (_, slot_state) in self.slot_states.range(slots) {` => `let verif_states = Self::verif_range_from(&self.slot_states, &slots); let mut verif_i: usize = 0; while verif_i < verif_states.len() { let slot_state = verif_states[verif_i]; verif_i += 1;`
rewrite[R4] `for vote in slot_state.votes.notar_fallback[own_id.as_usize()].values() {` => `let verif_nfv = Self::verif_nf_values(&slot_state.votes.notar_fallback[own_id.as_usize()]); let mut verif_j: usize = 0; while verif_j < verif_nfv.len() { let vote = verif_nfv[verif_j]; verif_j += 1;`
requires
        self.wf(),
        // type invariant of ValidatorEpochInfo (its constructor asserts it): the own index is a validator of the epoch
        (self.epoch_info.own_id.0 as int) < self.epoch_info.epoch.validators@.len(),
ensures
        // [C18.own_votes_of_later_slots_and_only_those]
        forall|i: int| 0 <= i < r@.len() ==> own_stored_from(self.slot_states@, slots.start.0 as int, self.epoch_info.own_id.0 as int, #[trigger] r@[i]),
        forall|v: Vote| #[trigger] own_stored_from(self.slot_states@, slots.start.0 as int, self.epoch_info.own_id.0 as int, v) ==> r@.contains(v),
before `let verif_states = Self::verif_range_from(&self.slot_states, &slots);`
        proof { broadcast use axiom_range_keys; }
        let ghost from = slots.start.0 as int;
        let ghost own = self.epoch_info.own_id.0 as int;
        let ghost keys = spec_range_keys(self.slot_states@, from);
loop 0
        invariant
            self.wf() && own == self.epoch_info.own_id.0 as int && own_id == self.epoch_info.own_id && own < self.epoch_info.epoch.validators@.len(),
            verif_i <= verif_states@.len(),
            verif_states@.len() == keys.len(),
            keys == spec_range_keys(self.slot_states@, from),
            forall|i: int| 0 <= i < verif_states@.len() ==> *#[trigger] verif_states@[i] == self.slot_states@[keys[i]],
            forall|i: int| 0 <= i < keys.len() ==> self.slot_states@.contains_key(#[trigger] keys[i]) && keys[i].0 >= from,
            forall|i: int| 0 <= i < votes@.len() ==> own_stored_from(self.slot_states@, from, own, #[trigger] votes@[i]),
            forall|j: int, v: Vote| 0 <= j < verif_i && #[trigger] self.slot_states@[keys[j]].stores_own_vote(own, v) ==> votes@.contains(v),
        decreases verif_states@.len() - verif_i,
loop 1
        invariant
            self.wf() && own == self.epoch_info.own_id.0 as int && own_id == self.epoch_info.own_id && own < self.epoch_info.epoch.validators@.len(),
            0 < verif_i <= verif_states@.len(),
            verif_states@.len() == keys.len(),
            *slot_state == self.slot_states@[keys[verif_i - 1]],
            self.slot_states@.contains_key(keys[verif_i - 1]) && keys[verif_i - 1].0 >= from,
            slot_state.votes.shape(slot_state.nv()) && slot_state.nv() == self.epoch_info.epoch.validators@.len(),
            verif_j <= verif_nfv@.len(),
            forall|i: int| 0 <= i < verif_nfv@.len() ==> nf_value_of(slot_state.votes.notar_fallback@[own]@, *#[trigger] verif_nfv@[i]),
            forall|x: NotarFallbackVote| #[trigger] nf_value_of(slot_state.votes.notar_fallback@[own]@, x) ==> exists|i: int| 0 <= i < verif_nfv@.len() && *#[trigger] verif_nfv@[i] == x,
            forall|i: int| 0 <= i < votes@.len() ==> own_stored_from(self.slot_states@, from, own, #[trigger] votes@[i]),
            forall|j: int, v: Vote| 0 <= j < verif_i - 1 && #[trigger] self.slot_states@[keys[j]].stores_own_vote(own, v) ==> votes@.contains(v),
            slot_state.votes.finalize@[own] is Some ==> votes@.contains(Vote::Final(slot_state.votes.finalize@[own]->0)),
            slot_state.votes.notar@[own] is Some ==> votes@.contains(Vote::Notar(slot_state.votes.notar@[own]->0)),
            forall|k: int| 0 <= k < verif_j ==> votes@.contains(Vote::NotarFallback(*#[trigger] verif_nfv@[k])),
        decreases verif_nfv@.len() - verif_j,
before `votes.push(Vote::Final(vote.clone()));`
        let ghost prev = votes@;
after `votes.push(Vote::Final(vote.clone()));`
        proof {
            assert(votes@.drop_last() =~= prev);
            lemma_push_contains(votes@);
            assert forall|y: Vote| prev.contains(y) implies #[trigger] votes@.contains(y) by {}
            assert(own_stored_from(self.slot_states@, from, own, votes@.last())) by {
                assert(self.slot_states@[keys[verif_i - 1]].stores_own_vote(own, votes@.last()));
            }
        }
before `votes.push(Vote::Notar(vote.clone()));`
        let ghost prev = votes@;
after `votes.push(Vote::Notar(vote.clone()));`
        proof {
            assert(votes@.drop_last() =~= prev);
            lemma_push_contains(votes@);
            assert forall|y: Vote| prev.contains(y) implies #[trigger] votes@.contains(y) by {}
            assert(own_stored_from(self.slot_states@, from, own, votes@.last())) by {
                assert(self.slot_states@[keys[verif_i - 1]].stores_own_vote(own, votes@.last()));
            }
        }
before `votes.push(Vote::NotarFallback(vote.clone()));`
        let ghost prev = votes@;
after `votes.push(Vote::NotarFallback(vote.clone()));`
        proof {
            assert(votes@.drop_last() =~= prev);
            lemma_push_contains(votes@);
            assert forall|y: Vote| prev.contains(y) implies #[trigger] votes@.contains(y) by {}
            assert(own_stored_from(self.slot_states@, from, own, votes@.last())) by {
                assert(self.slot_states@[keys[verif_i - 1]].stores_own_vote(own, votes@.last()));
            }
        }
before `votes.push(Vote::Skip(vote.clone()));`
        let ghost prev = votes@;
after `votes.push(Vote::Skip(vote.clone()));`
        proof {
            assert(votes@.drop_last() =~= prev);
            lemma_push_contains(votes@);
            assert forall|y: Vote| prev.contains(y) implies #[trigger] votes@.contains(y) by {}
            assert(own_stored_from(self.slot_states@, from, own, votes@.last())) by {
                assert(self.slot_states@[keys[verif_i - 1]].stores_own_vote(own, votes@.last()));
            }
        }
before `votes.push(Vote::SkipFallback(vote.clone()));`
        let ghost prev = votes@;
after `votes.push(Vote::SkipFallback(vote.clone()));`
        proof {
            assert(votes@.drop_last() =~= prev);
            lemma_push_contains(votes@);
            assert forall|y: Vote| prev.contains(y) implies #[trigger] votes@.contains(y) by {}
            assert(own_stored_from(self.slot_states@, from, own, votes@.last())) by {
                assert(self.slot_states@[keys[verif_i - 1]].stores_own_vote(own, votes@.last()));
            }
        }
before `if let Some(vote) = &slot_state.votes.finalize[own_id.as_usize()] {`
        proof {
            assert(self.slot_states@[keys[verif_i - 1]].wf());
            assert(slot_state.votes.shape(slot_state.nv()));
            assert(slot_state.epoch_info == self.epoch_info);
        }
blockend `if let Some(vote) = &slot_state.votes.finalize[own_id.as_usize()] {`
        proof {
            assert forall|v: Vote| #[trigger] self.slot_states@[keys[verif_i - 1]].stores_own_vote(own, v) implies votes@.contains(v) by {
                match v {
                    Vote::NotarFallback(x) => {
                        let k = choose|k: int| 0 <= k < verif_nfv@.len() && *#[trigger] verif_nfv@[k] == x;
                        assert(votes@.contains(Vote::NotarFallback(*verif_nfv@[k])));
                    }
                    _ => {}
                }
            }
        }
@*/
}

impl ParentReadyTracker {
    #[verifier::external_body]
    pub fn prune(&mut self, new_root: Slot) { unimplemented!() }
}

impl PoolImpl {
    // ASSUMED contract of the `entry(slot).or_insert_with(|| SlotState::new(..))` helper:
    // the state of that slot, created empty on first use; nothing else changes.
    #[verifier::external_body]
    pub fn slot_state(&mut self, slot: Slot) -> (r: &mut SlotState)
        ensures
            *r == old(self).st(slot),
            final(self).slot_states@ == old(self).slot_states@.insert(slot, *final(r)),
            final(self).finality_tracker == old(self).finality_tracker,
            final(self).epoch_info == old(self).epoch_info,
            final(self).s2n_waiting_parent_cert == old(self).s2n_waiting_parent_cert,
    { unimplemented!() }

    // Event / repair channel sends and certificate follow-up: effects on other components are not
    // tracked in this unit.
    #[verifier::external_body]
    pub fn send_votor_event(&self, event: PoolEvent)
        ensures
            was_sent(event),
            event matches PoolEvent::Standstill(s, c, v) ==> was_sent_standstill(s, c@, v@),
    { unimplemented!() }
    #[verifier::external_body]
    pub fn send_repair(&self, block: BlockId) { unimplemented!() }

/*@ extract src/consensus/pool.rs :: impl PoolImpl/fn new
props C18 C08 C06
ret r
ensures
        // [C18.fresh_pool_satisfies_the_invariants] an empty pool satisfies every invariant the operations below keep: nothing
        // waits, nothing is retained, the tracker is well formed, and nothing beyond genesis is finalized
        r.fin_ok() && r.waiting_ok() && r.retained_ok(),
        r.hi() == 0 && r.lo() == 0,
        r.slot_states@ == Map::<Slot, SlotState>::empty(),
        r.epoch_info == epoch_info,
@*/
/*@ extract src/consensus/pool.rs :: impl PoolImpl/fn first_unpruned_slot
props C08 C04
ret r
ensures
        r == self.finality_tracker.first_unpruned_slot,
@*/
/*@ extract src/consensus/pool.rs :: impl Pool for PoolImpl/fn finalized_slot
props C08 C04 C18
ret r
ensures
        r == self.finality_tracker.highest_finalized_slot,
@*/

/*@ extract src/consensus/pool.rs :: impl Pool for PoolImpl/fn add_vote
props C04 C08 C03 C06
elide-async
ret r
rewrite[R4] `for cert in new_certs {` => `let mut verif_it1 = new_certs.into_iter(); loop { let cert = match verif_it1.next() { Some(x) => x, None => break };`
rewrite[R4] `for event in votor_events {` => `let mut verif_it2 = votor_events.into_iter(); loop { let event = match verif_it2.next() { Some(x) => x, None => break };`
rewrite[R4] `for (slot, block_hash) in blocks_to_repair {` => `let mut verif_it3 = blocks_to_repair.into_iter(); loop { let (slot, block_hash) = match verif_it3.next() { Some(x) => x, None => break };`
requires
        old(self).fin_ok(),
        old(self).wf(),
        old(self).waiting_ok() && old(self).retained_ok(),
        // what ValidatedVote::try_new guarantees (C09): the signer is a validator of the epoch
        (vote.vote.spec_signer().0 as int) < old(self).epoch_info.epoch.validators@.len(),
ensures
        // [C08.pool_invariant_is_kept C06.pool_invariant_is_kept C03.pool_invariant_is_kept C04.pool_invariant_is_kept]
        final(self).wf_states(),
        // [C18.finalized_slot_is_backed_by_stored_certificates C10.finalized_slot_is_backed_by_stored_certificates]
        final(self).fin_ok(),
        // [C08.nothing_is_tracked_for_a_decided_slot C03.nothing_is_tracked_for_a_decided_slot] also when the vote completes several
        // certificates at once and one of them decides the slot of the next
        final(self).retained_ok(),
        // [C06.waiting_child_is_still_registered C08.waiting_child_is_still_registered]
        final(self).waiting_ok(),
        // [C04.slot_window_bounds C08.nothing_older_than_watermark_accepted]
        (r == Err::<(), AddVoteError>(AddVoteError::SlotOutOfBounds)) <==> old(self).out_of_bounds(vote.vote.spec_slot()),
        // [C04.slashable_reported_before_duplicate]
        (!old(self).out_of_bounds(vote.vote.spec_slot())
            && conflict_exists(old(self).st(vote.vote.spec_slot()).votes.vv(vote.vote.spec_signer().0 as int), vote.vote.spec_kind()))
            ==> (r matches Err(AddVoteError::Slashable(o))
                 && offence_possible(old(self).st(vote.vote.spec_slot()).votes.vv(vote.vote.spec_signer().0 as int), vote.vote.spec_kind(), o.kind())
                 && o.who() == (vote.vote.spec_signer(), vote.vote.spec_slot())),
        // [C04.repeat_refused_as_duplicate]
        (!old(self).out_of_bounds(vote.vote.spec_slot())
            && !conflict_exists(old(self).st(vote.vote.spec_slot()).votes.vv(vote.vote.spec_signer().0 as int), vote.vote.spec_kind())
            && repeat_exists(old(self).st(vote.vote.spec_slot()).votes.vv(vote.vote.spec_signer().0 as int), vote.vote.spec_kind()))
            ==> r == Err::<(), AddVoteError>(AddVoteError::Duplicate),
        // [C04.legitimate_vote_accepted]
        (!old(self).out_of_bounds(vote.vote.spec_slot())
            && !conflict_exists(old(self).st(vote.vote.spec_slot()).votes.vv(vote.vote.spec_signer().0 as int), vote.vote.spec_kind())
            && !repeat_exists(old(self).st(vote.vote.spec_slot()).votes.vv(vote.vote.spec_signer().0 as int), vote.vote.spec_kind()))
            ==> r is Ok,
before `let slot = vote.slot();`
        let ghost pre = *self;
        let ghost gv = vote.vote;
        proof { broadcast use axiom_fresh_slot_state; }
before `return Err(AddVoteError::Slashable(offence));`
        proof {
            let f = *self;
            assert forall|c: BlockId| #[trigger] pre.registered(c) implies f.registered(c) by { if c.0 == slot {} }
            lemma_waiting_ok_transfer(&pre, &f);
            assert forall|s: Slot| #[trigger] pre.slot_states@.contains_key(s) && s.0 >= pre.lo()
                implies f.slot_states@.contains_key(s) && certs_grow(pre.slot_states@[s], f.slot_states@[s]) by { if s == slot {} }
            lemma_fin_ok_transfer(&pre, &f);
            lemma_st_wf(&pre, slot);
            assert forall|s: Slot| #[trigger] f.slot_states@.contains_key(s) implies f.slot_states@[s].wf()
                && f.slot_states@[s].slot == s && f.slot_states@[s].epoch_info == f.epoch_info by {
                if s != slot { assert(pre.slot_states@.contains_key(s)); }
            }
        }
before `return Err(AddVoteError::Duplicate);`
        proof {
            let f = *self;
            assert forall|c: BlockId| #[trigger] pre.registered(c) implies f.registered(c) by { if c.0 == slot {} }
            lemma_waiting_ok_transfer(&pre, &f);
            assert forall|s: Slot| #[trigger] pre.slot_states@.contains_key(s) && s.0 >= pre.lo()
                implies f.slot_states@.contains_key(s) && certs_grow(pre.slot_states@[s], f.slot_states@[s]) by { if s == slot {} }
            lemma_fin_ok_transfer(&pre, &f);
            lemma_st_wf(&pre, slot);
            assert forall|s: Slot| #[trigger] f.slot_states@.contains_key(s) implies f.slot_states@[s].wf()
                && f.slot_states@[s].slot == s && f.slot_states@[s].epoch_info == f.epoch_info by {
                if s != slot { assert(pre.slot_states@.contains_key(s)); }
            }
        }
after `let (new_certs, votor_events, blocks_to_repair) = slot_state.add_vote(vote, voter_stake);`
        proof {
            let f = *self;
            assert forall|c: BlockId| #[trigger] pre.registered(c) implies f.registered(c) by { if c.0 == slot {} }
            lemma_waiting_ok_transfer(&pre, &f);
            assert(f.retained_ok());
            lemma_st_wf(&pre, slot);
            assert forall|s: Slot| #[trigger] f.slot_states@.contains_key(s) implies f.slot_states@[s].wf()
                && f.slot_states@[s].slot == s && f.slot_states@[s].epoch_info == f.epoch_info by {
                if s != slot { assert(pre.slot_states@.contains_key(s)); }
            }
            assert(f.wf_states());
            assert forall|s: Slot| #[trigger] pre.slot_states@.contains_key(s) && s.0 >= pre.lo()
                implies f.slot_states@.contains_key(s) && certs_grow(pre.slot_states@[s], f.slot_states@[s]) by { if s == slot {} }
            lemma_fin_ok_transfer(&pre, &f);
            // the certificates the vote completed are certificates of this slot, which passed the slot-window check
            assert forall|k: int| 0 <= k < new_certs@.len() implies (#[trigger] new_certs@[k]).spec_slot().0 < u64::MAX by {
                assert(f.slot_states@[slot].cert_ok(new_certs@[k]));
            }
        }
loop 0
        invariant self.waiting_ok() && self.retained_ok(), self.fin_ok(), self.wf_states(),
            forall|k: int| 0 <= k < verif_it1.rest().len() ==> (#[trigger] verif_it1.rest()[k]).spec_slot().0 < u64::MAX,
        decreases verif_it1.rest().len(),
loop 1
        invariant self.waiting_ok() && self.retained_ok(), self.fin_ok(), self.wf_states(),
        decreases verif_it2.rest().len(),
loop 2
        invariant self.waiting_ok() && self.retained_ok(), self.fin_ok(), self.wf_states(),
        decreases verif_it3.rest().len(),
@*/

/*@ extract src/consensus/pool.rs :: impl PoolImpl/fn prune
props C08 C06
rewrite[R8] `self.slot_states.split_off(` => `self.slot_states.verif_split_off(`
rewrite?[R8] `self.s2n_waiting_parent_cert.retain(|_, children| { children.retain(|(slot, _)| *slot >= first_unpruned_slot); !children.is_empty() });` => `verif_retain_waiting(&mut self.s2n_waiting_parent_cert, first_unpruned_slot);`
ensures
        // [C08.pool_invariant_is_kept C06.pool_invariant_is_kept C03.pool_invariant_is_kept C04.pool_invariant_is_kept]
        old(self).wf_states() ==> final(self).wf_states(),
        // [C18.finalized_slot_is_backed_by_stored_certificates C10.finalized_slot_is_backed_by_stored_certificates]
        old(self).fin_ok() ==> final(self).fin_ok(),
        // [C08.pool_retains_exactly_the_unpruned_slots]
        forall|s: Slot| #[trigger] final(self).slot_states@.contains_key(s) <==> (old(self).slot_states@.contains_key(s) && s.0 >= old(self).lo()),
        forall|s: Slot| final(self).slot_states@.contains_key(s) ==> final(self).slot_states@[s] == old(self).slot_states@[s],
        final(self).finality_tracker == old(self).finality_tracker,
        final(self).epoch_info == old(self).epoch_info,
        // [C08.no_block_of_a_decided_slot_is_kept_waiting C06.waiting_child_is_still_registered]
        // the blocks waiting for a parent certificate are pruned with the slot states they are registered in
        forall|p: BlockId, c: BlockId| #[trigger] final(self).waits(p, c) ==> old(self).waits(p, c) && c.0.0 >= old(self).lo(),
        // [C06.waiting_child_of_an_undecided_slot_is_kept]
        forall|p: BlockId, c: BlockId| #[trigger] old(self).waits(p, c) && c.0.0 >= old(self).lo() ==> final(self).waits(p, c),
before `let first_unpruned_slot = self.first_unpruned_slot();`
        let ghost verif_pre = *old(self);
after `self.parent_ready_tracker.prune(first_unpruned_slot);`
        proof { if verif_pre.fin_ok() { lemma_fin_ok_transfer(&verif_pre, self); } }
before `self.parent_ready_tracker.prune(`
        proof {
            assert forall|s: Slot| #[trigger] self.slot_states@.contains_key(s) == self.slot_states.spec_map().contains_key(s) by {}
            assert(self.slot_states.spec_map() == self.slot_states@);
        }
@*/


/*@ extract src/consensus/pool.rs :: impl Pool for PoolImpl/fn add_cert
props C08 C03 C06
elide-async
ret r
rewrite[R8] `certs .notar_fallback .iter() .any(|nf| nf.block_hash() == nf_cert.block_hash())` => `verif_any_nf_for_block(&certs.notar_fallback, nf_cert.block_hash())`
requires
        old(self).fin_ok(),
        old(self).wf(),
        old(self).waiting_ok() && old(self).retained_ok(),
ensures
        // [C08.pool_invariant_is_kept C06.pool_invariant_is_kept C03.pool_invariant_is_kept C04.pool_invariant_is_kept]
        final(self).wf_states(),
        // [C18.finalized_slot_is_backed_by_stored_certificates C10.finalized_slot_is_backed_by_stored_certificates]
        final(self).fin_ok(),
        // [C08.pool_reports_finalized_exactly_when_the_certificates_justify C18.replayed_proof_finalizes_the_slot]
        (r is Ok && cert_finalizes(&old(self).finality_tracker, cert.cert)) ==> final(self).hi() == max_int(old(self).hi(), cert.cert.spec_slot().0 as int),
        !(r is Ok && cert_finalizes(&old(self).finality_tracker, cert.cert)) ==> final(self).hi() == old(self).hi(),
        (r is Ok && cert.cert is Final && old(self).finality_tracker.st(cert.cert.spec_slot()) is None)
            ==> final(self).finality_tracker.st(cert.cert.spec_slot()) == Some(FinalizationStatus::FinalPendingNotar),
        final(self).epoch_info == old(self).epoch_info,
        // [C03.accepted_certificate_is_stored_and_the_others_stay C18.accepted_certificate_is_stored_and_the_others_stay]
        (r is Ok && final(self).slot_states@.contains_key(cert.cert.spec_slot()))
            ==> certs_added(old(self).st(cert.cert.spec_slot()), final(self).slot_states@[cert.cert.spec_slot()], cert.cert),
        forall|sl: Slot| (sl != cert.cert.spec_slot() || r is Err) && #[trigger] final(self).slot_states@.contains_key(sl)
            ==> final(self).slot_states@[sl].certificates == old(self).st(sl).certificates,
        // [C08.nothing_is_tracked_for_a_decided_slot]
        final(self).retained_ok(),
        // [C06.waiting_child_is_still_registered C08.waiting_child_is_still_registered]
        final(self).waiting_ok(),
        // [C08.nothing_older_than_watermark_accepted]
        (r == Err::<(), AddCertError>(AddCertError::SlotOutOfBounds)) <==> old(self).out_of_bounds(cert.cert.spec_slot()),
        // [C03.cert_recorded_at_most_once_per_type]
        (!old(self).out_of_bounds(cert.cert.spec_slot()) && old(self).st(cert.cert.spec_slot()).holds_cert_like(cert.cert))
            ==> r == Err::<(), AddCertError>(AddCertError::Duplicate),
        (!old(self).out_of_bounds(cert.cert.spec_slot()) && !old(self).st(cert.cert.spec_slot()).holds_cert_like(cert.cert)) ==> r is Ok,
before `let slot = cert.slot();`
        let ghost pre = *old(self);
        proof { broadcast use axiom_fresh_slot_state; }
before `return Err(AddCertError::Duplicate);`
        proof {
            let f = *self;
            assert forall|c: BlockId| #[trigger] pre.registered(c) implies f.registered(c) by { if c.0 == slot {} }
            lemma_waiting_ok_transfer(&pre, &f);
        }
before `self.add_valid_cert(cert);`
        proof {
            let f = *self;
            assert forall|c: BlockId| #[trigger] pre.registered(c) implies f.registered(c) by { if c.0 == slot {} }
            lemma_waiting_ok_transfer(&pre, &f);
        }
@*/

/*@ extract src/consensus/pool.rs :: impl PoolImpl/fn get_final_certs
props C18
ret r
ensures
        // [C18.final_certs_prove_the_finalized_slot]
        r@.len() > 0 ==> self.slot_states@.contains_key(slot) && bundle_proves_final(&self.slot_states@[slot], r@),
        (self.slot_states@.contains_key(slot) && self.slot_states@[slot].proves_finalized()) ==> r@.len() > 0,
@*/

/*@ extract src/consensus/pool.rs :: impl Pool for PoolImpl/fn recover_from_standstill
props C18 C10
elide-async
rewrite[R8] `certs.extend(self.get_certs(slot.next()..));` => `let verif_from = slot.next(); let verif_more = self.get_certs(verif_from..); let ghost more_view = verif_more@; verif_extend_certs(&mut certs, verif_more);`
requires
        self.wf(),
        (self.epoch_info.own_id.0 as int) < self.epoch_info.epoch.validators@.len(),
        // pool invariant, established by PoolImpl::new and kept by add_vote / add_cert / add_block (all PROVED below): the highest
        // finalized slot is backed by stored certificates - unless nothing beyond genesis has been finalized yet
        self.fin_ok(),
ensures
        // [C18.bundle_is_final_certs_then_all_later_certs_and_own_votes]
        exists|head: Seq<Cert>, tail: Seq<Cert>, votes: Seq<Vote>|
            #[trigger] was_sent_standstill(Slot((self.hi() + 1) as u64), head + tail, votes) && head_ok(self, head) && tail_ok(self, tail)
            && votes_ok(self, votes),
after `let mut certs = self.get_final_certs(slot);`
        let ghost fc = certs@;
before `let event = PoolEvent::Standstill(slot.next(), certs, votes);`
        proof {
            assert(certs@ =~= fc + more_view);
            assert(head_ok(self, fc));
            let st = (verif_from..).start.0 as int;
            assert(st == self.hi() + 1);
            assert forall|i: int| 0 <= i < more_view.len() implies stored_from(self.slot_states@, self.hi() + 1, #[trigger] more_view[i]) by {
                assert(stored_from(self.slot_states@, st, more_view[i]));
            }
            assert forall|c: Cert| #[trigger] stored_from(self.slot_states@, self.hi() + 1, c) implies more_view.contains(c) by {
                assert(stored_from(self.slot_states@, st, c));
            }
            assert(tail_ok(self, more_view));
        }
        let ghost gcerts = certs@;
        let ghost gvotes = votes@;
        let ghost gnext = Slot((self.hi() + 1) as u64);
after `self.send_votor_event(event);`
        proof {
            assert(was_sent_standstill(gnext, gcerts, gvotes));
            assert(gcerts == fc + more_view);
            assert(was_sent_standstill(gnext, fc + more_view, gvotes));
        }
@*/

}
// ---------------------------------------------------------------- C06 wiring: add_block / add_valid_cert
// R5: `m.entry(k).or_default()` on the waiting-children map: the list for k, created empty on first use
#[verifier::external_body]
pub fn verif_waiting_entry(m: &mut BTreeMap<BlockId, Vec<BlockId>>, k: BlockId) -> (r: &mut Vec<BlockId>)
    ensures
        old(m)@.contains_key(k) ==> r@ == old(m)@[k]@,
        !old(m)@.contains_key(k) ==> r@.len() == 0,
        final(m)@ == old(m)@.insert(k, *final(r)),
{ unimplemented!() }
// R8: `m.retain(|_, children| { children.retain(|(slot, _)| *slot >= root); !children.is_empty() })` on the waiting-children
// map (nested closures over &mut Vec): exactly the waiting blocks in slots >= root stay (lists that become empty are dropped)
#[verifier::external_body]
pub fn verif_retain_waiting(m: &mut BTreeMap<BlockId, Vec<BlockId>>, root: Slot)
    ensures
        forall|p: BlockId, c: BlockId| final(m)@.contains_key(p) && #[trigger] final(m)@[p]@.contains(c)
            ==> old(m)@.contains_key(p) && old(m)@[p]@.contains(c) && c.0.0 >= root.0,
        forall|p: BlockId, c: BlockId| old(m)@.contains_key(p) && #[trigger] old(m)@[p]@.contains(c) && c.0.0 >= root.0
            ==> final(m)@.contains_key(p) && final(m)@[p]@.contains(c),
{ unimplemented!() }
#[verifier::external_body]
pub fn verif_clone_cert(c: &Cert) -> (r: Cert) ensures r == *c { unimplemented!() }
#[verifier::external_body]
pub fn verif_clone_block_id(b: &BlockId) -> (r: BlockId) ensures r == *b { unimplemented!() }
// R8: `cert.block_hash().cloned().expect(..)`: the expect is a proof obligation
#[verifier::external_body]
pub fn verif_cert_block_hash(c: &Cert) -> (r: BlockHash)
    requires cert_certifies(*c) is Some
    ensures r == (cert_certifies(*c)->0).1
{ unimplemented!() }
impl FinalityTracker {
    // The four mutators of the finality tracker, with the contracts PROVED on their real bodies in unit `finality`.  Their
    // preconditions (the tracker's representation invariant, slots below u64::MAX, a parent in an earlier slot, one parent per
    // block) are obligations at the call sites in this unit.
/*@ stub units/finality/unit.rs :: src/consensus/pool/finality_tracker.rs :: impl FinalityTracker/fn mark_notarized @*/
/*@ stub units/finality/unit.rs :: src/consensus/pool/finality_tracker.rs :: impl FinalityTracker/fn mark_fast_finalized @*/
/*@ stub units/finality/unit.rs :: src/consensus/pool/finality_tracker.rs :: impl FinalityTracker/fn mark_finalized @*/
/*@ stub units/finality/unit.rs :: src/consensus/pool/finality_tracker.rs :: impl FinalityTracker/fn add_parent @*/
}
impl FinalityTracker {
/*@ stub units/finality/unit.rs :: src/consensus/pool/finality_tracker.rs :: impl Default for FinalityTracker/fn default @*/
}
impl ParentReadyTracker {
    #[verifier::external_body] pub fn default() -> (r: ParentReadyTracker) { unimplemented!() }
}
impl ParentReadyTracker {
    #[verifier::external_body] pub fn mark_notar_fallback(&mut self, id: &BlockId) -> (r: SmallVec<[(Slot, BlockId); 1]>) { unimplemented!() }
    #[verifier::external_body] pub fn mark_skipped(&mut self, slot: Slot) -> (r: SmallVec<[(Slot, BlockId); 1]>) { unimplemented!() }
    #[verifier::external_body] pub fn handle_finalization(&mut self, event: FinalizationEvent) -> (r: SmallVec<[(Slot, BlockId); 1]>) { unimplemented!() }
}
impl SlotState {
/*@ stub units/slot_state/unit.rs :: src/consensus/pool/slot_state.rs :: impl SlotState/fn add_cert @*/
/*@ stub units/slot_state/unit.rs :: src/consensus/pool/slot_state.rs :: impl SlotState/fn notify_parent_known @*/
/*@ stub units/slot_state/unit.rs :: src/consensus/pool/slot_state.rs :: impl SlotState/fn is_notar_fallback_or_stronger @*/
    // SlotState::notify_parent_certified (contract proved in unit slot_state; the clauses used here are copied by hand so that the
    // panic site - panic!("parent not known") unless the block was registered - keeps its pool-level labels)
    #[verifier::external_body]
    pub fn verif_notify_parent_certified(&mut self, hash: BlockHash) -> (r: Option<Either<PoolEvent, BlockId>>)
        requires
            // [C06.waiting_child_is_still_registered C08.waiting_child_is_still_registered C03.waiting_child_is_still_registered]
            old(self).parents@.contains_key(hash),
            // [C06.slot_state_is_well_formed_when_told C08.slot_state_is_well_formed_when_told] (the other precondition proved necessary
            // in unit slot_state; carried by the pool's own invariant wf_states())
            old(self).wf(),
        ensures
            final(self).parents@ == old(self).parents@.insert(hash, ParentStatus::Certified),
            final(self).certificates == old(self).certificates,
            final(self).votes == old(self).votes,
            final(self).voted_stakes == old(self).voted_stakes,
            final(self).slot == old(self).slot,
            final(self).epoch_info == old(self).epoch_info,
    { unimplemented!() }
}
impl PoolImpl {
/*@ extract src/consensus/pool.rs :: impl PoolImpl/fn handle_finalization
props C06 C08
elide-async
requires
        old(self).waiting_ok(),
ensures
        // [C08.pool_invariant_is_kept C06.pool_invariant_is_kept C03.pool_invariant_is_kept C04.pool_invariant_is_kept]
        old(self).wf_states() ==> final(self).wf_states(),
        // [C18.finalized_slot_is_backed_by_stored_certificates C10.finalized_slot_is_backed_by_stored_certificates]
        old(self).fin_ok() ==> final(self).fin_ok(),
        final(self).epoch_info == old(self).epoch_info,
        final(self).finality_tracker == old(self).finality_tracker,
        // the pool-level follow-up of a finalization (parent-ready events, pruning of decided slots):
        // [C08.pool_retains_exactly_the_unpruned_slots]
        forall|s: Slot| #[trigger] final(self).slot_states@.contains_key(s) <==> (old(self).slot_states@.contains_key(s) && s.0 >= old(self).lo()),
        forall|s: Slot| final(self).slot_states@.contains_key(s) ==> final(self).slot_states@[s] == old(self).slot_states@[s],
        final(self).retained_ok(),
        // [C08.no_block_of_a_decided_slot_is_kept_waiting C06.waiting_child_is_still_registered]
        forall|p: BlockId, c: BlockId| #[trigger] final(self).waits(p, c) ==> old(self).waits(p, c) && c.0.0 >= old(self).lo(),
        final(self).waiting_ok(),
        // [C06.waiting_child_of_an_undecided_slot_is_kept]
        forall|p: BlockId, c: BlockId| #[trigger] old(self).waits(p, c) && c.0.0 >= old(self).lo() ==> final(self).waits(p, c),
before `let new_parents_ready = self.parent_ready_tracker.handle_finalization(event);`
        let ghost pre = *old(self);
before `self.prune();`
        let ghost mid = *self;
after `self.prune();`
        proof {
            assert forall|p: BlockId, c: BlockId| #[trigger] pre.waits(p, c) && c.0.0 >= pre.lo() implies self.waits(p, c) by {
                assert(mid.waits(p, c));
            }
            assert forall|p: BlockId, c: BlockId| #[trigger] self.waits(p, c) implies self.registered(c) by {
                assert(pre.waits(p, c) && c.0.0 >= pre.lo());
                assert(pre.registered(c));
                assert(self.slot_states@.contains_key(c.0));
            }
        }
@*/
    #[verifier::external_body]
    pub fn send_parent_ready_events(&self, parents: SmallVec<[(Slot, BlockId); 1]>) { unimplemented!() }

/*@ extract src/consensus/pool.rs :: impl PoolImpl/fn notify_waiting_children
props C06 C08
elide-async
rewrite[R4] `for (child_slot, child_hash) in children {` => `let mut verif_c: usize = 0; while verif_c < children.len() { let (child_slot, child_hash) = verif_clone_block_id(&children[verif_c]); verif_c += 1;`
rewrite*[R8] `.notify_parent_certified(` => `.verif_notify_parent_certified(`
requires
        old(self).wf_states(),
        old(self).waiting_ok(),
ensures
        // [C08.pool_invariant_is_kept C06.pool_invariant_is_kept C03.pool_invariant_is_kept C04.pool_invariant_is_kept]
        final(self).wf_states(),
        // [C18.finalized_slot_is_backed_by_stored_certificates C10.finalized_slot_is_backed_by_stored_certificates]
        old(self).fin_ok() ==> final(self).fin_ok(),
        final(self).epoch_info == old(self).epoch_info,
        final(self).finality_tracker == old(self).finality_tracker,
        // [C08.no_state_is_recreated_for_a_decided_slot] telling the waiting blocks touches only slot states the pool keeps
        final(self).extends(old(self)),
        final(self).waiting_ok(),
        // [C06.certifying_cert_releases_the_waiting_children]
        !final(self).s2n_waiting_parent_cert@.contains_key(*block_id),
        // [C06.other_waiting_children_untouched]
        forall|p: BlockId| p != *block_id ==> (#[trigger] final(self).s2n_waiting_parent_cert@.contains_key(p) <==> old(self).s2n_waiting_parent_cert@.contains_key(p))
            && (final(self).s2n_waiting_parent_cert@.contains_key(p) ==> final(self).s2n_waiting_parent_cert@[p] == old(self).s2n_waiting_parent_cert@[p]),
        // [C06.every_waiting_child_is_notified] each block that was waiting for this parent has its parent marked certified
        old(self).s2n_waiting_parent_cert@.contains_key(*block_id) ==> forall|k: int| 0 <= k < old(self).s2n_waiting_parent_cert@[*block_id]@.len() ==>
            final(self).st((#[trigger] old(self).s2n_waiting_parent_cert@[*block_id]@[k]).0).parents@.contains_key(old(self).s2n_waiting_parent_cert@[*block_id]@[k].1)
            && final(self).st(old(self).s2n_waiting_parent_cert@[*block_id]@[k].0).parents@[old(self).s2n_waiting_parent_cert@[*block_id]@[k].1] == ParentStatus::Certified,
        // nothing else about the slot states changes: certificates are untouched
        forall|sl: Slot| (#[trigger] final(self).st(sl)).certificates == old(self).st(sl).certificates,
before `let Some(children) = self.s2n_waiting_parent_cert.remove(block_id) else {`
        let ghost pre = *old(self);
        proof { broadcast use axiom_fresh_slot_state; }
before `return;`
        proof {
            if pre.fin_ok() {
                assert forall|s: Slot| #[trigger] pre.slot_states@.contains_key(s) && s.0 >= pre.lo()
                    implies self.slot_states@.contains_key(s) && certs_grow(pre.slot_states@[s], self.slot_states@[s]) by {
                    let _ = self.st(s); let _ = pre.st(s);
                }
                lemma_fin_ok_transfer(&pre, self);
            }
            assert forall|p: BlockId, c: BlockId| #[trigger] self.waits(p, c) implies self.registered(c) by { assert(pre.waits(p, c)); }
        }
blockend `let Some(children) = self.s2n_waiting_parent_cert.remove(block_id) else {`
        proof {
            if pre.fin_ok() {
                assert forall|s: Slot| #[trigger] pre.slot_states@.contains_key(s) && s.0 >= pre.lo()
                    implies self.slot_states@.contains_key(s) && certs_grow(pre.slot_states@[s], self.slot_states@[s]) by {
                    let _ = self.st(s); let _ = pre.st(s);
                }
                lemma_fin_ok_transfer(&pre, self);
            }
            assert forall|p: BlockId, c: BlockId| #[trigger] self.waits(p, c) implies self.registered(c) by {
                assert(pre.waits(p, c));
                assert(pre.registered(c));
            }
        }
loop 0
        invariant
            pre == *old(self),
            verif_c <= children@.len(),
            pre.s2n_waiting_parent_cert@.contains_key(*block_id) && children@ == pre.s2n_waiting_parent_cert@[*block_id]@,
            self.s2n_waiting_parent_cert@ == pre.s2n_waiting_parent_cert@.remove(*block_id),
            self.epoch_info == pre.epoch_info,
            self.finality_tracker == pre.finality_tracker,
            pre.waiting_ok(),
            self.wf_states(),
            self.extends(&pre),
            forall|k: int| 0 <= k < verif_c ==> self.st((#[trigger] children@[k]).0).parents@.contains_key(children@[k].1)
                && self.st(children@[k].0).parents@[children@[k].1] == ParentStatus::Certified,
            forall|sl: Slot| (#[trigger] self.st(sl)).certificates == pre.st(sl).certificates,
        decreases children@.len() - verif_c,
before `let Some(output) = self .slot_state(child_slot) .verif_notify_parent_certified(child_hash) else {`
        let ghost bef = *self;
        proof {
            assert(children@.contains(children@[verif_c - 1]));
            assert(pre.waits(*block_id, (child_slot, child_hash)));
            assert(pre.registered((child_slot, child_hash)));
            assert(self.registered((child_slot, child_hash)));
            lemma_st_wf(self, child_slot);
        }
before `continue;`
        proof {
            lemma_wf_states_update(&bef, self, child_slot);
            assert forall|c: BlockId| #[trigger] pre.registered(c) implies self.registered(c) by {
                assert(bef.registered(c));
                if c.0 == child_slot {}
            }
            assert(self.extends(&pre));
            assert forall|sl: Slot| (#[trigger] self.st(sl)).certificates == bef.st(sl).certificates by { if sl == child_slot {} }
            assert forall|k: int| 0 <= k < verif_c implies self.st((#[trigger] children@[k]).0).parents@.contains_key(children@[k].1)
                && self.st(children@[k].0).parents@[children@[k].1] == ParentStatus::Certified by {
                if k < verif_c - 1 { let _ = bef.st(children@[k].0); }
            }
        }
blockend `let Some(output) = self .slot_state(child_slot) .verif_notify_parent_certified(child_hash) else {`
        proof {
            lemma_wf_states_update(&bef, self, child_slot);
            assert forall|c: BlockId| #[trigger] pre.registered(c) implies self.registered(c) by {
                assert(bef.registered(c));
                if c.0 == child_slot {}
            }
            assert(self.extends(&pre));
            assert forall|sl: Slot| (#[trigger] self.st(sl)).certificates == bef.st(sl).certificates by { if sl == child_slot {} }
            assert forall|k: int| 0 <= k < verif_c implies self.st((#[trigger] children@[k]).0).parents@.contains_key(children@[k].1)
                && self.st(children@[k].0).parents@[children@[k].1] == ParentStatus::Certified by {
                if k < verif_c - 1 { let _ = bef.st(children@[k].0); }
            }
        }
@*/

/*@ extract src/consensus/pool.rs :: impl PoolImpl/fn add_valid_cert
props C06 C08 C03
elide-async
rewrite*[R9] `cert.clone()` => `verif_clone_cert(&cert)`
rewrite*[R9] `block_id.clone()` => `verif_clone_block_id(&block_id)`
rewrite[R8] `cert .block_hash() .cloned() .expect("notar(-fallback) cert always references a block")` => `verif_cert_block_hash(&cert)`
requires
        old(self).wf_states(),
        old(self).fin_ok(),
        // slots stay below u64::MAX (the callers' slot-window check, C04)
        cert.spec_slot().0 < u64::MAX,
        old(self).waiting_ok() && old(self).retained_ok(),
ensures
        // [C08.pool_invariant_is_kept C06.pool_invariant_is_kept C03.pool_invariant_is_kept C04.pool_invariant_is_kept]
        final(self).wf_states(),
        // [C18.finalized_slot_is_backed_by_stored_certificates C10.finalized_slot_is_backed_by_stored_certificates]
        // whatever the certificate is and whatever it decides: the statuses the finality tracker keeps still stand for stored
        // certificates, and the highest finalized slot holds the certificates that prove it - what recover_from_standstill re-broadcasts
        final(self).fin_ok(),
        // [C03.accepted_certificate_is_stored_and_the_others_stay C18.accepted_certificate_is_stored_and_the_others_stay] in every slot
        // state the pool keeps afterwards: the certificate sits in its slot (unless that slot was decided before it came), every
        // other stored certificate is where it was
        (cert.spec_slot().0 >= old(self).lo() && final(self).slot_states@.contains_key(cert.spec_slot()))
            ==> certs_added(old(self).st(cert.spec_slot()), final(self).slot_states@[cert.spec_slot()], cert),
        forall|sl: Slot| (sl != cert.spec_slot() || cert.spec_slot().0 < old(self).lo()) && #[trigger] final(self).slot_states@.contains_key(sl)
            ==> final(self).slot_states@[sl].certificates == old(self).st(sl).certificates,
        // [C08.pool_reports_finalized_exactly_when_the_certificates_justify C18.replayed_proof_finalizes_the_slot] the highest finalized
        // slot moves exactly when the certificate completes the proof of its (not yet decided) slot, and then to that slot if it is higher
        (cert.spec_slot().0 >= old(self).lo() && cert_finalizes(&old(self).finality_tracker, cert))
            ==> final(self).hi() == max_int(old(self).hi(), cert.spec_slot().0 as int),
        !(cert.spec_slot().0 >= old(self).lo() && cert_finalizes(&old(self).finality_tracker, cert)) ==> final(self).hi() == old(self).hi(),
        // a finalization certificate that arrives first is remembered until the notarization certificate comes
        (cert is Final && cert.spec_slot().0 >= old(self).lo() && old(self).finality_tracker.st(cert.spec_slot()) is None)
            ==> final(self).finality_tracker.st(cert.spec_slot()) == Some(FinalizationStatus::FinalPendingNotar),
        final(self).epoch_info == old(self).epoch_info,
        final(self).lo() >= old(self).lo(),
        // [C08.nothing_is_tracked_for_a_decided_slot C03.nothing_is_tracked_for_a_decided_slot] whatever the certificate decides
        // and in whatever batch it was completed: afterwards no slot state (and no waiting block) below the watermark is kept
        final(self).retained_ok(),
        // [C06.waiting_child_is_still_registered C08.waiting_child_is_still_registered]
        final(self).waiting_ok(),
        // [C06.certifying_cert_releases_the_waiting_children] whichever certificate certifies the parent (notar, notar-fallback
        // or fast-final) of a slot that is not decided yet, no block is left waiting for it
        (cert_certifies(cert) is Some && (cert_certifies(cert)->0).0.0 >= old(self).lo()) ==> !final(self).s2n_waiting_parent_cert@.contains_key(cert_certifies(cert)->0),
        // [C06.other_waiting_children_untouched C08.no_block_of_a_decided_slot_is_kept_waiting] the other waiting blocks stay,
        // except those whose slot the certificate decided
        forall|p: BlockId, c: BlockId| #[trigger] final(self).waits(p, c) ==> old(self).waits(p, c) && c.0.0 >= final(self).lo(),
        forall|p: BlockId, c: BlockId| #[trigger] old(self).waits(p, c) && cert_certifies(cert) != Some(p) && c.0.0 >= final(self).lo() ==> final(self).waits(p, c),
        // [C06.every_waiting_child_is_notified] every block of a still undecided slot that waited for this parent is told
        forall|c: BlockId| (cert_certifies(cert) is Some && (cert_certifies(cert)->0).0.0 >= old(self).lo()
                && #[trigger] old(self).waits(cert_certifies(cert)->0, c) && c.0.0 >= final(self).lo()) ==>
            final(self).st(c.0).parents@.contains_key(c.1) && final(self).st(c.0).parents@[c.1] == ParentStatus::Certified,
before `let slot = cert.slot();`
        let ghost pre = *old(self);
        proof {
            broadcast use axiom_fresh_slot_state;
            // (used where a certificate of an already decided slot is only passed on)
            assert forall|p: BlockId, c: BlockId| #[trigger] pre.waits(p, c) implies c.0.0 >= pre.lo() by { lemma_waiting_slot_bound(&pre, p, c); }
        }
after `self.slot_state(slot).add_cert(verif_clone_cert(&cert));`
        let ghost a = *self;
        proof {
            assert forall|c: BlockId| #[trigger] pre.registered(c) implies a.registered(c) by { if c.0 == slot {} }
            lemma_waiting_ok_transfer(&pre, &a);
            lemma_wf_states_update(&pre, &a, slot);
            // [C08.nothing_is_tracked_for_a_decided_slot C03.nothing_is_tracked_for_a_decided_slot]
            assert(a.retained_ok());
        }
before `self.handle_finalization(finalization_event);#0`
        let ghost b = *self;
        proof { lemma_waiting_ok_transfer(&a, &b); assert(b.slot_states == a.slot_states && b.epoch_info == a.epoch_info); assert(b.finality_tracker.wf()); assert(b.wf_states()); }
after `self.handle_finalization(finalization_event);#0`
        proof {
            assert forall|p: BlockId, c: BlockId| #[trigger] self.waits(p, c) implies pre.waits(p, c) && c.0.0 >= self.lo() by { assert(b.waits(p, c)); }
            assert forall|p: BlockId, c: BlockId| #[trigger] pre.waits(p, c) && c.0.0 >= self.lo() implies self.waits(p, c) by { assert(b.waits(p, c)); }
        }
before `self.notify_waiting_children(&block_id);#0`
        let ghost m = *self;
        proof {
            assert forall|sl: Slot| #[trigger] m.slot_states@.contains_key(sl) implies a.slot_states@.contains_key(sl) && m.slot_states@[sl] == a.slot_states@[sl] by {}
            assert(m.waiting_ok() && m.retained_ok() && m.lo() >= pre.lo());
            assert forall|p: BlockId, c: BlockId| #[trigger] m.waits(p, c) implies pre.waits(p, c) && c.0.0 >= m.lo() by {
                if !(cert is Notar) { assert(a.waits(p, c)); lemma_waiting_slot_bound(&pre, p, c); }
            }
            assert forall|p: BlockId, c: BlockId| #[trigger] pre.waits(p, c) && c.0.0 >= m.lo() implies m.waits(p, c) by {
                if !(cert is Notar) { assert(a.waits(p, c)); }
            }
        }
after `self.notify_waiting_children(&block_id);#0`
        let ghost n = *self;
        proof { lemma_after_notify(&pre, &m, &n, block_id);
            assert forall|sl: Slot| #[trigger] n.slot_states@.contains_key(sl) implies a.slot_states@.contains_key(sl) && n.slot_states@[sl].certificates == a.slot_states@[sl].certificates by {
                assert(m.slot_states@.contains_key(sl)); let _ = n.st(sl); let _ = m.st(sl);
            }
            lemma_certs_after(&pre, &a, &n, cert);
        }
before `self.handle_finalization(finalization_event);#1`
        let ghost b = *self;
        proof { lemma_waiting_ok_transfer(&a, &b); assert(b.slot_states == a.slot_states && b.epoch_info == a.epoch_info); assert(b.finality_tracker.wf()); assert(b.wf_states()); }
before `self.notify_waiting_children(&block_id);#1`
        let ghost m = *self;
        proof {
            assert forall|sl: Slot| #[trigger] m.slot_states@.contains_key(sl) implies a.slot_states@.contains_key(sl) && m.slot_states@[sl] == a.slot_states@[sl] by {}
            assert forall|p: BlockId, c: BlockId| #[trigger] m.waits(p, c) implies pre.waits(p, c) && c.0.0 >= m.lo() by { assert(b.waits(p, c)); }
            assert forall|p: BlockId, c: BlockId| #[trigger] pre.waits(p, c) && c.0.0 >= m.lo() implies m.waits(p, c) by { assert(b.waits(p, c)); }
        }
after `self.notify_waiting_children(&block_id);#1`
        let ghost n = *self;
        proof { lemma_after_notify(&pre, &m, &n, block_id);
            assert forall|sl: Slot| #[trigger] n.slot_states@.contains_key(sl) implies a.slot_states@.contains_key(sl) && n.slot_states@[sl].certificates == a.slot_states@[sl].certificates by {
                assert(m.slot_states@.contains_key(sl)); let _ = n.st(sl); let _ = m.st(sl);
            }
            lemma_certs_after(&pre, &a, &n, cert);
        }
before `self.handle_finalization(finalization_event);#2`
        let ghost b = *self;
        proof { lemma_waiting_ok_transfer(&a, &b); assert(b.slot_states == a.slot_states && b.epoch_info == a.epoch_info); assert(b.finality_tracker.wf()); assert(b.wf_states()); }
after `self.handle_finalization(finalization_event);#2`
        proof {
            let f2 = *self;
            assert forall|sl: Slot| #[trigger] f2.slot_states@.contains_key(sl) implies a.slot_states@.contains_key(sl) && f2.slot_states@[sl].certificates == a.slot_states@[sl].certificates by {}
            lemma_certs_after(&pre, &a, &f2, cert);
            assert forall|p: BlockId, c: BlockId| #[trigger] self.waits(p, c) implies pre.waits(p, c) && c.0.0 >= self.lo() by { assert(b.waits(p, c)); }
            assert forall|p: BlockId, c: BlockId| #[trigger] pre.waits(p, c) && c.0.0 >= self.lo() implies self.waits(p, c) by { assert(b.waits(p, c)); }
        }
after `self.send_repair((slot, block_hash));`
        proof {
            let f = *self;
            lemma_waiting_ok_transfer(&n, &f);
            assert forall|p: BlockId, c: BlockId| #[trigger] f.waits(p, c) implies pre.waits(p, c) && c.0.0 >= f.lo() by { assert(n.waits(p, c)); }
            assert forall|p: BlockId, c: BlockId| #[trigger] pre.waits(p, c) && cert_certifies(cert) != Some(p) && c.0.0 >= f.lo() implies f.waits(p, c) by { assert(n.waits(p, c)); }
        }
after `self.send_parent_ready_events(new_parents_ready);#1`
        proof {
            let f = *self;
            lemma_certs_after(&pre, &a, &f, cert);
            lemma_waiting_ok_transfer(&a, &f);
            assert forall|p: BlockId, c: BlockId| #[trigger] self.waits(p, c) implies pre.waits(p, c) && c.0.0 >= self.lo() by { assert(a.waits(p, c)); lemma_waiting_slot_bound(&pre, p, c); }
            assert forall|p: BlockId, c: BlockId| #[trigger] pre.waits(p, c) && c.0.0 >= self.lo() implies self.waits(p, c) by { assert(a.waits(p, c)); }
        }
@*/

/*@ extract src/consensus/pool.rs :: impl Pool for PoolImpl/fn add_block
props C06 C10 C08
elide-async
rewrite*[R9] `block_id.clone()` => `verif_clone_block_id(&block_id)`
rewrite*[R9] `parent_id.clone()` => `verif_clone_block_id(&parent_id)`
rewrite*[R8] `.notify_parent_certified(` => `.verif_notify_parent_certified(`
rewrite[R5] `self.s2n_waiting_parent_cert .entry(parent_id) .or_default() .push(block_id);` => `let ghost pw = self.s2n_waiting_parent_cert@; let verif_w = verif_waiting_entry(&mut self.s2n_waiting_parent_cert, parent_id); let ghost w0 = verif_w@; verif_w.push(block_id); proof { assert(self.s2n_waiting_parent_cert@[parent_id]@ == w0.push(block_id)); assert(w0.push(block_id)[w0.len() as int] == block_id); assert forall|c: BlockId| w0.contains(c) implies w0.push(block_id).contains(c) by { let i = choose|i: int| 0 <= i < w0.len() && w0[i] == c; assert(w0.push(block_id)[i] == c); } assert forall|c: BlockId| w0.push(block_id).contains(c) implies w0.contains(c) || c == block_id by { let i = choose|i: int| 0 <= i < w0.push(block_id).len() && w0.push(block_id)[i] == c; if i < w0.len() { assert(w0[i] == c); } } }`
requires
        old(self).wf_states(),
        old(self).fin_ok(),
        block_id.0.0 < u64::MAX,
        // ASSUMED (collision resistance of the block hash): a block id names one block, so a repeated registration names the same parent
        old(self).finality_tracker.parents@.contains_key(block_id) ==> old(self).finality_tracker.parents@[block_id] == parent_id,
        // the caller announces only blocks whose parent is in an earlier slot (proved for blockstore and repair: C13, C14)
        block_id.0.0 > parent_id.0.0,
        old(self).waiting_ok() && old(self).retained_ok(),
ensures
        // [C08.pool_invariant_is_kept C06.pool_invariant_is_kept C03.pool_invariant_is_kept C04.pool_invariant_is_kept]
        final(self).wf_states(),
        // [C18.finalized_slot_is_backed_by_stored_certificates C10.finalized_slot_is_backed_by_stored_certificates]
        final(self).fin_ok(),
        final(self).epoch_info == old(self).epoch_info,
        final(self).lo() >= old(self).lo(),
        // [C08.nothing_is_tracked_for_a_decided_slot] also when the new parent link decides further slots, and for a block that
        // arrives (late, or by repair) for a slot that is decided already
        final(self).retained_ok(),
        // [C06.waiting_child_is_still_registered C08.waiting_child_is_still_registered]
        final(self).waiting_ok(),
        // [C06.waiting_child_is_never_dropped] registering a block never makes another block of an undecided slot stop waiting for
        // its parent
        forall|p: BlockId, c: BlockId| #[trigger] old(self).waits(p, c) && c.0.0 >= final(self).lo() ==> final(self).waits(p, c),
        // [C08.no_block_of_a_decided_slot_is_kept_waiting] and nothing but this block starts waiting
        forall|p: BlockId, c: BlockId| #[trigger] final(self).waits(p, c) ==> c.0.0 >= final(self).lo() && (old(self).waits(p, c) || (p == parent_id && c == block_id)),
        // [C06.child_of_uncertified_parent_waits]
        (block_id.0.0 >= final(self).lo() && !old(self).certified(parent_id)) ==> final(self).waits(parent_id, block_id),
        // [C06.child_of_certified_parent_is_told_at_once]
        (block_id.0.0 >= final(self).lo() && old(self).certified(parent_id) && parent_id.0.0 >= final(self).lo()) ==>
            final(self).st(block_id.0).parents@.contains_key(block_id.1) && final(self).st(block_id.0).parents@[block_id.1] == ParentStatus::Certified,
        // [C08.child_of_certified_parent_is_not_kept_waiting] (it would never be released: certificates for the parent are duplicates)
        (old(self).certified(parent_id) && parent_id.0.0 >= final(self).lo() && !old(self).waits(parent_id, block_id)) ==> !final(self).waits(parent_id, block_id),
before `vassert(block_id.0 > parent_id.0);`
        let ghost pre = *old(self);
        proof { broadcast use axiom_fresh_slot_state; }
after `.add_parent(verif_clone_block_id(&block_id), verif_clone_block_id(&parent_id));`
        let ghost b = *self;
        proof { lemma_waiting_ok_transfer(&pre, &b); assert(b.slot_states == pre.slot_states && b.epoch_info == pre.epoch_info); assert(b.finality_tracker.wf()); assert(b.wf_states()); }
before `self.slot_state(*slot).notify_parent_known(block_hash);`
        let ghost h = *self;
        proof {
            assert forall|p: BlockId, c: BlockId| #[trigger] h.waits(p, c) implies pre.waits(p, c) && c.0.0 >= h.lo() by { assert(b.waits(p, c)); }
            assert forall|p: BlockId, c: BlockId| #[trigger] pre.waits(p, c) && c.0.0 >= h.lo() implies h.waits(p, c) by { assert(b.waits(p, c)); }
        }
after `self.slot_state(*slot).notify_parent_known(block_hash);`
        let ghost k = *self;
        proof {
            assert forall|c: BlockId| #[trigger] h.registered(c) implies k.registered(c) by { if c.0 == *slot {} }
            lemma_waiting_ok_transfer(&h, &k);
            assert(k.retained_ok());
            assert(k.registered(block_id));
            lemma_wf_states_update(&h, &k, *slot);
            lemma_st_wf(&k, *slot);
        }
blockafter `match output {`
        proof {
            let f = *self;
            lemma_wf_states_update(&k, &f, *slot);
            assert forall|c: BlockId| #[trigger] k.registered(c) implies f.registered(c) by { if c.0 == *slot {} }
            lemma_waiting_ok_transfer(&k, &f);
            assert(f.retained_ok());
            assert forall|p: BlockId, c: BlockId| #[trigger] f.waits(p, c) implies c.0.0 >= f.lo() && pre.waits(p, c) by { assert(k.waits(p, c)); assert(h.waits(p, c)); }
            assert forall|p: BlockId, c: BlockId| #[trigger] pre.waits(p, c) && c.0.0 >= f.lo() implies f.waits(p, c) by { assert(h.waits(p, c)); assert(k.waits(p, c)); }
        }
blockend `vassert(block_id.0 > parent_id.0);`
        proof {
            let f = *self;
            assert forall|p: BlockId, c: BlockId| #[trigger] f.waits(p, c) implies f.registered(c) && c.0.0 >= f.lo() && (pre.waits(p, c) || (p == parent_id && c == block_id)) by {
                if p == parent_id {
                    if c != block_id { assert(w0.contains(c)); assert(k.waits(p, c)); assert(h.waits(p, c)); lemma_waiting_slot_bound(&k, p, c); }
                } else { assert(k.waits(p, c)); assert(h.waits(p, c)); lemma_waiting_slot_bound(&k, p, c); }
            }
            assert forall|p: BlockId, c: BlockId| #[trigger] pre.waits(p, c) && c.0.0 >= f.lo() implies f.waits(p, c) by {
                assert(h.waits(p, c)); assert(k.waits(p, c));
                if p == parent_id { assert(w0.contains(c)); }
            }
            assert(f.waits(parent_id, block_id));
        }
@*/
}

// C18, receiver side: "a node that starts from an empty state and receives only this bundle reaches the same highest finalized
// slot".  The scenario is written out over the two real functions under their proved contracts: a fresh pool is handed the
// first certificate of a bundle (a certificate of the sender's highest finalized slot).  KNOWN FINDING (known_findings.txt): the
// fresh pool applies its own slot window, [0, 2 * SLOTS_PER_EPOCH), so the certificate is refused as SlotOutOfBounds as soon as
// the sender has finalized slot 36000 or later (demo: findings/C18_fresh_receiver_demo.diff).
pub fn verif_fresh_receiver_of_a_bundle(epoch_info: Arc<ValidatorEpochInfo>, votor_event_channel: Sender<PoolEvent>,
        repair_channel: Sender<BlockId>, cert: ValidatedCert) -> (r: Result<(), AddCertError>)
    requires
        spec_fresh_slot_state(Slot(0), epoch_info).wf_epoch(),
    ensures
        // [C18.fresh_receiver_accepts_the_proof_of_the_finalized_slot]
        r is Ok,
{
    let mut fresh = PoolImpl::new(epoch_info, votor_event_channel, repair_channel);
    proof { broadcast use axiom_fresh_slot_state; }
    fresh.add_cert(cert)
}
// the same scenario for a bundle from the first 2 * SLOTS_PER_EPOCH slots of the chain: accepted (so the failing obligation above is
// about the window, not about a fresh pool as such), and the receiver reaches the sender's highest finalized slot - whichever of
// the two proofs the bundle starts with
pub fn verif_fresh_receiver_of_an_early_bundle_fast(epoch_info: Arc<ValidatorEpochInfo>, votor_event_channel: Sender<PoolEvent>,
        repair_channel: Sender<BlockId>, cert: ValidatedCert) -> (r: (Result<(), AddCertError>, PoolImpl))
    requires
        spec_fresh_slot_state(Slot(0), epoch_info).wf_epoch(),
        cert.cert.spec_slot().0 < 2 * SLOTS_PER_EPOCH,
        // the bundle of a sender whose highest finalized slot h > 0 was fast-finalized: [FastFinal(h)]
        cert.cert is FastFinal && cert.cert.spec_slot().0 > 0,
    ensures
        // [C18.fresh_receiver_of_an_early_bundle_reaches_the_senders_finalized_slot]
        r.0 is Ok && r.1.hi() == cert.cert.spec_slot().0,
{
    let mut fresh = PoolImpl::new(epoch_info, votor_event_channel, repair_channel);
    proof { broadcast use axiom_fresh_slot_state; }
    let res = fresh.add_cert(cert);
    (res, fresh)
}
pub fn verif_fresh_receiver_of_an_early_bundle_slow(epoch_info: Arc<ValidatorEpochInfo>, votor_event_channel: Sender<PoolEvent>,
        repair_channel: Sender<BlockId>, fin: ValidatedCert, notar: ValidatedCert) -> (r: (Result<(), AddCertError>, Result<(), AddCertError>, PoolImpl))
    requires
        spec_fresh_slot_state(Slot(0), epoch_info).wf_epoch(),
        fin.cert.spec_slot().0 < 2 * SLOTS_PER_EPOCH,
        // the bundle of a sender whose highest finalized slot h > 0 was finalized the slow way: [Final(h), Notar(h)], in this order
        fin.cert is Final && notar.cert is Notar && notar.cert.spec_slot() == fin.cert.spec_slot() && fin.cert.spec_slot().0 > 0,
    ensures
        // [C18.fresh_receiver_of_an_early_bundle_reaches_the_senders_finalized_slot]
        r.0 is Ok && r.1 is Ok && r.2.hi() == fin.cert.spec_slot().0,
{
    let mut fresh = PoolImpl::new(epoch_info, votor_event_channel, repair_channel);
    proof { broadcast use axiom_fresh_slot_state; }
    let r1 = fresh.add_cert(fin);
    let r2 = fresh.add_cert(notar);
    (r1, r2, fresh)
}

impl PoolImpl {
// Canary: MUST fail (claims nothing is ever out of bounds).
/*@ extract src/consensus/pool.rs :: impl PoolImpl/fn prune
as canary_prune
expect-fail
rewrite[R8] `self.slot_states.split_off(` => `self.slot_states.verif_split_off(`
rewrite?[R8] `self.s2n_waiting_parent_cert.retain(|_, children| { children.retain(|(slot, _)| *slot >= first_unpruned_slot); !children.is_empty() });` => `verif_retain_waiting(&mut self.s2n_waiting_parent_cert, first_unpruned_slot);`
ensures
        final(self).slot_states@ == old(self).slot_states@,
@*/
}

} // mod code

} // verus!

fn main() {}
