// Unit `engine`: the placeholder execution engine's seed of a block's state hash
// (src/execution.rs DummyExecution::begin_block).  Serves C20 (partial).
use vstd::prelude::*;
use std::collections::BTreeMap;

verus! {

/*@ include units/common/base_types.rs @*/

/*@ extract src/execution.rs :: enum InProgressBlock
derive
traits Clone Eq OrdOpaque
@*/
/*@ extract src/execution.rs :: struct BlockExec
derive
@*/
#[verifier::external_body] pub struct EventSender { _p: () }
/*@ extract src/lib.rs :: struct Transaction
derive
@*/
/*@ extract src/execution.rs :: enum ExecutionError
derive
@*/
pub struct StateCommitment(pub Hash);       // #[derive(From, Into)] newtype over Hash (src/execution/commitment.rs)
/*@ extract src/execution.rs :: struct ExecutionResult
derive
@*/
/*@ extract src/execution.rs :: enum ExecutionEvent
derive
@*/
// one step of the rolling state hash: `hash_all(&[state.as_ref(), tx.0.as_slice()])` (SHA-256 of the concatenation); uninterpreted
pub uninterp spec fn spec_step(state: Hash, tx: Seq<u8>) -> Hash;
#[verifier::external_body]
pub fn verif_hash_step(state: &Hash, tx: &Transaction) -> (r: Hash)
    ensures r == spec_step(*state, tx.0@)
{ unimplemented!() }
// the state hash after executing a transaction sequence on top of `h`
pub open spec fn spec_fold(h: Hash, txs: Seq<Transaction>) -> Hash
    decreases txs.len()
{
    if txs.len() == 0 { h } else { spec_step(spec_fold(h, txs.drop_last()), txs.last().0@) }
}
impl EventSender {
    pub uninterp spec fn sent(&self) -> Seq<ExecutionEvent>;
    // `self.event_sender.try_send(ev).expect(..)` (R8): the channel is ASSUMED to have capacity and a live receiver
    #[verifier::external_body]
    pub fn verif_send(&mut self, ev: ExecutionEvent)
        ensures final(self).sent() == old(self).sent().push(ev)
    { unimplemented!() }
}
// R8: `self.blocks.get_mut(&id)`
#[verifier::external_body]
pub fn verif_blocks_get_mut<'a>(m: &'a mut BTreeMap<InProgressBlock, BlockExec>, k: &InProgressBlock) -> (r: Option<&'a mut BlockExec>)
    ensures
        !old(m)@.contains_key(*k) ==> r is None && final(m)@ == old(m)@,
        old(m)@.contains_key(*k) ==> r is Some && *(r->0) == old(m)@[*k] && final(m)@ == old(m)@.insert(*k, *final(r->0)),
{ unimplemented!() }

// struct DummyExecution (src/execution.rs); the event channel is opaque
pub struct DummyExecution {
    pub blocks: BTreeMap<InProgressBlock, BlockExec>,
    pub event_sender: EventSender,
}
pub uninterp spec fn spec_genesis_hash() -> BlockHash;
/*@ extract src/crypto/merkle.rs :: const GENESIS_BLOCK_HASH
prefix #[verifier::external_body]
ensures
        GENESIS_BLOCK_HASH == spec_genesis_hash(),
@*/
impl DoubleMerkleRoot {
    // impl MerkleRoot for DoubleMerkleRoot { fn as_hash(&self) -> &Hash { &self.0 } }
    #[verifier::external_body]
    pub fn as_hash(&self) -> (r: &Hash) ensures *r == self.0 { unimplemented!() }
}
#[verifier::external_body]
pub fn verif_clone_block_id(b: &BlockId) -> (r: BlockId) ensures r == *b { unimplemented!() }

// ---------------------------------------------------------------- C20 specification (from the statement)
// "a deterministic function of the parent's commitment ..., with unknown parents falling back to the parent block hash":
// the parent's COMPUTED state if this node executed it, else the parent block hash, else genesis.
// "This node executed block id": the block tracked under id's full id - or, failing that, under id's slot alone
// (dissemination path) - has ENDED under exactly this hash.  A block that is still streaming has no final state yet (and,
// tracked by slot, not even a hash).  Until finding F29 the slot-only entry matched ANY id of that slot: with an
// equivocating leader the sibling this node happened to receive stood in for a parent it had never seen; until the follow-up
// repair a block still streaming matched as well and handed its partial state to a child.
pub open spec fn spec_entry(blocks: Map<InProgressBlock, BlockExec>, id: BlockId) -> Option<InProgressBlock> {
    if blocks.contains_key(InProgressBlock::Known(id)) { Some(InProgressBlock::Known(id)) }
    else if blocks.contains_key(InProgressBlock::Pending(id.0)) { Some(InProgressBlock::Pending(id.0)) }
    else { None }
}
// FROM THE STATEMENT ("only UNKNOWN parents fall back"): block `id` has a final state on this node exactly when an entry - the
// one tracked under its full id (repair) or the one tracked under its slot (dissemination) - has ENDED under this very hash.
// A copy that is still streaming does not hide a copy that has ended (finding F34: until fix the code, and this spec, which had
// been copied from it, stopped at the first entry that existed).
pub open spec fn spec_lookup(blocks: Map<InProgressBlock, BlockExec>, id: BlockId) -> Option<BlockExec> {
    if blocks.contains_key(InProgressBlock::Known(id)) && blocks[InProgressBlock::Known(id)].block_hash == Some(id.1) {
        Some(blocks[InProgressBlock::Known(id)])
    } else if blocks.contains_key(InProgressBlock::Pending(id.0)) && blocks[InProgressBlock::Pending(id.0)].block_hash == Some(id.1) {
        Some(blocks[InProgressBlock::Pending(id.0)])
    } else { None }
}
pub open spec fn spec_seed(blocks: Map<InProgressBlock, BlockExec>, parent: Option<BlockId>) -> Hash {
    match parent {
        None => spec_genesis_hash().0,
        Some(p) => match spec_lookup(blocks, p) { Some(e) => e.state_hash, None => p.1.0 },
    }
}
// end_block(id): the entry of id (by full id, else by slot) is marked as ended under id's hash, unless it has ended already
pub open spec fn spec_record_hash(blocks: Map<InProgressBlock, BlockExec>, id: BlockId) -> Map<InProgressBlock, BlockExec> {
    match spec_entry(blocks, id) {
        Some(k) => if blocks[k].block_hash is None {
                blocks.insert(k, BlockExec { tx_count: blocks[k].tx_count, state_hash: blocks[k].state_hash, block_hash: Some(id.1) })
            } else { blocks },
        None => blocks,
    }
}

pub mod code {
use super::*;

// documented behaviour of the Option combinators used by begin_block (TRUSTED)
pub assume_specification<T, F: FnOnce() -> Option<T>>[ Option::<T>::or_else ](o: Option<T>, f: F) -> (r: Option<T>)
    requires o is None ==> f.requires(()),
    ensures o is Some ==> r == o, o is None ==> f.ensures((), r);
pub assume_specification<T>[ bool::then_some::<T> ](b: bool, t: T) -> (r: Option<T>)
    ensures r == (if b { Some(t) } else { None::<T> });
pub assume_specification<T, U, F: FnOnce(T) -> U>[ Option::<T>::map_or ](o: Option<T>, default: U, f: F) -> (r: U)
    requires o is Some ==> f.requires((o->0,)),
    ensures o is None ==> r == default, o is Some ==> f.ensures((o->0,), r);

broadcast use super::axiom_InProgressBlock_obeys_cmp_laws;

impl DummyExecution {
/*@ extract src/execution.rs :: impl DummyExecution/fn lookup
props C20
ret r
rewrite*[R9] `block_id.clone()` => `verif_clone_block_id(block_id)`
ensures
        // [C20.a_sibling_of_the_same_slot_is_not_the_block] (and a copy that is still streaming does not hide one that has ended: F34)
        r == (match spec_lookup(self.blocks@, *block_id) { Some(e) => Some(&e), None => None::<&BlockExec> }),
@*/

/*@ extract src/execution.rs :: impl ExecutionEngine for DummyExecution/fn begin_block
props C20
rewrite[R9] `|(_, block_hash)| block_hash` => `|verif_p: BlockId| verif_p.1`
ensures
        // [C20.block_state_seeded_from_parent_commitment_or_parent_hash]
        final(self).blocks@ == old(self).blocks@.insert(id, BlockExec { tx_count: 0, state_hash: spec_seed(old(self).blocks@, parent), block_hash: None }),
        // [C20.unknown_parent_falls_back_to_its_block_hash] in particular when the block this node tracks in the parent's slot is
        // another one (an equivocating leader's other block) or has not ended yet (no final state, hash unknown)
        (parent matches Some(p) && !old(self).blocks@.contains_key(InProgressBlock::Known(p)) && old(self).blocks@.contains_key(InProgressBlock::Pending(p.0))
            && old(self).blocks@[InProgressBlock::Pending(p.0)].block_hash != Some(p.1))
            ==> final(self).blocks@[id].state_hash == (parent->0).1.0,
closure 0
        params p: &BlockId
        ret o: Option<&BlockExec>
        ensures o == (match spec_lookup(self.blocks@, *p) { Some(e) => Some(&e), None => None::<&BlockExec> })
closure 1
        params exec: &BlockExec
        ret h: Hash
        ensures h == exec.state_hash
closure 2
        ret h: Hash
        ensures h == (match parent { None => spec_genesis_hash().0, Some(pp) => pp.1.0 })
closure 3
        ret b: BlockHash
        ensures b == verif_p.1
@*/

/*@ extract src/execution.rs :: impl ExecutionEngine for DummyExecution/fn execute_transactions
props C20
rewrite[R8] `self.blocks.get_mut(&id)` => `verif_blocks_get_mut(&mut self.blocks, &id)`
rewrite[R4] `for tx in &transactions {` => `let mut verif_t: usize = 0; while verif_t < transactions.len() { let tx = &transactions[verif_t]; verif_t += 1;`
rewrite[R8] `hash_all(&[exec.state_hash.as_ref(), tx.0.as_slice()])` => `verif_hash_step(&exec.state_hash, tx)`
requires
        old(self).blocks@.contains_key(id) ==> old(self).blocks@[id].tx_count + transactions@.len() <= usize::MAX,
ensures
        // [C20.commitment_is_the_fold_of_the_transaction_sequence]
        old(self).blocks@.contains_key(id) ==> final(self).blocks@ == old(self).blocks@.insert(id, BlockExec {
            tx_count: (old(self).blocks@[id].tx_count + transactions@.len()) as usize,
            state_hash: spec_fold(old(self).blocks@[id].state_hash, transactions@),
            block_hash: old(self).blocks@[id].block_hash }),
        !old(self).blocks@.contains_key(id) ==> final(self).blocks@ == old(self).blocks@,
loop 0
        invariant
            verif_t <= transactions@.len(),
            exec.tx_count == h0.tx_count, exec.block_hash == h0.block_hash,
            exec.state_hash == spec_fold(h0.state_hash, transactions@.subrange(0, verif_t as int)),
        decreases transactions@.len() - verif_t,
before `let mut verif_t: usize = 0;`
        let ghost h0 = *exec;
        proof { assert(transactions@.subrange(0, 0).len() == 0); }
blockend `let tx = &transactions[verif_t];`
        proof {
            let a = transactions@.subrange(0, verif_t as int);
            assert(a.drop_last() =~= transactions@.subrange(0, verif_t - 1));
            assert(a.last() == transactions@[verif_t - 1]);
        }
after `exec.tx_count += transactions.len();`
        proof { assert(transactions@.subrange(0, transactions@.len() as int) =~= transactions@); }
@*/

/*@ extract src/execution.rs :: impl ExecutionEngine for DummyExecution/fn end_block
props C20
rewrite*[R9] `block_id.clone()` => `verif_clone_block_id(&block_id)`
rewrite[R8] `self.blocks.get_mut(&key)` => `verif_blocks_get_mut(&mut self.blocks, &key)`
rewrite[R8] `self.event_sender .try_send(ExecutionEvent::BlockExecuted { block_id, result: Ok(result), }) .expect("execution event channel should have capacity and a live receiver");` => `self.event_sender.verif_send(ExecutionEvent::BlockExecuted { block_id, result: Ok(result), });`
rewrite[R9] `exec.state_hash.clone().into()` => `StateCommitment(exec.state_hash.clone())`
ensures
        // [C20.hash_of_a_streamed_block_is_recorded_when_it_ends] the block tracked for this id (by full id, else by slot) is marked as
        // ended under this hash, once; nothing else changes
        final(self).blocks@ == spec_record_hash(old(self).blocks@, block_id),
        // [C20.reported_commitment_is_the_computed_state_of_that_block] of the block with THIS id, not of a sibling in its slot
        spec_lookup(final(self).blocks@, block_id) matches Some(e) ==>
            final(self).event_sender.sent() == old(self).event_sender.sent().push(ExecutionEvent::BlockExecuted {
                block_id, result: Ok(ExecutionResult { tx_count: e.tx_count, state_commitment: StateCommitment(e.state_hash) }) }),
        spec_lookup(final(self).blocks@, block_id) is None ==> final(self).event_sender.sent() == old(self).event_sender.sent(),
closure 0
        params exec: &BlockExec
        ret res: ExecutionResult
        ensures res == (ExecutionResult { tx_count: exec.tx_count, state_commitment: StateCommitment(exec.state_hash) })
@*/

// Canary: the real begin_block under a false contract (claims the parent is never consulted); MUST fail.
/*@ extract src/execution.rs :: impl ExecutionEngine for DummyExecution/fn begin_block
as canary_begin_block
expect-fail
rewrite[R9] `|(_, block_hash)| block_hash` => `|verif_p: BlockId| verif_p.1`
ensures
        final(self).blocks@ == old(self).blocks@.insert(id, BlockExec { tx_count: 0, state_hash: spec_genesis_hash().0, block_hash: None }),
@*/
}

} // mod code

} // verus!

fn main() {}
