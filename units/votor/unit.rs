// Unit U6 `votor`: the voting state machine (src/consensus/votor.rs).  Serves C05.
//
// Rewrite R3 (async elision): the handlers are `async fn`s awaited to completion by their single owner
// (voting_loop runs each handler inside its select! arm), so `.await` is a sequential call.
// Structural addition (the only one, logged): a ghost field `sent` on the extracted `Votor` struct that
// records every vote this component casts; `self.broadcast(..)` is renamed to a stub that appends to it.
use vstd::prelude::*;
use std::collections::{BTreeMap, BTreeSet};
use std::sync::Arc;

verus! {

/*@ include units/common/base_types.rs @*/
/*@ include units/common/quorum_core.rs @*/
/*@ include units/common/vote_types.rs @*/

// TRUSTED: the tuple order on BlockId = (Slot, BlockHash) is a lawful total order.
#[verifier::external_body]
pub broadcast proof fn axiom_block_id_obeys_cmp_laws()
    ensures #[trigger] vstd::laws_cmp::obeys_cmp::<(Slot, DoubleMerkleRoot)>()
{}

// ---------------------------------------------------------------- TRUSTED opaque stand-ins
pub trait All2All {}
#[verifier::external_body] pub struct SecretKey { _p: () }
#[verifier::external_body] #[verifier::reject_recursive_types(T)] pub struct Receiver<T> { _p: std::marker::PhantomData<T> }
#[verifier::external_body] #[verifier::reject_recursive_types(T)] pub struct Sender<T> { _p: std::marker::PhantomData<T> }
#[verifier::external_body] pub struct AggregateSignature { _p: () }

/*@ extract src/consensus/cert.rs :: struct NotarCert
derive
@*/
/*@ extract src/consensus/cert.rs :: struct NotarFallbackCert
derive
@*/
/*@ extract src/consensus/cert.rs :: struct SkipCert
derive
@*/
/*@ extract src/consensus/cert.rs :: struct FastFinalCert
derive
@*/
/*@ extract src/consensus/cert.rs :: struct FinalCert
derive
@*/
/*@ extract src/consensus/cert.rs :: enum Cert
derive
@*/
/*@ extract src/consensus.rs :: enum ConsensusMessage
derive
@*/
/*@ extract src/consensus/pool.rs :: enum PoolEvent
derive
@*/
/*@ extract src/consensus/blockstore.rs :: struct BlockInfo
derive
@*/
/*@ extract src/consensus/blockstore.rs :: enum BlockstoreEvent
derive
@*/
/*@ extract src/consensus/votor.rs :: enum VotorTimeout
derive
@*/
/*@ extract src/consensus/votor.rs :: struct SlotState
derive
@*/
/*@ extract src/consensus/votor.rs :: struct Votor
rewrite[ghost-field] `all2all: Arc<A>,` => `all2all: Arc<A>, sent: Ghost<Seq<(Slot, VoteKind)>>, fwd: Ghost<Seq<ConsensusMessage>>,`
@*/

impl Cert {
    pub open spec fn spec_slot(&self) -> Slot {
        match *self {
            Cert::Notar(x) => x.slot,
            Cert::NotarFallback(x) => x.slot,
            Cert::FastFinal(x) => x.slot,
            Cert::Skip(x) => x.slot,
            Cert::Final(x) => x.slot,
        }
    }
}

// ---------------------------------------------------------------- C05 specification (from the statement)
pub open spec fn is_initial(k: VoteKind) -> bool { k is Notar || k is Skip }
pub open spec fn is_fallback_or_skip(k: VoteKind) -> bool { k is Skip || k is SkipFallback || k is NotarFallback }

pub open spec fn spec_default_state() -> SlotState {
    SlotState { voted: false, voted_notar: None, bad_window: false, block_notarized: None, parents_ready: arbitrary_empty_set(),
                received_shred: false, pending_block: None, retired: false }
}
pub uninterp spec fn arbitrary_empty_set() -> BTreeSet<BlockId>;
#[verifier::external_body]
pub broadcast proof fn axiom_arbitrary_empty_set()
    ensures (#[trigger] arbitrary_empty_set())@ == Set::<BlockId>::empty()
{}

pub open spec fn spec_first_in_window(s: Slot) -> int { (s.0 / SLOTS_PER_WINDOW) * SLOTS_PER_WINDOW }

impl<A: All2All> Votor<A> {
    pub open spec fn st(&self, s: Slot) -> SlotState {
        if self.slots@.contains_key(s) { self.slots@[s] } else { spec_default_state() }
    }
    pub open spec fn lo(&self) -> int { spec_first_in_window(self.highest_final_cert_slot) }

    // The voting rules as an invariant over the log of cast votes and the per-slot flags, for every
    // retained slot (>= first unpruned).  `bad_pending` exempts one slot from W4 inside the two fallback
    // handlers, between casting the fallback vote and setting the slot's bad_window flag.
    pub open spec fn inv_x(&self, bad_pending: Option<Slot>) -> bool { self.inv_full(bad_pending, self.lo()) }
    // `klo`: the watermark the retained keys are known to respect (== lo() except between raising the
    // highest final certificate slot and the prune() that follows)
    pub open spec fn inv_full(&self, bad_pending: Option<Slot>, klo: int) -> bool {
        let sent = self.sent@;
        // K: nothing older than the window of the highest final certificate is retained
        &&& forall|s: Slot| #[trigger] self.slots@.contains_key(s) ==> s.0 >= klo
        // R: a retired slot has voted
        &&& forall|s: Slot| (#[trigger] self.st(s)).retired ==> self.st(s).voted
        // N: a slot that notarized a block has voted
        &&& forall|s: Slot| (#[trigger] self.st(s)).voted_notar is Some ==> self.st(s).voted
        // W1: an initial vote (notar or skip) was cast only in slots marked voted
        &&& forall|i: int| 0 <= i < sent.len() && is_initial((#[trigger] sent[i]).1) && sent[i].0.0 >= self.lo() ==> self.st(sent[i].0).voted
        // U: at most one initial vote per slot
        &&& forall|i: int, j: int| 0 <= i < j < sent.len() && is_initial((#[trigger] sent[i]).1) && is_initial((#[trigger] sent[j]).1)
                && sent[i].0.0 >= self.lo() ==> sent[i].0 != sent[j].0
        // W2: the notarized block is remembered
        &&& forall|i: int| 0 <= i < sent.len() && sent[i].0.0 >= self.lo() ==>
                ((#[trigger] sent[i]).1 matches VoteKind::Notar(h) ==> self.st(sent[i].0).voted_notar == Some(h))
        // W3: finalize only in a slot that notarized a block and never cast skip / fallback votes; the slot is retired
        &&& forall|i: int| 0 <= i < sent.len() && (#[trigger] sent[i]).1 is Final && sent[i].0.0 >= self.lo() ==>
                self.st(sent[i].0).retired && !self.st(sent[i].0).bad_window && self.st(sent[i].0).voted_notar is Some
        // W4: skip, skip-fallback and notar-fallback votes mark the slot as bad (so no finalize vote there)
        &&& forall|i: int| 0 <= i < sent.len() && is_fallback_or_skip((#[trigger] sent[i]).1) && sent[i].0.0 >= self.lo()
                && Some(sent[i].0) != bad_pending ==> self.st(sent[i].0).bad_window
    }
    pub open spec fn inv(&self) -> bool { self.inv_x(None) }

    // everything but the log and the per-slot states is untouched
    pub open spec fn same_env(&self, o: &Votor<A>) -> bool {
        self.highest_final_cert_slot == o.highest_final_cert_slot && self.validator_index == o.validator_index
    }
}

pub proof fn lemma_window_start_monotone(a: Slot, b: Slot)
    requires a.0 <= b.0,
    ensures spec_first_in_window(a) <= spec_first_in_window(b),
{
    assert(SLOTS_PER_WINDOW == 4);
    assert((a.0 / 4) <= (b.0 / 4));
}

pub proof fn lemma_window_start_le(a: Slot)
    ensures spec_first_in_window(a) <= a.0,
{
    assert(SLOTS_PER_WINDOW == 4);
}

// [C05.own_votes_never_slashable]  A log satisfying the invariant contains no slashable pair for a retained
// slot: not two notar votes, not notar + skip, not finalize together with skip / skip-fallback / notar-fallback.
pub proof fn theorem_own_votes_not_slashable<A: All2All>(v: &Votor<A>, i: int, j: int)
    requires
        v.inv(),
        0 <= i < v.sent@.len(), 0 <= j < v.sent@.len(), i != j,
        v.sent@[i].0 == v.sent@[j].0,
        v.sent@[i].0.0 >= v.lo(),
    ensures
        !(is_initial(v.sent@[i].1) && is_initial(v.sent@[j].1)),
        !(v.sent@[i].1 is Final && is_fallback_or_skip(v.sent@[j].1)),
{
}

pub mod code {
use super::*;
broadcast use super::axiom_Slot_obeys_cmp_laws, super::axiom_block_id_obeys_cmp_laws, super::axiom_arbitrary_empty_set;

/*@ include units/common/std_specs.rs @*/

impl Slot {
/*@ extract src/types/slot.rs :: impl Slot/fn new
ret r
ensures
        r.0 == slot,
@*/
/*@ extract src/types/slot.rs :: impl Slot/fn inner
ret r
ensures
        r == self.0,
@*/
/*@ extract src/types/slot.rs :: impl Slot/fn first_slot_in_window
ret r
ensures
        r.0 == spec_first_in_window(*self),
        r.0 <= self.0 < r.0 + SLOTS_PER_WINDOW,
@*/
/*@ extract src/types/slot.rs :: impl Slot/fn prev
ret r
requires
        // [C05.slot_prev_not_genesis]
        self.0 > 0,
ensures
        r.0 == self.0 - 1,
@*/
    // `self.0.is_multiple_of(SLOTS_PER_WINDOW)`: TRUSTED documented behaviour of u64::is_multiple_of
    #[verifier::external_body]
    pub fn is_start_of_window(&self) -> (r: bool)
        ensures r == (self.0 % SLOTS_PER_WINDOW == 0)
    { unimplemented!() }
}

// Rewrite R8: `m.split_off(&k)` (no vstd specification) is named `m.verif_split_off(&k)`, a TRUSTED
// method with the documented behaviour: the result keeps exactly the keys >= k.
pub trait VerifSplitOff: Sized {
    spec fn spec_map(&self) -> Map<Slot, SlotState>;
    fn verif_split_off(&mut self, root: &Slot) -> (r: Self)
        ensures
            forall|s: Slot| #[trigger] r.spec_map().contains_key(s) <==> (old(self).spec_map().contains_key(s) && s.0 >= root.0),
            forall|s: Slot| r.spec_map().contains_key(s) ==> r.spec_map()[s] == old(self).spec_map()[s];
}
impl VerifSplitOff for BTreeMap<Slot, SlotState> {
    open spec fn spec_map(&self) -> Map<Slot, SlotState> { self@ }
    #[verifier::external_body]
    fn verif_split_off(&mut self, root: &Slot) -> (r: Self) { unimplemented!() }
}

impl NotarCert {
/*@ extract src/consensus/cert.rs :: impl NotarCert/fn block_hash
ret r
ensures
        *r == self.block_hash,
@*/
}
// `cert.block_hash().cloned().expect(..)` (R8, the idiom of pool.rs): the expect is a proof obligation
#[verifier::external_body]
pub fn verif_cert_block_hash(c: &Cert) -> (r: BlockHash)
    requires c is Notar || c is NotarFallback || c is FastFinal
    ensures r == (match *c { Cert::Notar(x) => x.block_hash, Cert::NotarFallback(x) => x.block_hash, Cert::FastFinal(x) => x.block_hash, _ => arbitrary() })
{ unimplemented!() }
impl Cert {
/*@ extract src/consensus/cert.rs :: impl Cert/fn slot
ret r
ensures
        r == self.spec_slot(),
@*/
}

impl DoubleMerkleRoot {
    // used for log lines only
    #[verifier::external_body]
    pub fn short_hex(&self) -> String { unimplemented!() }
}

impl PoolEvent {
    // ASSUMED contract of PoolEvent::slot (or-pattern match; Cert::slot for CertCreated)
    #[verifier::external_body]
    pub fn slot(&self) -> (r: Slot)
        ensures r == (match *self {
            PoolEvent::ParentReady { slot, parent } => slot,
            PoolEvent::SafeToNotar(id) => id.0,
            PoolEvent::SafeToSkip(s) => s,
            PoolEvent::Standstill(s, _, _) => s,
            PoolEvent::CertCreated(c) => c.spec_slot(),
        })
    { unimplemented!() }
}

// Vote constructors (BLS signing): ASSUMED to produce a vote of that kind, slot, block and signer
impl Vote {
    #[verifier::external_body]
    pub fn new_notar(slot: Slot, block_hash: BlockHash, sk: &SecretKey, signer: ValidatorIndex) -> (r: Vote)
        ensures r.spec_kind() == VoteKind::Notar(block_hash), r.spec_slot() == slot, r.spec_signer() == signer
    { unimplemented!() }
    #[verifier::external_body]
    pub fn new_notar_fallback(slot: Slot, block_hash: BlockHash, sk: &SecretKey, signer: ValidatorIndex) -> (r: Vote)
        ensures r.spec_kind() == VoteKind::NotarFallback(block_hash), r.spec_slot() == slot, r.spec_signer() == signer
    { unimplemented!() }
    #[verifier::external_body]
    pub fn new_skip(slot: Slot, sk: &SecretKey, signer: ValidatorIndex) -> (r: Vote)
        ensures r.spec_kind() == VoteKind::Skip, r.spec_slot() == slot, r.spec_signer() == signer
    { unimplemented!() }
    #[verifier::external_body]
    pub fn new_skip_fallback(slot: Slot, sk: &SecretKey, signer: ValidatorIndex) -> (r: Vote)
        ensures r.spec_kind() == VoteKind::SkipFallback, r.spec_slot() == slot, r.spec_signer() == signer
    { unimplemented!() }
    #[verifier::external_body]
    pub fn new_final(slot: Slot, sk: &SecretKey, signer: ValidatorIndex) -> (r: Vote)
        ensures r.spec_kind() == VoteKind::Final, r.spec_slot() == slot, r.spec_signer() == signer
    { unimplemented!() }
}


impl BlockstoreEvent {
/*@ extract src/consensus/blockstore.rs :: impl BlockstoreEvent/fn slot
ret r
rewrite[R1-or-pattern] `Self::FirstShred(slot) | Self::InvalidBlock(slot) => *slot,` => `Self::FirstShred(slot) => *slot, Self::InvalidBlock(slot) => *slot,`
ensures
        r == (match *self { BlockstoreEvent::FirstShred(s) => s, BlockstoreEvent::InvalidBlock(s) => s, BlockstoreEvent::Block { slot, block_info } => slot }),
@*/
}
impl VotorTimeout {
/*@ extract src/consensus/votor.rs :: impl VotorTimeout/fn slot
ret r
rewrite[R1-or-pattern] `Self::Timeout(slot) | Self::TimeoutCrashedLeader(slot) => *slot,` => `Self::Timeout(slot) => *slot, Self::TimeoutCrashedLeader(slot) => *slot,`
ensures
        r == (match *self { VotorTimeout::Timeout(s) => s, VotorTimeout::TimeoutCrashedLeader(s) => s }),
@*/
}
impl Clone for BlockInfo { #[verifier::external_body] fn clone(&self) -> (r: Self) ensures r == *self { unimplemented!() } }

// R9: element clones of the by-value `for` loops over Vec<Cert> / Vec<Vote> (the loops move the elements out)
#[verifier::external_body]
pub fn verif_clone_cert(c: &Cert) -> (r: Cert) ensures r == *c { unimplemented!() }
#[verifier::external_body]
pub fn verif_clone_vote(v: &Vote) -> (r: Vote) ensures r == *v { unimplemented!() }

impl<A: All2All> Votor<A> {
    // `self.broadcast(msg)` (All2All network send through &self) renamed by rewrite R3b: a cast vote is
    // appended to the ghost log; nothing else changes.  ASSUMED: the network layer delivers what it is given.
    #[verifier::external_body]
    pub fn verif_broadcast(&mut self, msg: ConsensusMessage)
        ensures
            msg matches ConsensusMessage::Vote(v) ==> final(self).sent@ == old(self).sent@.push((v.spec_slot(), v.spec_kind())),
            msg is Cert ==> final(self).sent@ == old(self).sent@,
            final(self).slots == old(self).slots,
            final(self).same_env(old(self)),
            final(self).voting_key == old(self).voting_key,
    { unimplemented!() }

    // ASSUMED contract of `self.slots.entry(slot).or_default()`: the slot's state, created with all flags
    // cleared on first use; nothing else changes.
    #[verifier::external_body]
    pub fn state_mut(&mut self, slot: Slot) -> (r: &mut SlotState)
        ensures
            *r == old(self).st(slot),
            final(self).slots@ == old(self).slots@.insert(slot, *final(r)),
            final(self).sent == old(self).sent,
            final(self).same_env(old(self)),
    { unimplemented!() }

/*@ extract src/consensus/votor.rs :: impl Votor<A>/fn has_voted
props C05
ret r
ensures
        r == self.st(slot).voted,
closure 0
        params s: &SlotState
        ret b: bool
        ensures b == s.voted
@*/
/*@ extract src/consensus/votor.rs :: impl Votor<A>/fn is_retired
props C05
ret r
ensures
        r == self.st(slot).retired,
closure 0
        params s: &SlotState
        ret b: bool
        ensures b == s.retired
@*/
/*@ extract src/consensus/votor.rs :: impl Votor<A>/fn first_unpruned_slot
props C05
ret r
ensures
        r.0 == self.lo(),
@*/

/*@ extract src/consensus/votor.rs :: impl Votor<A>/fn try_final
props C05
elide-async
rewrite*[R3b] `self.broadcast(` => `self.verif_broadcast(`
rewrite*[R8] `vote.into()` => `ConsensusMessage::Vote(vote)`
requires
        old(self).inv(),
        // [C05.no_vote_in_pruned_slot]
        slot.0 >= old(self).lo(),
ensures
        // [C05.notarized_mark_only_from_a_notarization_certificate] (frame)
        forall|s: Slot| (#[trigger] final(self).st(s)).block_notarized == old(self).st(s).block_notarized,
        final(self).inv(),
        final(self).same_env(old(self)),
        // [C05.finalize_only_own_notarized_block_with_certificate]
        final(self).sent@ == old(self).sent@ || (final(self).sent@ == old(self).sent@.push((slot, VoteKind::Final))
            && old(self).st(slot).block_notarized == Some(*hash) && old(self).st(slot).voted_notar == Some(*hash) && !old(self).st(slot).bad_window),
        forall|s: Slot| s != slot ==> #[trigger] final(self).st(s) == old(self).st(s),
        final(self).st(slot).voted == old(self).st(slot).voted && final(self).st(slot).voted_notar == old(self).st(slot).voted_notar
            && final(self).st(slot).bad_window == old(self).st(slot).bad_window,
        old(self).st(slot).retired ==> final(self).st(slot).retired,
        forall|s: Slot| #[trigger] final(self).slots@.contains_key(s) ==> old(self).slots@.contains_key(s) || s == slot,
before `let state = self.slots.get(&slot);`
        let ghost pre = *self;
after `self.state_mut(slot).retired = true;`
        proof {
            assert forall|s: Slot| #[trigger] self.st(s) == (if s == slot { SlotState { retired: true, ..pre.st(slot) } } else { pre.st(s) }) by {}
            assert(self.sent@ == pre.sent@.push((slot, VoteKind::Final)));
            assert(self.lo() == pre.lo());
            assert forall|i: int| 0 <= i < pre.sent@.len() implies #[trigger] self.sent@[i] == pre.sent@[i] by {}
            let sent = self.sent@;
            assert(forall|s: Slot| #[trigger] self.slots@.contains_key(s) ==> s.0 >= self.lo());
            assert(forall|s: Slot| (#[trigger] self.st(s)).retired ==> self.st(s).voted);
            assert(forall|i: int| 0 <= i < sent.len() && is_initial((#[trigger] sent[i]).1) && sent[i].0.0 >= self.lo() ==> self.st(sent[i].0).voted);
            assert(forall|i: int, j: int| 0 <= i < j < sent.len() && is_initial((#[trigger] sent[i]).1) && is_initial((#[trigger] sent[j]).1)
                && sent[i].0.0 >= self.lo() ==> sent[i].0 != sent[j].0);
            assert(forall|i: int| 0 <= i < sent.len() && sent[i].0.0 >= self.lo() ==>
                ((#[trigger] sent[i]).1 matches VoteKind::Notar(h) ==> self.st(sent[i].0).voted_notar == Some(h)));
            assert(forall|i: int| 0 <= i < sent.len() && (#[trigger] sent[i]).1 is Final && sent[i].0.0 >= self.lo() ==>
                self.st(sent[i].0).retired && !self.st(sent[i].0).bad_window && self.st(sent[i].0).voted_notar is Some);
            assert(forall|i: int| 0 <= i < sent.len() && is_fallback_or_skip((#[trigger] sent[i]).1) && sent[i].0.0 >= self.lo()
                ==> self.st(sent[i].0).bad_window);
        }
closure 0
        params s: &SlotState
        ret o: Option<&BlockHash>
        ensures (o is Some) == (s.block_notarized is Some), o matches Some(x) ==> *x == s.block_notarized->0
closure 1
        params s: &SlotState
        ret o: Option<&BlockHash>
        ensures (o is Some) == (s.voted_notar is Some), o matches Some(x) ==> *x == s.voted_notar->0
closure 2
        params s: &SlotState
        ret b: bool
        ensures b == s.bad_window
@*/

/*@ extract src/consensus/votor.rs :: impl Votor<A>/fn try_skip_window
props C05
elide-async
rewrite*[R3b] `self.broadcast(` => `self.verif_broadcast(`
rewrite*[R8] `vote.into()` => `ConsensusMessage::Vote(vote)`
rewrite[R4] `for s in slot.slots_in_window() {` => `let mut verif_w: u64 = slot.first_slot_in_window().inner(); let verif_end: u64 = verif_w + SLOTS_PER_WINDOW; while verif_w < verif_end { let s = Slot::new(verif_w); verif_w += 1;`
requires
        old(self).inv_x(bad_pending),
        // [C05.no_vote_in_pruned_slot]
        slot.0 >= old(self).lo(),
        slot.0 + SLOTS_PER_WINDOW <= u64::MAX,
sig `(&mut self, slot: Slot)` => `(&mut self, slot: Slot, Ghost(bad_pending): Ghost<Option<Slot>>)`
ensures
        // [C05.notarized_mark_only_from_a_notarization_certificate] (frame)
        forall|s: Slot| (#[trigger] final(self).st(s)).block_notarized == old(self).st(s).block_notarized,
        final(self).inv_x(bad_pending),
        final(self).same_env(old(self)),
        // [C05.skip_only_unvoted_slots_of_the_window]
        old(self).sent@.is_prefix_of(final(self).sent@),
        forall|i: int| old(self).sent@.len() <= i < final(self).sent@.len() ==> (#[trigger] final(self).sent@[i]).1 is Skip
            && !old(self).st(final(self).sent@[i].0).voted && spec_first_in_window(final(self).sent@[i].0) == spec_first_in_window(slot),
        forall|s: Slot| (#[trigger] final(self).st(s)).retired == old(self).st(s).retired && final(self).st(s).voted_notar == old(self).st(s).voted_notar
            && (old(self).st(s).voted ==> final(self).st(s) == old(self).st(s))
            && (old(self).st(s).bad_window ==> final(self).st(s).bad_window),
before `let mut verif_w: u64 = slot.first_slot_in_window().inner();`
        let ghost pre = *self;
loop 0
        invariant
            forall|s: Slot| (#[trigger] self.st(s)).block_notarized == old(self).st(s).block_notarized,
            self.inv_x(bad_pending),
            self.same_env(&pre),
            pre.same_env(old(self)) && pre.sent@ == old(self).sent@ && pre.slots@ == old(self).slots@,
            verif_end == spec_first_in_window(slot) + SLOTS_PER_WINDOW,
            spec_first_in_window(slot) <= verif_w <= verif_end,
            spec_first_in_window(slot) >= self.lo(),
            pre.sent@.is_prefix_of(self.sent@),
            forall|i: int| pre.sent@.len() <= i < self.sent@.len() ==> (#[trigger] self.sent@[i]).1 is Skip
                && !pre.st(self.sent@[i].0).voted && spec_first_in_window(self.sent@[i].0) == spec_first_in_window(slot),
            forall|s: Slot| (#[trigger] self.st(s)).retired == pre.st(s).retired && self.st(s).voted_notar == pre.st(s).voted_notar
                && (pre.st(s).voted ==> self.st(s) == pre.st(s))
                && (pre.st(s).bad_window ==> self.st(s).bad_window),
        decreases verif_end - verif_w,
before `let state = self.state_mut(s);`
        let ghost g1 = *self;
after `self.verif_broadcast(ConsensusMessage::Vote(vote));`
        proof {
            assert forall|t: Slot| #[trigger] self.st(t) == (if t == s { SlotState { voted: true, bad_window: true, ..g1.st(s) } } else { g1.st(t) }) by {}
            assert(self.sent@ == g1.sent@.push((s, VoteKind::Skip)));
            assert forall|i: int| 0 <= i < g1.sent@.len() implies #[trigger] self.sent@[i] == g1.sent@[i] by {}
            assert(self.lo() == g1.lo());
            assert(spec_first_in_window(s) == spec_first_in_window(slot));
        }
@*/

/*@ extract src/consensus/votor.rs :: impl Votor<A>/fn try_notar
props C05
elide-async
ret r
rewrite*[R3b] `self.broadcast(` => `self.verif_broadcast(`
rewrite*[R8] `vote.into()` => `ConsensusMessage::Vote(vote)`
requires
        old(self).inv(),
        // [C05.no_vote_in_pruned_slot]
        slot.0 >= old(self).lo(),
ensures
        // [C05.notarized_mark_only_from_a_notarization_certificate] (frame)
        forall|s: Slot| (#[trigger] final(self).st(s)).block_notarized == old(self).st(s).block_notarized,
        final(self).inv(),
        final(self).same_env(old(self)),
        !r ==> final(self).sent@ == old(self).sent@ && final(self).slots@ == old(self).slots@,
        // [C05.notarize_once_and_only_on_acceptable_parent]
        r ==> !old(self).st(slot).voted
            && (slot.0 == spec_first_in_window(slot)
                    ==> old(self).st(slot).parents_ready@.contains(block_info.parent))
            && (slot.0 != spec_first_in_window(slot)
                    ==> block_info.parent.0.0 + 1 == slot.0 && old(self).st(block_info.parent.0).voted_notar == Some(block_info.parent.1)),
        r ==> old(self).sent@.push((slot, VoteKind::Notar(block_info.hash))).is_prefix_of(final(self).sent@)
            && final(self).sent@.len() <= old(self).sent@.len() + 2
            && (final(self).sent@.len() == old(self).sent@.len() + 2 ==> final(self).sent@[old(self).sent@.len() as int + 1] == (slot, VoteKind::Final)),
        forall|s: Slot| s != slot ==> #[trigger] final(self).st(s) == old(self).st(s),
        forall|s: Slot| #[trigger] final(self).slots@.contains_key(s) ==> old(self).slots@.contains_key(s) || s == slot,
before `let BlockInfo { hash, parent } = block_info;`
        let ghost pre = *self;
        let ghost gbi = block_info;
closure 0
        params s: &SlotState
        ret b: bool
        ensures b == s.parents_ready@.contains(parent)
closure 1
        params s: &SlotState
        ret o: Option<&BlockHash>
        ensures (o is Some) == (s.voted_notar is Some), o matches Some(x) ==> *x == s.voted_notar->0
after `state.pending_block = None;`
        proof {
            let g = pre;
            assert forall|t: Slot| #[trigger] self.st(t) == (if t == slot { SlotState { voted: true, voted_notar: Some(hash), pending_block: None, ..g.st(slot) } } else { g.st(t) }) by {}
            assert(self.sent@ == g.sent@.push((slot, VoteKind::Notar(hash))));
            assert forall|i: int| 0 <= i < g.sent@.len() implies #[trigger] self.sent@[i] == g.sent@[i] by {}
            assert(self.lo() == g.lo());
            assert(self.inv());
        }
@*/

    // set_timeouts spawns a tokio task sending timeout events later; its only local effect is the assertion
    // that the slot starts a window (kept as a precondition = proof obligation at every call site).
    #[verifier::external_body]
    pub fn set_timeouts(&self, slot: Slot)
        requires
            // [C05.timeouts_only_for_window_starts]
            slot.0 % SLOTS_PER_WINDOW == 0,
    { unimplemented!() }

    // `self.broadcast(msg)` inside the standstill arm, renamed by rewrite R3b: re-broadcast of an already cast vote or a
    // held certificate (no new vote is cast); the message is appended to the second ghost log `fwd`, nothing else changes.
    #[verifier::external_body]
    pub fn verif_rebroadcast(&mut self, msg: ConsensusMessage)
        ensures
            final(self).fwd@ == old(self).fwd@.push(msg),
            final(self).sent == old(self).sent,
            final(self).slots == old(self).slots,
            final(self).same_env(old(self)),
            final(self).voting_key == old(self).voting_key,
    { unimplemented!() }
    #[verifier::external_body]
    pub fn verif_slots_with_pending_block(&self) -> (r: Vec<Slot>)
        // self.slots.iter().filter(|(_, s)| s.pending_block.is_some()).map(|(slot, _)| *slot).collect()
        ensures forall|i: int| 0 <= i < r@.len() ==> self.slots@.contains_key(#[trigger] r@[i])
    { unimplemented!() }
    #[verifier::external_body]
    pub fn verif_pending_block_of(&self, slot: &Slot) -> (r: Option<BlockInfo>)
        // self.slots.get(&slot).and_then(|s| s.pending_block.clone())
        ensures r == self.st(*slot).pending_block
    { unimplemented!() }

/*@ extract src/consensus/votor.rs :: impl Votor<A>/fn received_shred
props C05
ret r
ensures
        r == self.st(slot).received_shred,
closure 0
        params s: &SlotState
        ret b: bool
        ensures b == s.received_shred
@*/

/*@ extract src/consensus/votor.rs :: impl Votor<A>/fn prune
props C05
rewrite[R8] `self.slots.split_off(` => `self.slots.verif_split_off(`
requires
        exists|klo: int| klo <= old(self).lo() && old(self).inv_full(None, klo),
ensures
        final(self).inv(),
        final(self).same_env(old(self)),
        final(self).sent == old(self).sent,
        forall|s: Slot| s.0 >= final(self).lo() ==> #[trigger] final(self).st(s) == old(self).st(s),
after `self.slots = self.slots.verif_split_off(&self.first_unpruned_slot());`
        proof {
            assert(self.slots.spec_map() == self.slots@);
            assert forall|s: Slot| s.0 >= self.lo() implies #[trigger] self.st(s) == old(self).st(s) by {}
        }
@*/

/*@ extract src/consensus/votor.rs :: impl Votor<A>/fn check_pending_blocks
props C05
elide-async
rewrite[R8] `let slots = self .slots .iter() .filter(|(_, s)| s.pending_block.is_some()) .map(|(slot, _)| *slot) .collect::<Vec<_>>();` => `let slots = self.verif_slots_with_pending_block();`
rewrite[R4] `for slot in slots {` => `let mut verif_i: usize = 0; while verif_i < slots.len() { let slot = slots[verif_i]; verif_i += 1;`
rewrite[R8] `self.slots.get(&slot).and_then(|s| s.pending_block.clone())` => `self.verif_pending_block_of(&slot)`
requires
        old(self).inv(),
ensures
        // [C05.notarized_mark_only_from_a_notarization_certificate] (frame)
        forall|s: Slot| (#[trigger] final(self).st(s)).block_notarized == old(self).st(s).block_notarized,
        final(self).inv(),
        final(self).same_env(old(self)),
        old(self).sent@.is_prefix_of(final(self).sent@),
        // [C05.pending_blocks_voted_by_the_same_rules]
        forall|i: int| old(self).sent@.len() <= i < final(self).sent@.len() ==> ((#[trigger] final(self).sent@[i]).1 is Notar || final(self).sent@[i].1 is Final),
before `let slots = self.verif_slots_with_pending_block();`
        let ghost pre = *self;
loop 0
        invariant
            forall|s: Slot| (#[trigger] self.st(s)).block_notarized == old(self).st(s).block_notarized,
            self.inv(),
            self.same_env(&pre),
            pre.same_env(old(self)) && pre.sent@ == old(self).sent@,
            pre.sent@.is_prefix_of(self.sent@),
            forall|i: int| pre.sent@.len() <= i < self.sent@.len() ==> ((#[trigger] self.sent@[i]).1 is Notar || self.sent@[i].1 is Final),
            forall|i: int| 0 <= i < slots@.len() ==> (#[trigger] slots@[i]).0 >= self.lo(),
        decreases slots@.len() - verif_i,
before `if let Some(block_info) = self.verif_pending_block_of(&slot)`
        let ghost g1 = *self;
after `self.try_notar(slot, block_info);`
        proof {
            assert forall|i: int| g1.sent@.len() <= i < self.sent@.len() implies ((#[trigger] self.sent@[i]).1 is Notar || self.sent@[i].1 is Final) by {
                let pushed = g1.sent@.push((slot, VoteKind::Notar(block_info.hash)));
                if i == g1.sent@.len() { assert(self.sent@[i] == pushed[i]); }
            }
            assert forall|i: int| 0 <= i < g1.sent@.len() implies #[trigger] self.sent@[i] == g1.sent@[i] by {
                let pushed = g1.sent@.push((slot, VoteKind::Notar(block_info.hash)));
                assert(self.sent@[i] == pushed[i]);
            }
        }
@*/

/*@ extract src/consensus/votor.rs :: impl Votor<A>/fn handle_cert_created
props C05
elide-async
rewrite*[R3b] `self.broadcast(` => `self.verif_broadcast(`
rewrite?[R8] `cert .block_hash() .cloned() .expect("notar(-fallback) cert always references a block")` => `verif_cert_block_hash(&cert)`
rewrite[R8] `ConsensusMessage::from(cert)` => `ConsensusMessage::Cert(cert)`
requires
        old(self).inv(),
        cert.spec_slot().0 >= old(self).lo(),
ensures
        // [C05.notarized_mark_only_from_a_notarization_certificate] "casts a finalize vote only ... after seeing that block's notarization
        // certificate": the mark try_final relies on is set by nothing but a notarization certificate for exactly that slot and block
        forall|t: Slot| t.0 >= final(self).lo() ==> ((#[trigger] final(self).st(t)).block_notarized == old(self).st(t).block_notarized
            || (cert matches Cert::Notar(x) && t == x.slot && final(self).st(t).block_notarized == Some(x.block_hash))),
        final(self).inv(),
        old(self).sent@.is_prefix_of(final(self).sent@),
        // [C05.certificate_only_triggers_finalize_vote]
        forall|i: int| old(self).sent@.len() <= i < final(self).sent@.len() ==> (#[trigger] final(self).sent@[i]).1 is Final,
        final(self).lo() >= old(self).lo(),
before `match &cert {`
        let ghost pre = *self;
after `self.state_mut(cert.slot()).block_notarized = Some(hash.clone());`
        proof {
            let sl = cert.spec_slot();
            assert forall|t: Slot| #[trigger] self.st(t) == (if t == sl { SlotState { block_notarized: self.st(sl).block_notarized, ..pre.st(sl) } } else { pre.st(t) }) by {}
            assert(self.inv());
        }
before `self.verif_broadcast(ConsensusMessage::Cert(cert));`
        let ghost g9 = *self;
after `self.verif_broadcast(ConsensusMessage::Cert(cert));`
        proof {
            assert forall|t: Slot| #[trigger] self.st(t) == g9.st(t) by {}
            assert(self.sent@ == g9.sent@);
            assert(self.lo() == g9.lo());
        }
before `self.prune();`
        proof {
            // raising the watermark only shrinks the set of retained slots
            assert(self.lo() >= pre.lo()) by {
                assert(self.highest_final_cert_slot.0 >= pre.highest_final_cert_slot.0);
                lemma_window_start_monotone(pre.highest_final_cert_slot, self.highest_final_cert_slot);
            }
            assert forall|t: Slot| #[trigger] self.st(t) == pre.st(t) by {}
            assert(self.sent == pre.sent);
            assert(self.inv_full(None, pre.lo()));
        }
@*/

/*@ extract src/consensus/votor.rs :: impl Votor<A>/fn should_ignore_pool_event
props C05 C18
ret r
ensures
        // [C05.events_for_pruned_or_retired_slots_ignored C18.standstill_bundle_never_filtered]
        r == (match *event {
            PoolEvent::Standstill(_, _, _) => false,
            PoolEvent::CertCreated(c) => c.spec_slot().0 < self.lo(),
            PoolEvent::ParentReady { slot, parent } => slot.0 < self.lo() || self.st(slot).retired,
            PoolEvent::SafeToNotar(id) => id.0.0 < self.lo() || self.st(id.0).retired,
            PoolEvent::SafeToSkip(s) => s.0 < self.lo() || self.st(s).retired,
        }),
@*/

/*@ extract src/consensus/votor.rs :: impl Votor<A>/fn handle_pool_event
props C05 C18
elide-async
rewrite[R3b] `self.broadcast(cert.into())` => `self.verif_rebroadcast(ConsensusMessage::Cert(cert))`
rewrite[R3b] `self.broadcast(vote.into())#2` => `self.verif_rebroadcast(ConsensusMessage::Vote(vote))`
rewrite[R4] `for cert in certs {` => `let verif_certs = certs; let mut verif_ci: usize = 0; while verif_ci < verif_certs.len() { let cert = verif_clone_cert(&verif_certs[verif_ci]); verif_ci += 1;`
rewrite[R4] `for vote in votes {` => `let verif_votes = votes; let mut verif_vi: usize = 0; while verif_vi < verif_votes.len() { let vote = verif_clone_vote(&verif_votes[verif_vi]); verif_vi += 1;`
rewrite*[R3b] `self.broadcast(` => `self.verif_broadcast(`
rewrite*[R8] `vote.into()` => `ConsensusMessage::Vote(vote)`
rewrite*[R3b] `self.try_skip_window(slot);` => `self.try_skip_window(slot, Ghost(Some(slot)));`
requires
        old(self).inv(),
        // what the pool guarantees for the events it sends (C06 / C07): a ParentReady names the first slot of a window
        event matches PoolEvent::ParentReady { slot, parent } ==> slot.0 % SLOTS_PER_WINDOW == 0,
        event matches PoolEvent::SafeToNotar(id) ==> id.0.0 + SLOTS_PER_WINDOW <= u64::MAX,
        event matches PoolEvent::SafeToSkip(s) ==> s.0 + SLOTS_PER_WINDOW <= u64::MAX,
ensures
        // [C05.notarized_mark_only_from_a_notarization_certificate] "casts a finalize vote only ... after seeing that block's notarization
        // certificate": the mark try_final relies on is set by nothing but a notarization certificate for exactly that slot and block
        forall|t: Slot| t.0 >= final(self).lo() ==> ((#[trigger] final(self).st(t)).block_notarized == old(self).st(t).block_notarized
            || (event matches PoolEvent::CertCreated(Cert::Notar(x)) && t == x.slot && final(self).st(t).block_notarized == Some(x.block_hash))),
        final(self).inv(),
        old(self).sent@.is_prefix_of(final(self).sent@),
        // [C18.standstill_bundle_forwarded_completely] every certificate and every vote of the bundle is re-broadcast,
        // in order, whatever the pruning state; no new vote is cast
        event matches PoolEvent::Standstill(_, certs, votes) ==> final(self).sent@ == old(self).sent@
            && final(self).fwd@ == old(self).fwd@ + Seq::new(certs@.len(), |i: int| ConsensusMessage::Cert(certs@[i]))
                + Seq::new(votes@.len(), |i: int| ConsensusMessage::Vote(votes@[i])),
        // [C05.fallback_votes_only_on_their_safe_to_event]
        forall|i: int| old(self).sent@.len() <= i < final(self).sent@.len() ==> match (#[trigger] final(self).sent@[i]).1 {
            VoteKind::NotarFallback(h) => event == PoolEvent::SafeToNotar((final(self).sent@[i].0, h)),
            VoteKind::SkipFallback => event == PoolEvent::SafeToSkip(final(self).sent@[i].0),
            VoteKind::Skip => event is SafeToNotar || event is SafeToSkip,
            VoteKind::Notar(_) => event is ParentReady,
            VoteKind::Final => event is ParentReady || event is CertCreated,
        },
before `let slot = event.slot();`
        let ghost pre = *self;
        let ghost ev0 = event;
loop 0
        invariant
            pre == *old(self) && pre.inv(),
            ev0 matches PoolEvent::Standstill(_, cs, vs) && cs == verif_certs && vs == votes,
            verif_ci <= verif_certs@.len(),
            self.sent == pre.sent && self.slots == pre.slots && self.same_env(&pre) && self.voting_key == pre.voting_key,
            self.fwd@ =~= pre.fwd@ + Seq::new(verif_ci as nat, |i: int| ConsensusMessage::Cert(verif_certs@[i])),
        decreases verif_certs@.len() - verif_ci,
loop 1
        invariant
            pre == *old(self) && pre.inv(),
            ev0 matches PoolEvent::Standstill(_, cs, vs) && cs == verif_certs && vs == verif_votes,
            verif_vi <= verif_votes@.len(),
            self.sent == pre.sent && self.slots == pre.slots && self.same_env(&pre) && self.voting_key == pre.voting_key,
            self.fwd@ =~= pre.fwd@ + Seq::new(verif_certs@.len(), |i: int| ConsensusMessage::Cert(verif_certs@[i]))
                + Seq::new(verif_vi as nat, |i: int| ConsensusMessage::Vote(verif_votes@[i])),
        decreases verif_votes@.len() - verif_vi,
after `self.state_mut(slot).parents_ready.insert(parent);`
        proof {
            assert forall|t: Slot| t != slot implies #[trigger] self.st(t) == pre.st(t) by {}
            assert(self.st(slot).voted == pre.st(slot).voted && self.st(slot).voted_notar == pre.st(slot).voted_notar
                && self.st(slot).bad_window == pre.st(slot).bad_window && self.st(slot).retired == pre.st(slot).retired);
            assert(self.sent@ == pre.sent@);
            assert(self.lo() == pre.lo());
            assert(self.inv());
        }
after `self.verif_broadcast(ConsensusMessage::Vote(vote));#0`
        proof {
            assert forall|t: Slot| #[trigger] self.st(t) == pre.st(t) by {}
            assert(self.sent@ == pre.sent@.push((slot, VoteKind::NotarFallback(hash))));
            assert forall|i: int| 0 <= i < pre.sent@.len() implies #[trigger] self.sent@[i] == pre.sent@[i] by {}
            assert(self.lo() == pre.lo());
            assert(self.inv_x(Some(slot)));
        }
after `self.verif_broadcast(ConsensusMessage::Vote(vote));#1`
        proof {
            assert forall|t: Slot| #[trigger] self.st(t) == pre.st(t) by {}
            assert(self.sent@ == pre.sent@.push((slot, VoteKind::SkipFallback)));
            assert forall|i: int| 0 <= i < pre.sent@.len() implies #[trigger] self.sent@[i] == pre.sent@[i] by {}
            assert(self.lo() == pre.lo());
            assert(self.inv_x(Some(slot)));
        }
after `self.try_skip_window(slot, Ghost(Some(slot)));#0`
        let ghost g2 = *self;
after `self.try_skip_window(slot, Ghost(Some(slot)));#1`
        let ghost g3 = *self;
blockend `Vote::new_notar_fallback(`
        proof {
            // whatever the arm did after skipping the window: the slot must now be marked bad and nothing else changed
            // [C05.fallback_vote_marks_slot_bad_so_no_finalize_follows]
            assert forall|t: Slot| #[trigger] self.st(t) == (if t == slot { SlotState { bad_window: true, ..g2.st(slot) } } else { g2.st(t) }) by {}
            assert(self.sent@ == g2.sent@ && self.lo() == g2.lo());
            assert(!g2.st(slot).retired);
            assert(self.inv());
            let base = pre.sent@.push((slot, VoteKind::NotarFallback(hash)));
            assert forall|i: int| pre.sent@.len() <= i < self.sent@.len() implies
                (if i == pre.sent@.len() { #[trigger] self.sent@[i] == (slot, VoteKind::NotarFallback(hash)) } else { self.sent@[i].1 is Skip }) by {
                if i == pre.sent@.len() { assert(self.sent@[i] == base[i]); }
            }
        }
blockend `Vote::new_skip_fallback(`
        proof {
            // [C05.fallback_vote_marks_slot_bad_so_no_finalize_follows]
            assert forall|t: Slot| #[trigger] self.st(t) == (if t == slot { SlotState { bad_window: true, ..g3.st(slot) } } else { g3.st(t) }) by {}
            assert(self.sent@ == g3.sent@ && self.lo() == g3.lo());
            assert(!g3.st(slot).retired);
            assert(self.inv());
            let base = pre.sent@.push((slot, VoteKind::SkipFallback));
            assert forall|i: int| pre.sent@.len() <= i < self.sent@.len() implies
                (if i == pre.sent@.len() { #[trigger] self.sent@[i] == (slot, VoteKind::SkipFallback) } else { self.sent@[i].1 is Skip }) by {
                if i == pre.sent@.len() { assert(self.sent@[i] == base[i]); }
            }
        }
blockend `let verif_votes = votes;`
        proof {
            assert forall|t: Slot| #[trigger] self.st(t) == pre.st(t) by {}
            assert(self.sent@ == pre.sent@);
            assert(self.lo() == pre.lo());
            assert(self.inv());
        }
@*/

/*@ extract src/consensus/votor.rs :: impl Votor<A>/fn handle_blockstore_event
props C05
elide-async
rewrite*[R3b] `self.try_skip_window(slot);` => `self.try_skip_window(slot, Ghost(None));`
requires
        old(self).inv(),
        (match event { BlockstoreEvent::FirstShred(s) => s, BlockstoreEvent::InvalidBlock(s) => s, BlockstoreEvent::Block { slot, block_info } => slot }).0 + SLOTS_PER_WINDOW <= u64::MAX,
ensures
        // [C05.notarized_mark_only_from_a_notarization_certificate] "casts a finalize vote only ... after seeing that block's notarization
        // certificate": the mark try_final relies on is set by nothing but a notarization certificate for exactly that slot and block
        forall|t: Slot| t.0 >= final(self).lo() ==> (#[trigger] final(self).st(t)).block_notarized == old(self).st(t).block_notarized,
        final(self).inv(),
        old(self).sent@.is_prefix_of(final(self).sent@),
        // [C05.blocks_trigger_only_initial_and_finalize_votes]
        forall|i: int| old(self).sent@.len() <= i < final(self).sent@.len() ==> match (#[trigger] final(self).sent@[i]).1 {
            VoteKind::Notar(_) => event is Block,
            VoteKind::Final => event is Block,
            VoteKind::Skip => event is InvalidBlock,
            _ => false,
        },
before `let slot = event.slot();`
        let ghost pre = *self;
        proof { lemma_window_start_le(self.highest_final_cert_slot); }
after `self.state_mut(slot).received_shred = true;`
        proof {
            assert forall|t: Slot| #[trigger] self.st(t) == (if t == slot { SlotState { received_shred: true, ..pre.st(slot) } } else { pre.st(t) }) by {}
            assert(self.sent@ == pre.sent@ && self.lo() == pre.lo());
            assert(self.inv());
        }
before `self.check_pending_blocks();`
        let ghost g5 = *self;
        proof {
            let pushed = pre.sent@.push((slot, VoteKind::Notar(block_info.hash)));
            assert forall|i: int| 0 <= i < pre.sent@.len() implies #[trigger] g5.sent@[i] == pre.sent@[i] by { assert(g5.sent@[i] == pushed[i]); }
            assert forall|i: int| pre.sent@.len() <= i < g5.sent@.len() implies ((#[trigger] g5.sent@[i]).1 is Notar || g5.sent@[i].1 is Final) by {
                if i == pre.sent@.len() { assert(g5.sent@[i] == pushed[i]); }
            }
        }
after `self.check_pending_blocks();`
        proof {
            assert forall|i: int| 0 <= i < g5.sent@.len() implies #[trigger] self.sent@[i] == g5.sent@[i] by {}
            assert forall|i: int| 0 <= i < pre.sent@.len() implies #[trigger] self.sent@[i] == pre.sent@[i] by { assert(self.sent@[i] == g5.sent@[i]); }
            assert forall|i: int| pre.sent@.len() <= i < self.sent@.len() implies ((#[trigger] self.sent@[i]).1 is Notar || self.sent@[i].1 is Final) by {
                if i < g5.sent@.len() { assert(self.sent@[i] == g5.sent@[i]); }
            }
        }
before `self.state_mut(slot).pending_block = Some(block_info);`
        let ghost g2 = *self;
after `self.state_mut(slot).pending_block = Some(block_info);`
        proof {
            assert forall|t: Slot| #[trigger] self.st(t) == (if t == slot { SlotState { pending_block: Some(block_info), ..g2.st(slot) } } else { g2.st(t) }) by {}
            assert(self.sent@ == g2.sent@ && self.lo() == g2.lo());
            assert(self.inv());
        }
@*/

/*@ extract src/consensus/votor.rs :: impl Votor<A>/fn handle_timeout_event
props C05
elide-async
rewrite*[R3b] `self.try_skip_window(slot);` => `self.try_skip_window(slot, Ghost(None));`
requires
        old(self).inv(),
        (match event { VotorTimeout::Timeout(s) => s, VotorTimeout::TimeoutCrashedLeader(s) => s }).0 + SLOTS_PER_WINDOW <= u64::MAX,
ensures
        // [C05.notarized_mark_only_from_a_notarization_certificate] "casts a finalize vote only ... after seeing that block's notarization
        // certificate": the mark try_final relies on is set by nothing but a notarization certificate for exactly that slot and block
        forall|t: Slot| t.0 >= final(self).lo() ==> (#[trigger] final(self).st(t)).block_notarized == old(self).st(t).block_notarized,
        final(self).inv(),
        old(self).sent@.is_prefix_of(final(self).sent@),
        // [C05.timeouts_trigger_only_skip_votes]
        forall|i: int| old(self).sent@.len() <= i < final(self).sent@.len() ==> (#[trigger] final(self).sent@[i]).1 is Skip,
before `let slot = event.slot();`
        proof { lemma_window_start_le(self.highest_final_cert_slot); }
@*/

// Canary: the real try_final under a deliberately false contract (claims a finalize vote is always cast); MUST fail.
/*@ extract src/consensus/votor.rs :: impl Votor<A>/fn try_final
as canary_try_final
expect-fail
elide-async
rewrite*[R3b] `self.broadcast(` => `self.verif_broadcast(`
rewrite*[R8] `vote.into()` => `ConsensusMessage::Vote(vote)`
requires
        old(self).inv(),
        slot.0 >= old(self).lo(),
ensures
        final(self).sent@.len() == old(self).sent@.len() + 1,
closure 0
        params s: &SlotState
        ret o: Option<&BlockHash>
        ensures (o is Some) == (s.block_notarized is Some), o matches Some(x) ==> *x == s.block_notarized->0
closure 1
        params s: &SlotState
        ret o: Option<&BlockHash>
        ensures (o is Some) == (s.voted_notar is Some), o matches Some(x) ==> *x == s.voted_notar->0
closure 2
        params s: &SlotState
        ret b: bool
        ensures b == s.bad_window
@*/
}

} // mod code

} // verus!

fn main() {}
