// Unit U1 `quorum`: Fraction::is_met, the four threshold constants, EpochInfo::is_*quorum,
// Slot window arithmetic.  Serves C03 C06 C09 (quorum arithmetic used by every threshold test).
//
// Everything between /*@ ... @*/ is replaced by the item cut verbatim out of /repo on
// every run; the text around it is hand-written specification (TRUSTED parts are marked).
use vstd::prelude::*;

verus! {

// ---------------------------------------------------------------- TRUSTED model of std::num::NonZeroU64
// (a stand-in type of the same name: `new(0)` is None, `get` returns the wrapped value; trusted to match std)
#[derive(Clone, Copy)]
pub struct NonZeroU64 { pub v: u64 }

impl NonZeroU64 {
    pub const fn new(n: u64) -> (r: Option<NonZeroU64>)
        ensures
            n != 0 ==> r == Some(NonZeroU64 { v: n }),
            n == 0 ==> r is None,
    { if n == 0 { None } else { Some(NonZeroU64 { v: n }) } }

    pub const fn get(self) -> (r: u64)
        ensures r == self.v
    { self.v }
}

// ---------------------------------------------------------------- proved helper lemmas
pub proof fn lemma_mul_u64_fits_u128(a: u64, b: u64)
    ensures
        a as int * b as int <= u128::MAX as int,
        (a as u128) * (b as u128) == a as int * b as int,
{
    assert(a as int * b as int <= 0xffff_ffff_ffff_ffff * 0xffff_ffff_ffff_ffff) by (nonlinear_arith)
        requires 0 <= a as int <= 0xffff_ffff_ffff_ffff, 0 <= b as int <= 0xffff_ffff_ffff_ffff;
}

// ---------------------------------------------------------------- Fraction (src/types/fraction.rs)
/*@ extract src/types/fraction.rs :: struct Fraction
@*/

// The mathematical meaning of "value/total >= num/den" (exact, over unbounded integers).
pub open spec fn frac_met(num: int, den: int, value: int, total: int) -> bool {
    value * den >= total * num
}

impl Fraction {
/*@ extract src/types/fraction.rs :: impl Fraction/fn new
props C03 C06 C09
ret r
ensures
        // [C03.fraction_new C06.fraction_new C09.fraction_new]
        r.numerator == numerator,
        r.denominator == denominator,
@*/

/*@ extract src/types/fraction.rs :: impl Fraction/fn is_met
props C03 C06 C09
ret r
ensures
        // [C03.is_met_exact C06.is_met_exact C09.is_met_exact]
        r == frac_met(self.numerator as int, self.denominator.v as int, value as int, total as int),
before `(value as u128)`
        proof {
            lemma_mul_u64_fits_u128(value, self.denominator.v);
            lemma_mul_u64_fits_u128(total, self.numerator);
        }
@*/
}

// ---------------------------------------------------------------- threshold constants (src/consensus.rs)
/*@ extract src/consensus.rs :: const WEAKEST_QUORUM_THRESHOLD
props C06
ensures
        // [C06.threshold_20_percent]
        WEAKEST_QUORUM_THRESHOLD.numerator == 1 && WEAKEST_QUORUM_THRESHOLD.denominator.v == 5,
@*/
/*@ extract src/consensus.rs :: const WEAK_QUORUM_THRESHOLD
props C06
ensures
        // [C06.threshold_40_percent]
        WEAK_QUORUM_THRESHOLD.numerator == 2 && WEAK_QUORUM_THRESHOLD.denominator.v == 5,
@*/
/*@ extract src/consensus.rs :: const QUORUM_THRESHOLD
props C03 C06 C09
ensures
        // [C03.threshold_60_percent C06.threshold_60_percent C09.threshold_60_percent]
        QUORUM_THRESHOLD.numerator == 3 && QUORUM_THRESHOLD.denominator.v == 5,
@*/
/*@ extract src/consensus.rs :: const STRONG_QUORUM_THRESHOLD
props C03 C09
ensures
        // [C03.threshold_80_percent C09.threshold_80_percent]
        STRONG_QUORUM_THRESHOLD.numerator == 4 && STRONG_QUORUM_THRESHOLD.denominator.v == 5,
@*/

// ---------------------------------------------------------------- Stake / EpochInfo (abstracted to what the quorum tests read)
/*@ extract src/types/stake.rs :: struct Stake
@*/
impl Stake {
/*@ extract src/types/stake.rs :: impl Stake/fn inner
ret r
ensures
        r == self.0,
@*/
}

// TRUSTED stand-in for the part of `EpochInfo` the quorum predicates read: only `total_stake`.
// (The `validators` vector is irrelevant to these four functions.)
pub struct EpochInfo {
    pub total_stake: Stake,
}

// The property statements' thresholds, written from properties.jsonl (C03/C06/C09):
// "at least 20% / 40% / 60% / 80% of total stake", exact over the integers.
pub open spec fn at_least_pct(stake: int, total: int, pct: int) -> bool {
    stake * 100 >= total * pct
}

pub proof fn lemma_pct_is_fifths(stake: int, total: int)
    ensures
        at_least_pct(stake, total, 20) == frac_met(1, 5, stake, total),
        at_least_pct(stake, total, 40) == frac_met(2, 5, stake, total),
        at_least_pct(stake, total, 60) == frac_met(3, 5, stake, total),
        at_least_pct(stake, total, 80) == frac_met(4, 5, stake, total),
{
}

impl EpochInfo {
/*@ extract src/consensus/epoch_info.rs :: impl EpochInfo/fn total_stake
ret r
ensures
        r == self.total_stake,
@*/

/*@ extract src/consensus/epoch_info.rs :: impl EpochInfo/fn is_weakest_quorum
props C06
ret r
ensures
        // [C06.weakest_quorum_is_20_percent]
        r == at_least_pct(stake.0 as int, self.total_stake.0 as int, 20),
before `WEAKEST_QUORUM_THRESHOLD.is_met`
        proof { lemma_pct_is_fifths(stake.0 as int, self.total_stake.0 as int); }
@*/

/*@ extract src/consensus/epoch_info.rs :: impl EpochInfo/fn is_weak_quorum
props C06
ret r
ensures
        // [C06.weak_quorum_is_40_percent]
        r == at_least_pct(stake.0 as int, self.total_stake.0 as int, 40),
before `WEAK_QUORUM_THRESHOLD.is_met`
        proof { lemma_pct_is_fifths(stake.0 as int, self.total_stake.0 as int); }
@*/

/*@ extract src/consensus/epoch_info.rs :: impl EpochInfo/fn is_quorum
props C03 C06 C09
ret r
ensures
        // [C03.quorum_is_60_percent C06.quorum_is_60_percent C09.quorum_is_60_percent]
        r == at_least_pct(stake.0 as int, self.total_stake.0 as int, 60),
before `QUORUM_THRESHOLD.is_met`
        proof { lemma_pct_is_fifths(stake.0 as int, self.total_stake.0 as int); }
@*/

/*@ extract src/consensus/epoch_info.rs :: impl EpochInfo/fn is_strong_quorum
props C03 C09
ret r
ensures
        // [C03.strong_quorum_is_80_percent C09.strong_quorum_is_80_percent]
        r == at_least_pct(stake.0 as int, self.total_stake.0 as int, 80),
before `STRONG_QUORUM_THRESHOLD.is_met`
        proof { lemma_pct_is_fifths(stake.0 as int, self.total_stake.0 as int); }
@*/

// Canary: the real `is_quorum` under a deliberately false contract (claims 40%).  It MUST fail;
// if it verifies, the unit's result is void (contradictory preconditions / vacuous run).
/*@ extract src/consensus/epoch_info.rs :: impl EpochInfo/fn is_quorum
as canary_is_quorum
expect-fail
ret r
ensures
        r == at_least_pct(stake.0 as int, self.total_stake.0 as int, 40),
before `QUORUM_THRESHOLD.is_met`
        proof { lemma_pct_is_fifths(stake.0 as int, self.total_stake.0 as int); }
@*/
}

} // verus!

fn main() {}
