// Unit U1 `quorum`: Fraction::is_met, the four threshold constants, EpochInfo::is_*quorum.
// Serves C03 C06 C09 (quorum arithmetic used by every threshold test).
//
// Every `extract` directive is replaced by the item cut verbatim out of /repo on every run;
// the text around it is hand-written specification (TRUSTED parts are marked).
use vstd::prelude::*;

verus! {

/*@ include units/common/base_types.rs @*/
/*@ include units/common/quorum_core.rs @*/

impl EpochInfo {
// Canary: the real `is_quorum` under a deliberately false contract (claims 40%).  It MUST fail;
// if it verifies, the unit's result is void (contradictory preconditions / vacuous run).
/*@ extract src/consensus/epoch_info.rs :: impl EpochInfo/fn is_quorum
as canary_is_quorum
expect-fail
ret r
ensures
        r == at_least_pct(stake.0 as int, self.total_stake.0 as int, 40),
before `QUORUM_THRESHOLD.is_met`
        proof { lemma_pct_is_fifths(stake.0 as int, self.total_stake.0 as int); }
@*/
}

} // verus!

fn main() {}
