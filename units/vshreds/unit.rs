// Unit `vshreds`: the layout check that guards the Reed-Solomon decoder
// (src/shredder/validated_shreds.rs ValidatedShreds::try_new).  Serves C11, C10.
use vstd::prelude::*;

verus! {

/*@ include units/common/base_types.rs @*/

pub const TOTAL_SHREDS: usize = 64;
/*@ extract src/shredder/shred_index.rs :: struct ShredIndex
derive Clone, Copy
traits Eq
@*/
// the parts of a shred read here: payload bytes, shred index, data / coding kind
pub struct ShredPayload { pub shred_index: ShredIndex, pub data: Vec<u8> }
#[verifier::external_body] pub struct ValidatedShred { _p: () }
impl ValidatedShred {
    pub uninterp spec fn spec_payload(&self) -> ShredPayload;
    pub uninterp spec fn spec_is_data(&self) -> bool;
    #[verifier::external_body] pub fn payload(&self) -> (r: &ShredPayload) ensures *r == self.spec_payload() { unimplemented!() }
    // a shred is either a data or a coding shred (enum ShredPayloadType)
    #[verifier::external_body] pub fn is_data(&self) -> (r: bool) ensures r == self.spec_is_data() { unimplemented!() }
    #[verifier::external_body] pub fn is_coding(&self) -> (r: bool) ensures r == !self.spec_is_data() { unimplemented!() }
}
/*@ extract src/shredder/validated_shreds.rs :: struct ValidatedShreds
derive Clone, Copy
@*/
// `*shred.payload().shred_index` (Deref of ShredIndex to usize, R8)
impl ShredIndex {
    #[verifier::external_body] pub fn verif_deref(&self) -> (r: usize) ensures r == self.0 { unimplemented!() }
}
// R8: `shreds.iter().flatten().next()`: the first present shred, if any
#[verifier::external_body]
pub fn verif_first_present<'a>(shreds: &'a [Option<ValidatedShred>; TOTAL_SHREDS]) -> (r: Option<&'a ValidatedShred>)
    ensures
        r is None <==> (forall|i: int| 0 <= i < TOTAL_SHREDS ==> (#[trigger] shreds@[i]) is None),
        r matches Some(s) ==> exists|i: int| 0 <= i < TOTAL_SHREDS && #[trigger] shreds@[i] == Some(*s),
{ unimplemented!() }

// ---------------------------------------------------------------- what the decoder needs (from the comments in the source)
pub open spec fn common_size(shreds: Seq<Option<ValidatedShred>>, size: int) -> bool {
    forall|i: int| 0 <= i < shreds.len() && (#[trigger] shreds[i]) is Some ==> (shreds[i]->0).spec_payload().data@.len() == size
}
pub open spec fn layout_ok(shreds: Seq<Option<ValidatedShred>>, data_shreds: int) -> bool {
    &&& exists|i: int| 0 <= i < shreds.len() && (#[trigger] shreds[i]) is Some
    &&& exists|size: int| #[trigger] common_size(shreds, size) && size > 0 && size % 2 == 0
    &&& forall|i: int| 0 <= i < shreds.len() && (#[trigger] shreds[i]) is Some ==> ((shreds[i]->0).spec_is_data() <==> i < data_shreds)
}

pub mod code {
use super::*;

impl<'a> ValidatedShreds<'a> {
/*@ extract src/shredder/validated_shreds.rs :: impl ValidatedShreds<'a>/fn try_new
props C11 C10
ret r
rewrite*[R8] `shreds.iter().flatten().next()?` => `verif_first_present(shreds)?`
rewrite[R4] `for s in shreds.iter().flatten() {` => `let mut verif_a: usize = 0; while verif_a < TOTAL_SHREDS { let verif_o = &shreds[verif_a]; verif_a += 1; let Some(s) = verif_o else { continue; };`
rewrite[R4] `for (i, shred) in shreds.iter().enumerate() {` => `let mut verif_b: usize = 0; while verif_b < TOTAL_SHREDS { let i = verif_b; let shred = &shreds[verif_b]; verif_b += 1;`
rewrite[R8] `*shred.payload().shred_index` => `shred.payload().shred_index.verif_deref()`
requires
        // [C11.split_matches_total C10.split_matches_total] callers pass the shredder's constants
        data_shreds + coding_shreds == TOTAL_SHREDS,
        // storage invariant of the blockstore rows (BlockData::add_shred stores a shred at its own index): the assert is a proof obligation
        forall|i: int| 0 <= i < TOTAL_SHREDS && (#[trigger] shreds@[i]) is Some ==> (shreds@[i]->0).spec_payload().shred_index.0 == i,
ensures
        // [C11.decoder_only_sees_a_sound_layout C10.decoder_only_sees_a_sound_layout] at least one shred, one common size that is
        // positive and even, data shreds in the data positions and coding shreds in the coding positions
        r matches Some(v) ==> layout_ok(shreds@, data_shreds as int) && v.shreds@ == shreds@ && v.data_shreds == data_shreds,
        // an empty array is refused
        (forall|i: int| 0 <= i < TOTAL_SHREDS ==> (#[trigger] shreds@[i]) is None) ==> r is None,
loop 0
        invariant
            verif_a <= TOTAL_SHREDS,
            shred_size > 0 && shred_size % 2 == 0,
            forall|i: int| 0 <= i < verif_a && (#[trigger] shreds@[i]) is Some ==> (shreds@[i]->0).spec_payload().data@.len() == shred_size,
        decreases TOTAL_SHREDS - verif_a,
loop 1
        invariant
            verif_b <= TOTAL_SHREDS,
            shred_size > 0 && shred_size % 2 == 0 && common_size(shreds@, shred_size as int),
            exists|i: int| 0 <= i < TOTAL_SHREDS && (#[trigger] shreds@[i]) is Some,
            data_shreds + coding_shreds == TOTAL_SHREDS,
            forall|i: int| 0 <= i < TOTAL_SHREDS && (#[trigger] shreds@[i]) is Some ==> (shreds@[i]->0).spec_payload().shred_index.0 == i,
            forall|i: int| 0 <= i < verif_b && (#[trigger] shreds@[i]) is Some ==> ((shreds@[i]->0).spec_is_data() <==> i < data_shreds),
        decreases TOTAL_SHREDS - verif_b,
@*/

// Canary: MUST fail (claims any non-empty array is accepted).
/*@ extract src/shredder/validated_shreds.rs :: impl ValidatedShreds<'a>/fn try_new
as canary_try_new
expect-fail
ret r
rewrite*[R8] `shreds.iter().flatten().next()?` => `verif_first_present(shreds)?`
rewrite[R4] `for s in shreds.iter().flatten() {` => `let mut verif_a: usize = 0; while verif_a < TOTAL_SHREDS { let verif_o = &shreds[verif_a]; verif_a += 1; let Some(s) = verif_o else { continue; };`
rewrite[R4] `for (i, shred) in shreds.iter().enumerate() {` => `let mut verif_b: usize = 0; while verif_b < TOTAL_SHREDS { let i = verif_b; let shred = &shreds[verif_b]; verif_b += 1;`
rewrite[R8] `*shred.payload().shred_index` => `shred.payload().shred_index.verif_deref()`
requires
        data_shreds + coding_shreds == TOTAL_SHREDS,
        forall|i: int| 0 <= i < TOTAL_SHREDS && (#[trigger] shreds@[i]) is Some ==> (shreds@[i]->0).spec_payload().shred_index.0 == i,
ensures
        (exists|i: int| 0 <= i < TOTAL_SHREDS && (#[trigger] shreds@[i]) is Some) ==> r is Some,
loop 0
        invariant
            verif_a <= TOTAL_SHREDS,
        decreases TOTAL_SHREDS - verif_a,
loop 1
        invariant
            verif_b <= TOTAL_SHREDS,
            forall|i: int| 0 <= i < TOTAL_SHREDS && (#[trigger] shreds@[i]) is Some ==> (shreds@[i]->0).spec_payload().shred_index.0 == i,
        decreases TOTAL_SHREDS - verif_b,
@*/
}

} // mod code

} // verus!

fn main() {}
