// Unit `deshred`: the frame of slice reconstruction (src/shredder.rs, default method Shredder::deshred):
// what happens to the caller's shred array.  Serves C11 (and discharges part of the deshred contract assumed in unit blockdata).
use vstd::prelude::*;

verus! {

/*@ include units/common/base_types.rs @*/

pub const TOTAL_SHREDS: usize = 64;
/*@ extract src/shredder.rs :: enum DeshredError
derive Clone, Copy
@*/
/*@ extract src/crypto/merkle.rs :: struct SliceRoot
derive
traits Clone Eq
@*/

// TRUSTED opaque stand-ins (their content plays no role for the frame)
#[verifier::external_body] pub struct ValidatedShred { _p: () }
#[verifier::external_body] pub struct Shred { _p: () }
#[verifier::external_body] #[derive(Clone, Copy)] pub struct SliceHeader { _p: () }
#[verifier::external_body] #[derive(Clone, Copy)] pub struct Signature { _p: () }
#[verifier::external_body] pub struct ShredPayloadRef { _p: () }
#[verifier::external_body] pub struct RawShreds { _p: () }
#[verifier::external_body] pub struct SliceMerkleTree { _p: () }
#[verifier::external_body] pub struct SlicePayload { _p: () }
#[verifier::external_body] pub struct ReconstructedSlice { _p: () }
// the parts of a shred read here
pub struct PayloadView { pub header: SliceHeader }
pub struct ShredView { pub slice_sig: Signature }
impl Clone for ValidatedShred {      // #[derive(Clone)]
    #[verifier::external_body]
    fn clone(&self) -> (r: Self) ensures r == *self { unimplemented!() }
}
impl ValidatedShred {
    #[verifier::external_body] pub fn slice_root(&self) -> (r: &SliceRoot) { unimplemented!() }
    #[verifier::external_body] pub fn payload(&self) -> (r: &PayloadView) { unimplemented!() }
    #[verifier::external_body] pub fn as_shred(&self) -> (r: &ShredView) { unimplemented!() }
}
// ValidatedShreds<'a>: a checked, shared view of the caller's array
#[verifier::external_body] #[derive(Clone, Copy)]
pub struct ValidatedShreds<'a> { _p: std::marker::PhantomData<&'a ()> }
impl<'a> ValidatedShreds<'a> {
    #[verifier::external_body]
    pub fn try_new(shreds: &'a [Option<ValidatedShred>; TOTAL_SHREDS], data_shreds: usize, coding_shreds: usize) -> (r: Option<Self>) { unimplemented!() }
    #[verifier::external_body]
    pub fn any_shred(&self) -> (r: &'a ValidatedShred) { unimplemented!() }
}
// R8 wrappers (iterator chain; `?` with a From conversion of the error type)
#[verifier::external_body]
pub fn verif_all_none(shreds: &[Option<ValidatedShred>; TOTAL_SHREDS]) -> (r: bool)      // shreds.iter().all(Option::is_none)
    ensures r == (forall|i: int| 0 <= i < TOTAL_SHREDS ==> (#[trigger] shreds@[i]) is None)
{ unimplemented!() }
#[verifier::external_body]
pub fn verif_payload_from_bytes(bytes: &Vec<u8>) -> (r: Result<SlicePayload, DeshredError>)   // SlicePayload::try_from(bytes.as_slice()) + From<SlicePayloadError>
{ unimplemented!() }
#[verifier::external_body]
pub fn check_merkle_tree(raw_shreds: &RawShreds, expected_root: &SliceRoot) -> (r: Result<SliceMerkleTree, DeshredError>) { unimplemented!() }
impl ReconstructedSlice {
    #[verifier::external_body]
    pub fn from_parts(payload: SlicePayload, any_shred: &ValidatedShred, slice_root: SliceRoot) -> (r: Self) { unimplemented!() }
}
// contract of fill_missing_shreds (src/shredder.rs): positions that hold a shred are left as they are.
// PROVED on the real body in unit `shred_fill` (there with the full characterisation of the regenerated shreds).
#[verifier::external_body] /* proved-elsewhere */
pub fn fill_missing_shreds(shreds: &mut [Option<ValidatedShred>; TOTAL_SHREDS], header: SliceHeader, raw_shreds: RawShreds, tree: &SliceMerkleTree, slice_sig: Signature)
    ensures
        forall|i: int| 0 <= i < TOTAL_SHREDS && (#[trigger] old(shreds)@[i]) is Some ==> final(shreds)@[i] == old(shreds)@[i],
        // (every empty position is filled: PROVED in unit shred_fill, clause every_missing_shred_is_regenerated_valid)
        forall|i: int| 0 <= i < TOTAL_SHREDS && (#[trigger] old(shreds)@[i]) is None ==> final(shreds)@[i] is Some,
{ unimplemented!() }

// any implementor of the trait
#[verifier::external_body] pub struct AnyShredder { _p: () }

pub mod code {
use super::*;

impl AnyShredder {
    pub const DATA_OUTPUT_SHREDS: usize = 32;
    pub const CODING_OUTPUT_SHREDS: usize = 32;
    // the required method of the trait (Reed-Solomon decoding; C11's arithmetic part is unit rs_codec): it only reads the view
    #[verifier::external_body]
    pub fn deshred_validated_shreds(&mut self, shreds: ValidatedShreds) -> (r: Result<(Vec<u8>, RawShreds), DeshredError>) { unimplemented!() }

/*@ extract src/shredder.rs :: trait Shredder: Default/fn deshred
props C11 C13
ret r
rewrite[R8] `shreds.iter().all(Option::is_none)` => `verif_all_none(shreds)`
rewrite[R8] `SlicePayload::try_from(payload_bytes.as_slice())?` => `verif_payload_from_bytes(&payload_bytes)?`
ensures
        // [C11.error_leaves_shreds_untouched] "on any decoding error the supplied shreds are left untouched"
        r is Err ==> final(shreds)@ == old(shreds)@,
        // [C11.present_shreds_are_kept C13.present_shreds_are_kept]
        forall|i: int| 0 <= i < TOTAL_SHREDS && (#[trigger] old(shreds)@[i]) is Some ==> final(shreds)@[i] == old(shreds)@[i],
        // an empty array is "not enough shreds"
        (forall|i: int| 0 <= i < TOTAL_SHREDS ==> (#[trigger] old(shreds)@[i]) is None) ==> r == Err::<ReconstructedSlice, DeshredError>(DeshredError::NotEnoughShreds),
        // [C11.success_leaves_all_64_shreds C14.success_leaves_all_64_shreds] a successful reconstruction leaves every position of the
        // array filled: the node can serve each of the slice's shreds afterwards
        r is Ok ==> forall|i: int| 0 <= i < TOTAL_SHREDS ==> (#[trigger] final(shreds)@[i]) is Some,
before `fill_missing_shreds(shreds, header, raw_shreds, &tree, slice_sig);`
        let ghost verif_s0 = *shreds;
after `fill_missing_shreds(shreds, header, raw_shreds, &tree, slice_sig);`
        proof { assert forall|i: int| 0 <= i < TOTAL_SHREDS implies (#[trigger] shreds@[i]) is Some by { let _ = verif_s0@[i]; } }
@*/

// Canary: the real body under a false contract (claims deshredding never succeeds); MUST fail.
/*@ extract src/shredder.rs :: trait Shredder: Default/fn deshred
as canary_deshred
expect-fail
ret r
rewrite[R8] `shreds.iter().all(Option::is_none)` => `verif_all_none(shreds)`
rewrite[R8] `SlicePayload::try_from(payload_bytes.as_slice())?` => `verif_payload_from_bytes(&payload_bytes)?`
ensures
        r is Err,
@*/
}

} // mod code

} // verus!

fn main() {}
