// Unit `trie`: the copy-on-write account state (src/execution/state.rs), a bitmap-compressed 32-way trie with
// reference-counted, path-copied nodes.  Serves C20 ("answers lookups [and] length ... exactly like an ordinary
// map, a fork never observes writes made to another fork after the split, two states with equal contents are equal").
#![feature(allocator_api)]
#![feature(clone_to_uninit)]
#![allow(unused)]
use vstd::prelude::*;
use vstd::std_specs::cmp::PartialEqSpec;
use std::sync::Arc;
use std::mem;

verus! {

// R7 targets (as in units/common/base_types.rs)
pub fn vassert(b: bool)
    requires b
{
}
#[verifier::external_body]
pub fn vpanic() -> !
    requires false
{
    panic!()
}

/*@ extract src/execution/state.rs :: type Address
@*/
/*@ extract src/execution/state.rs :: type AccountData
@*/
/*@ extract src/execution/state.rs :: const BITS_PER_LEVEL
@*/
/*@ extract src/execution/state.rs :: const FANOUT
@*/
/*@ extract src/execution/state.rs :: struct State
derive
@*/
// the expansion of #[derive(Clone)] on State (field-wise clone: an O(1) copy of the Arc and the counter); verified
impl Clone for State {
    fn clone(&self) -> (r: Self)
        ensures r == *self
    { State { root: self.root.clone(), len: self.len } }
}
/*@ extract src/execution/state.rs :: enum Node
derive Clone
@*/
// R6: `SmallVec<[Arc<Node>; 4]>` (inline storage for four children) is read as `Vec<Arc<Node>>`: same sequence semantics
/*@ extract src/execution/state.rs :: struct Branch
derive Clone
rewrite[R6] `SmallVec<[Arc<Node>; 4]>` => `Vec<Arc<Node>>`
@*/
/*@ extract src/execution/state.rs :: struct Leaf
derive Clone
@*/

// ---------------------------------------------------------------- std contracts (TRUSTED, documented behaviour)
// Arc::make_mut: a unique reference to the pointee, cloning it first if the Arc is shared.  Through Verus's value
// semantics of Arc this is "the Arc's value is whatever is written through the reference, and NO OTHER Arc changes":
// the second half is what Rust's ownership gives and is the whole of fork isolation (see DESIGN 5.20).
// (pointee equalities are stated between references because the pointee type may be unsized)
pub assume_specification<T: ?Sized + std::clone::CloneToUninit, A: std::alloc::Allocator + Clone> [std::sync::Arc::<T, A>::make_mut] (a: &mut std::sync::Arc<T, A>) -> (r: &mut T)
    ensures &*r == &**old(a), &**final(a) == &*final(r);
// `impl AsRef<T> for Arc<T>` is `&**self`
pub assume_specification<T: ?Sized, A: std::alloc::Allocator> [<Arc<T, A> as std::convert::AsRef<T>>::as_ref] (a: &Arc<T, A>) -> (r: &T)
    ensures r == &**a;
pub assume_specification<T, A: std::alloc::Allocator> [std::sync::Arc::<T, A>::try_unwrap] (a: std::sync::Arc<T, A>) -> (r: std::result::Result<T, std::sync::Arc<T, A>>)
    ensures (r matches Ok(v) ==> v == *a), (r matches Err(b) ==> b == a);
pub assume_specification<T> [std::mem::replace] (dest: &mut T, src: T) -> (r: T)
    ensures r == *old(dest), *final(dest) == src;
pub uninterp spec fn spec_default<T>() -> T;
pub assume_specification<T: std::default::Default> [std::mem::take] (dest: &mut T) -> (r: T)
    ensures r == *old(dest);
pub uninterp spec fn spec_popcount(x: u32) -> u32;
pub assume_specification [u32::count_ones] (x: u32) -> (r: u32)
    ensures r == spec_popcount(x);

// a few more std contracts (documented behaviour), so that code using them is verified instead of being undecided
pub assume_specification<T: ?Sized, A: std::alloc::Allocator> [std::sync::Arc::<T, A>::strong_count] (a: &std::sync::Arc<T, A>) -> (r: usize)
    ensures r >= 1;         // any positive count: whether another fork shares the node is not known to the code
pub assume_specification<T, F: FnOnce(T) -> bool> [Option::<T>::is_none_or] (o: Option<T>, f: F) -> (r: bool)
    requires o matches Some(x) ==> f.requires((x,)),
    ensures o is None ==> r, o matches Some(x) ==> f.ensures((x,), r);
pub assume_specification<T, F: FnOnce(T) -> bool> [Option::<T>::is_some_and] (o: Option<T>, f: F) -> (r: bool)
    requires o matches Some(x) ==> f.requires((x,)),
    ensures o is None ==> !r, o matches Some(x) ==> f.ensures((x,), r);
pub assume_specification [usize::div_ceil] (a: usize, b: usize) -> (r: usize)
    requires b > 0,
    ensures r as int == (if a % b == 0 { a as int / b as int } else { a as int / b as int + 1 });

// R8: `child.as_ref()` where `child: &mut Arc<Node>` resolves to the blanket `impl AsRef<U> for &mut T`, which forwards to
// `Arc::as_ref` = `&**child`; named through this VERIFIED helper
pub fn verif_node_ref(a: &Arc<Node>) -> (r: &Node)
    ensures *r == **a
{ &**a }
// R9-free: `==` on `[u8; 32]` (and on references to it) is extensional equality of the arrays; TRUSTED axiom about
// `impl PartialEq for [u8; N]`
#[verifier::external_body]
pub broadcast proof fn axiom_key_eq(a: Address, b: Address)
    ensures <Address as vstd::std_specs::cmp::PartialEqSpec<Address>>::obeys_eq_spec(),
        #[trigger] a.eq_spec(&b) == (a == b),
{}
pub assume_specification<T>[bool::then_some](b: bool, v: T) -> (r: Option<T>)
    ensures r == (if b { Some(v) } else { None });
// `Branch::default()` (#[derive(Default)] on Branch): zero bitmap, empty child vector -- stand-in for the derived impl
impl Branch {
    pub fn default() -> (r: Branch)
        ensures r.bitmap == 0, r.children@.len() == 0
    { Branch { bitmap: 0, children: Vec::new() } }
}

// ---------------------------------------------------------------- specification
// the chunk of `key` that indexes a branch at `depth`: proved by Kani to be the depth-th 5-bit group of the key read as a
// big-endian bit string (harness kani_chunk_at_is_the_key_bits); uninterpreted here
pub uninterp spec fn spec_chunk(key: Address, depth: nat) -> u32;

// 52 five-bit chunks cover the 256 key bits: keys that agree on all of them are equal.
// PROVED by the complete Kani harness kani_chunks_determine_the_key on the real chunk_at.
#[verifier::external_body]
pub proof fn axiom_chunks_determine_key(k1: Address, k2: Address)
    requires forall|d: nat| d < 52 ==> spec_chunk(k1, d) == spec_chunk(k2, d),
    ensures k1 == k2,
{
}

pub open spec fn bit(bm: u32, c: nat) -> bool {
    c < 32 && (bm & (1u32 << (c as u32))) != 0
}

// number of occupied chunks below `c`
pub open spec fn rank(bm: u32, c: nat) -> nat
    decreases c
{
    if c == 0 { 0 } else { rank(bm, (c - 1) as nat) + (if bit(bm, (c - 1) as nat) { 1nat } else { 0nat }) }
}

// popcount of the low bits is the rank.  PROVED by the complete Kani harness kani_popcount_below_is_rank
// (every bitmap, every chunk) against the real u32::count_ones.
#[verifier::external_body]
pub proof fn axiom_popcount_is_rank(bm: u32, c: nat)
    requires c < 32,
    ensures spec_popcount(bm & (((1u32 << (c as u32)) - 1) as u32)) == rank(bm, c),
{
}

// the child of a branch for chunk c
pub open spec fn child_at(b: Branch, c: nat) -> Option<Node> {
    if bit(b.bitmap, c) && rank(b.bitmap, c) < b.children@.len() {
        Some(*b.children@[rank(b.bitmap, c) as int])
    } else {
        None
    }
}

// what a lookup of `key` finds below node `n` sitting at `depth`
pub open spec fn lookup(n: Node, key: Address, depth: nat) -> Option<Seq<u8>>
    decreases n
{
    match n {
        Node::Leaf(l) => if l.key == key { Some(l.value@) } else { None },
        Node::Branch(b) => {
            let c = spec_chunk(key, depth) as nat;
            if bit(b.bitmap, c) && rank(b.bitmap, c) < b.children@.len() {
                lookup(*b.children@[rank(b.bitmap, c) as int], key, depth + 1)
            } else {
                None
            }
        }
    }
}

impl State {
    // representation invariant of a state: the root is a branch at depth 0 and the whole trie is well formed
    pub open spec fn inv(&self) -> bool {
        *self.root is Branch && wf(*self.root, 0, Seq::empty(), true) && self.len == count(*self.root)
    }
    // number of stored entries
    pub open spec fn entries(&self) -> nat {
        count(*self.root)
    }
    // the abstract map: what is stored under `key`
    pub open spec fn find(&self, key: Address) -> Option<Seq<u8>> {
        lookup(*self.root, key, 0)
    }
}

// `key` spells `path` on its first `depth` chunks
pub open spec fn on_path(key: Address, depth: nat, path: Seq<u32>) -> bool {
    &&& path.len() == depth
    &&& forall|i: int| 0 <= i < depth ==> spec_chunk(key, i as nat) == #[trigger] path[i]
}

pub proof fn lemma_on_path_push(key: Address, depth: nat, path: Seq<u32>)
    requires on_path(key, depth, path),
    ensures on_path(key, depth + 1, path.push(spec_chunk(key, depth))),
{
    let p2 = path.push(spec_chunk(key, depth));
    assert forall|i: int| 0 <= i < depth + 1 implies spec_chunk(key, i as nat) == #[trigger] p2[i] by {
        if i < depth { assert(p2[i] == path[i]); }
    }
}

// a lookup in a branch continues in the child for the key's chunk
pub proof fn lemma_lookup_via_child(b: Branch, k: Address, depth: nat)
    ensures lookup(Node::Branch(b), k, depth) == (match child_at(b, spec_chunk(k, depth) as nat) {
        Some(ch) => lookup(ch, k, depth + 1),
        None => None,
    }),
{
}

// representation invariant of a subtree at `depth` reached over the chunks `path`:
//  - one child per set bitmap bit, no branch below the depth a 256-bit key can reach,
//  - every leaf sits on the path spelled by its own key,
//  - canonical shape: a branch other than the root has two children or a single child that is a branch
pub open spec fn wf(n: Node, depth: nat, path: Seq<u32>, root: bool) -> bool
    decreases n
{
    match n {
        Node::Leaf(l) => on_path(l.key, depth, path),
        Node::Branch(b) => {
            &&& depth < 52
            &&& b.children@.len() == rank(b.bitmap, 32)
            &&& (root || b.children@.len() >= 2 || (b.children@.len() == 1 && *b.children@[0] is Branch))
            &&& forall|c: nat| c < 32 && #[trigger] bit(b.bitmap, c) && rank(b.bitmap, c) < b.children@.len()
                    ==> wf(*b.children@[rank(b.bitmap, c) as int], depth + 1, path.push(c as u32), false)
        }
    }
}

// ---------------------------------------------------------------- bitmap lemmas
pub proof fn lemma_bit_or(bm: u32, c: nat, d: nat)
    requires c < 32, d < 32,
    ensures bit(bm | (1u32 << (c as u32)), d) == (bit(bm, d) || d == c),
{
    let cu = c as u32;
    let du = d as u32;
    assert((((bm | (1u32 << cu)) & (1u32 << du)) != 0) == (((bm & (1u32 << du)) != 0) || du == cu)) by (bit_vector)
        requires cu < 32, du < 32;
}

pub proof fn lemma_bit_andnot(bm: u32, c: nat, d: nat)
    requires c < 32, d < 32,
    ensures bit(bm & !(1u32 << (c as u32)), d) == (bit(bm, d) && d != c),
{
    let cu = c as u32;
    let du = d as u32;
    assert((((bm & !(1u32 << cu)) & (1u32 << du)) != 0) == (((bm & (1u32 << du)) != 0) && du != cu)) by (bit_vector)
        requires cu < 32, du < 32;
}

pub proof fn lemma_bit_zero(d: nat)
    requires d < 32,
    ensures !bit(0u32, d),
{
    let du = d as u32;
    assert((0u32 & (1u32 << du)) == 0) by (bit_vector);
}

pub proof fn lemma_rank_zero(n: nat)
    requires n <= 32,
    ensures rank(0u32, n) == 0,
    decreases n,
{
    if n > 0 {
        lemma_rank_zero((n - 1) as nat);
        lemma_bit_zero((n - 1) as nat);
    }
}

pub proof fn lemma_rank_or(bm: u32, c: nat, n: nat)
    requires c < 32, n <= 32, !bit(bm, c),
    ensures rank(bm | (1u32 << (c as u32)), n) == rank(bm, n) + (if c < n { 1nat } else { 0nat }),
    decreases n,
{
    if n > 0 {
        lemma_rank_or(bm, c, (n - 1) as nat);
        lemma_bit_or(bm, c, (n - 1) as nat);
    }
}

pub proof fn lemma_rank_andnot(bm: u32, c: nat, n: nat)
    requires c < 32, n <= 32, bit(bm, c),
    ensures rank(bm & !(1u32 << (c as u32)), n) + (if c < n { 1nat } else { 0nat }) == rank(bm, n),
    decreases n,
{
    if n > 0 {
        lemma_rank_andnot(bm, c, (n - 1) as nat);
        lemma_bit_andnot(bm, c, (n - 1) as nat);
    }
}

pub proof fn lemma_rank_mono(bm: u32, a: nat, b: nat)
    requires a <= b <= 32,
    ensures rank(bm, a) <= rank(bm, b), (a < b && bit(bm, a)) ==> rank(bm, a) < rank(bm, b),
    decreases b,
{
    if a < b {
        lemma_rank_mono(bm, a, (b - 1) as nat);
    }
}

pub proof fn lemma_rank_le(bm: u32, a: nat)
    requires a <= 32,
    ensures rank(bm, a) <= a,
    decreases a,
{
    if a > 0 { lemma_rank_le(bm, (a - 1) as nat); }
}

// the i-th child belongs to exactly one chunk
pub proof fn lemma_select(bm: u32, i: nat, n: nat) -> (c: nat)
    requires n <= 32, i < rank(bm, n),
    ensures c < n, bit(bm, c), rank(bm, c) == i,
    decreases n,
{
    if bit(bm, (n - 1) as nat) && rank(bm, (n - 1) as nat) == i {
        (n - 1) as nat
    } else {
        lemma_select(bm, i, (n - 1) as nat)
    }
}

// two occupied chunks with the same rank are the same chunk
pub proof fn lemma_rank_inj(bm: u32, a: nat, b: nat)
    requires a < 32, b < 32, bit(bm, a), bit(bm, b), rank(bm, a) == rank(bm, b),
    ensures a == b,
{
    if a < b { lemma_rank_mono(bm, a, b); }
    if b < a { lemma_rank_mono(bm, b, a); }
}

pub proof fn lemma_remove_child(pre: Branch, post: Branch, chunk: nat)
    requires
        chunk < 32, bit(pre.bitmap, chunk), pre.children@.len() == rank(pre.bitmap, 32),
        post.bitmap == pre.bitmap & !(1u32 << (chunk as u32)),
        post.children@ == pre.children@.remove(rank(pre.bitmap, chunk) as int),
    ensures
        post.children@.len() == rank(post.bitmap, 32),
        forall|d: nat| d < 32 ==> bit(post.bitmap, d) == (bit(pre.bitmap, d) && d != chunk),
        forall|d: nat| d < 32 ==> #[trigger] child_at(post, d) == (if d == chunk { None } else { child_at(pre, d) }),
{
    lemma_rank_mono(pre.bitmap, chunk, 32);
    lemma_rank_andnot(pre.bitmap, chunk, 32);
    assert forall|d: nat| d < 32 implies bit(post.bitmap, d) == (bit(pre.bitmap, d) && d != chunk) by {
        lemma_bit_andnot(pre.bitmap, chunk, d);
    }
    assert forall|d: nat| d < 32 implies #[trigger] child_at(post, d) == (if d == chunk { None } else { child_at(pre, d) }) by {
        lemma_bit_andnot(pre.bitmap, chunk, d);
        lemma_rank_andnot(pre.bitmap, chunk, d);
        if bit(pre.bitmap, d) { lemma_rank_mono(pre.bitmap, d, 32); }
        if d < chunk && bit(pre.bitmap, d) { lemma_rank_mono(pre.bitmap, d, chunk); }
        if d > chunk { lemma_rank_mono(pre.bitmap, chunk, d); }
    }
}

// ---------------------------------------------------------------- number of entries
pub open spec fn count(n: Node) -> nat
    decreases n, 0nat
{
    match n {
        Node::Leaf(_) => 1,
        Node::Branch(b) => sum_upto(b.children, b.children@.len()),
    }
}

pub open spec fn sum_upto(v: Vec<Arc<Node>>, j: nat) -> nat
    decreases v, j
{
    if j == 0 || j > v@.len() { 0 } else { sum_upto(v, (j - 1) as nat) + count(*v@[j - 1]) }
}

pub proof fn lemma_sum_update(v0: Vec<Arc<Node>>, v1: Vec<Arc<Node>>, i: int, c1: Arc<Node>, j: nat)
    requires 0 <= i < v0@.len(), v1@ == v0@.update(i, c1), j <= v0@.len(),
    ensures sum_upto(v1, j) + (if i < j { count(*v0@[i]) } else { 0 }) == sum_upto(v0, j) + (if i < j { count(*c1) } else { 0 }),
    decreases j,
{
    if j > 0 {
        lemma_sum_update(v0, v1, i, c1, (j - 1) as nat);
    }
}

pub proof fn lemma_sum_insert(v0: Vec<Arc<Node>>, v1: Vec<Arc<Node>>, i: int, c: Arc<Node>, j: nat)
    requires 0 <= i <= v0@.len(), v1@ == v0@.insert(i, c), j <= v0@.len(),
    ensures
        j <= i ==> sum_upto(v1, j) == sum_upto(v0, j),
        j >= i ==> sum_upto(v1, j + 1) == sum_upto(v0, j) + count(*c),
    decreases j,
{
    if j > 0 {
        lemma_sum_insert(v0, v1, i, c, (j - 1) as nat);
        if j - 1 < i { assert(v1@[j - 1] == v0@[j - 1]); }
    }
    if j >= i {
        assert(sum_upto(v1, j + 1) == sum_upto(v1, j) + count(*v1@[j as int]));
        if j == i {
            assert(v1@[i] == c);
        } else {
            assert(v1@[j as int] == v0@[j - 1]);
            assert(sum_upto(v0, j) == sum_upto(v0, (j - 1) as nat) + count(*v0@[j - 1]));
        }
    }
}

pub open spec fn nd(a: Arc<Node>) -> Node { *a }

// ---------------------------------------------------------------- branch update lemmas
// b1 is b0 with the child for chunk c set to `newchild` (None = removed), every other chunk untouched
pub open spec fn child_rel(b0: Branch, b1: Branch, c: nat, newchild: Option<Node>) -> bool {
    forall|d: nat| d < 32 ==> #[trigger] child_at(b1, d) == (if d == c { newchild } else { child_at(b0, d) })
}

pub proof fn lemma_lookup_update(b0: Branch, b1: Branch, c: nat, newchild: Option<Node>, depth: nat)
    requires c < 32, child_rel(b0, b1, c, newchild),
    ensures forall|k: Address| #[trigger] lookup(Node::Branch(b1), k, depth) ==
        (if spec_chunk(k, depth) as nat == c { match newchild { Some(ch) => lookup(ch, k, depth + 1), None => None } }
         else { lookup(Node::Branch(b0), k, depth) }),
{
    assert forall|k: Address| #[trigger] lookup(Node::Branch(b1), k, depth) ==
        (if spec_chunk(k, depth) as nat == c { match newchild { Some(ch) => lookup(ch, k, depth + 1), None => None } }
         else { lookup(Node::Branch(b0), k, depth) }) by {
        lemma_lookup_via_child(b0, k, depth);
        lemma_lookup_via_child(b1, k, depth);
        let ck = spec_chunk(k, depth) as nat;
        if ck < 32 {
            assert(child_at(b1, ck) == (if ck == c { newchild } else { child_at(b0, ck) }));
        }
    }
}

pub proof fn lemma_wf_update(b0: Branch, b1: Branch, c: nat, newchild: Node, depth: nat, path: Seq<u32>, root: bool)
    requires
        c < 32,
        wf(Node::Branch(b0), depth, path, root),
        child_rel(b0, b1, c, Some(newchild)),
        b1.children@.len() == rank(b1.bitmap, 32),
        wf(newchild, depth + 1, path.push(c as u32), false),
        root || b1.children@.len() >= 2 || (b1.children@.len() == 1 && newchild is Branch),
    ensures
        wf(Node::Branch(b1), depth, path, root),
{
    assert(child_at(b1, c) == Some(newchild));
    assert forall|d: nat| d < 32 && #[trigger] bit(b1.bitmap, d) && rank(b1.bitmap, d) < b1.children@.len()
        implies wf(*b1.children@[rank(b1.bitmap, d) as int], depth + 1, path.push(d as u32), false) by {
        assert(child_at(b1, d) == (if d == c { Some(newchild) } else { child_at(b0, d) }));
        if d != c {
            assert(child_at(b0, d) is Some);
            assert(bit(b0.bitmap, d));
        }
    }
}

pub proof fn lemma_child_rel_update(b0: Branch, b1: Branch, c: nat, newchild: Arc<Node>)
    requires
        c < 32, bit(b0.bitmap, c), b0.children@.len() == rank(b0.bitmap, 32),
        b1.bitmap == b0.bitmap,
        b1.children@ == b0.children@.update(rank(b0.bitmap, c) as int, newchild),
    ensures
        child_rel(b0, b1, c, Some(*newchild)),
        b1.children@.len() == rank(b1.bitmap, 32),
{
    lemma_rank_mono(b0.bitmap, c, 32);
    assert forall|d: nat| d < 32 implies #[trigger] child_at(b1, d) == (if d == c { Some(*newchild) } else { child_at(b0, d) }) by {
        if d != c && bit(b0.bitmap, d) {
            lemma_rank_mono(b0.bitmap, d, 32);
            if rank(b0.bitmap, d) == rank(b0.bitmap, c) { lemma_rank_inj(b0.bitmap, d, c); }
        }
    }
}

// the branch b0 (= n0, at depth d) had an empty slot for the key's chunk and b1 has the new leaf there
pub proof fn lemma_insert_new(n0: Node, b0: Branch, b1: Branch, key: Address, value: AccountData, d: nat, root: bool)
    requires
        n0 == Node::Branch(b0),
        spec_chunk(key, d) < 32,
        child_rel(b0, b1, spec_chunk(key, d) as nat, Some(Node::Leaf(Leaf { key, value }))),
        child_at(b0, spec_chunk(key, d) as nat) is None,
        b1.children@.len() == rank(b1.bitmap, 32),
        b1.children@.len() == b0.children@.len() + 1,
        exists|i: int, c: Arc<Node>| 0 <= i <= b0.children@.len() && *c is Leaf && b1.children@ == b0.children@.insert(i, c),
    ensures
        count(Node::Branch(b1)) == count(n0) + 1,
        lookup(n0, key, d) is None,
        forall|k: Address| #[trigger] lookup(Node::Branch(b1), k, d) == (if k == key { Some(value@) } else { lookup(n0, k, d) }),
        forall|path: Seq<u32>| wf(n0, d, path, root) && #[trigger] on_path(key, d, path) ==> wf(Node::Branch(b1), d, path, root),
{
    let c = spec_chunk(key, d) as nat;
    let nl = Node::Leaf(Leaf { key, value });
    let (i, ca) = choose|i: int, c: Arc<Node>| 0 <= i <= b0.children@.len() && *c is Leaf && b1.children@ == b0.children@.insert(i, c);
    lemma_sum_insert(b0.children, b1.children, i, ca, b0.children@.len());
    lemma_lookup_update(b0, b1, c, Some(nl), d);
    lemma_lookup_via_child(b0, key, d);
    assert forall|k: Address| #[trigger] lookup(Node::Branch(b1), k, d) == (if k == key { Some(value@) } else { lookup(n0, k, d) }) by {
        lemma_lookup_via_child(b0, k, d);
    }
    assert forall|path: Seq<u32>| wf(n0, d, path, root) && #[trigger] on_path(key, d, path) implies wf(Node::Branch(b1), d, path, root) by {
        lemma_on_path_push(key, d, path);
        lemma_wf_update(b0, b1, c, nl, d, path, root);
    }
}

// the child c0 of b0 (= n0, at depth d) for the key's chunk was replaced by c1, and c1 relates to c0 like an insert of
// (key, val) one level down: then b1 relates to n0 like an insert of (key, val) at this level
pub proof fn lemma_insert_step(n0: Node, b0: Branch, b1: Branch, c0: Arc<Node>, c1: Arc<Node>, key: Address, val: Seq<u8>, d: nat, root: bool)
    requires
        n0 == Node::Branch(b0),
        spec_chunk(key, d) < 32,
        bit(b0.bitmap, spec_chunk(key, d) as nat),
        b0.children@.len() == rank(b0.bitmap, 32),
        c0 == b0.children@[rank(b0.bitmap, spec_chunk(key, d) as nat) as int],
        b1.bitmap == b0.bitmap,
        b1.children@ == b0.children@.update(rank(b0.bitmap, spec_chunk(key, d) as nat) as int, c1),
        forall|k: Address| #[trigger] lookup(*c1, k, d + 1) == (if k == key { Some(val) } else { lookup(*c0, k, d + 1) }),
        forall|p: Seq<u32>| wf(*c0, d + 1, p, false) && #[trigger] on_path(key, d + 1, p) ==> wf(*c1, d + 1, p, false),
        *c0 is Branch ==> *c1 is Branch,
    ensures
        count(Node::Branch(b1)) + count(*c0) == count(n0) + count(*c1),
        lookup(n0, key, d) == lookup(*c0, key, d + 1),
        forall|k: Address| #[trigger] lookup(Node::Branch(b1), k, d) == (if k == key { Some(val) } else { lookup(n0, k, d) }),
        forall|path: Seq<u32>| wf(n0, d, path, root) && #[trigger] on_path(key, d, path) ==> wf(Node::Branch(b1), d, path, root),
{
    let c = spec_chunk(key, d) as nat;
    lemma_rank_mono(b0.bitmap, c, 32);
    lemma_sum_update(b0.children, b1.children, rank(b0.bitmap, c) as int, c1, b0.children@.len());
    lemma_child_rel_update(b0, b1, c, c1);
    lemma_lookup_update(b0, b1, c, Some(nd(c1)), d);
    lemma_lookup_via_child(b0, key, d);
    assert(child_at(b0, c) == Some(*c0));
    assert forall|k: Address| #[trigger] lookup(Node::Branch(b1), k, d) == (if k == key { Some(val) } else { lookup(n0, k, d) }) by {
        lemma_lookup_via_child(b0, k, d);
    }
    assert forall|path: Seq<u32>| wf(n0, d, path, root) && #[trigger] on_path(key, d, path) implies wf(Node::Branch(b1), d, path, root) by {
        lemma_on_path_push(key, d, path);
        let p = path.push(c as u32);
        assert(wf(*c0, d + 1, p, false));
        lemma_wf_update(b0, b1, c, nd(c1), d, path, root);
    }
}

// wf with the canonical-shape clause relaxed at the top: what remove_rec leaves behind before its caller collapses a
// branch that is left with a single leaf
pub open spec fn wfr(n: Node, depth: nat, path: Seq<u32>, root: bool) -> bool {
    match n {
        Node::Leaf(l) => false,
        Node::Branch(b) => {
            &&& depth < 52
            &&& b.children@.len() == rank(b.bitmap, 32)
            &&& (root || b.children@.len() >= 1)
            &&& forall|c: nat| c < 32 && #[trigger] bit(b.bitmap, c) && rank(b.bitmap, c) < b.children@.len()
                    ==> wf(*b.children@[rank(b.bitmap, c) as int], depth + 1, path.push(c as u32), false)
        }
    }
}

pub proof fn lemma_on_path_pop(key: Address, depth: nat, path: Seq<u32>, c: u32)
    requires on_path(key, depth + 1, path.push(c)),
    ensures on_path(key, depth, path), spec_chunk(key, depth) == c,
{
    let p2 = path.push(c);
    assert(p2[depth as int] == c);
    assert forall|i: int| 0 <= i < depth implies spec_chunk(key, i as nat) == #[trigger] path[i] by {
        assert(p2[i] == path[i]);
    }
}

// collapsing a branch that holds a single leaf into that leaf changes no lookup and restores the canonical shape
pub proof fn lemma_collapse(cm: Node, c1: Node, d1: nat, p0: Seq<u32>)
    requires
        wfr(cm, d1, p0, false),
        c1 == (if cm->Branch_0.children@.len() == 1 && *cm->Branch_0.children@[0] is Leaf { *cm->Branch_0.children@[0] } else { cm }),
    ensures
        forall|k: Address| #[trigger] lookup(c1, k, d1) == lookup(cm, k, d1),
        forall|p: Seq<u32>| #[trigger] wfr(cm, d1, p, false) ==> wf(c1, d1, p, false),
        cm->Branch_0.children@.len() == 1 && *cm->Branch_0.children@[0] is Leaf ==> c1 is Leaf,
        count(c1) == count(cm),
{
    let bm = cm->Branch_0;
    if bm.children@.len() == 1 && nd(bm.children@[0]) is Leaf {
        let c2 = lemma_select(bm.bitmap, 0, 32);
        let l = c1->Leaf_0;
        assert(wf(c1, d1 + 1, p0.push(c2 as u32), false));
        lemma_on_path_pop(l.key, d1, p0, c2 as u32);
        assert(cm == Node::Branch(bm));
        assert(c1 == Node::Leaf(l));
        assert(sum_upto(bm.children, 1) == sum_upto(bm.children, 0) + count(*bm.children@[0]));
        assert(child_at(bm, c2) == Some(c1));
        assert forall|k: Address| #[trigger] lookup(c1, k, d1) == lookup(cm, k, d1) by {
            lemma_lookup_via_child(bm, k, d1);
            let ck = spec_chunk(k, d1) as nat;
            if bit(bm.bitmap, ck) && rank(bm.bitmap, ck) < 1 {
                lemma_rank_inj(bm.bitmap, ck, c2);
            }
        }
        assert forall|p: Seq<u32>| #[trigger] wfr(cm, d1, p, false) implies wf(c1, d1, p, false) by {
            assert(wf(c1, d1 + 1, p.push(c2 as u32), false));
            lemma_on_path_pop(l.key, d1, p, c2 as u32);
        }
    }
}

// the leaf for the key was removed from b0 (= n0): b1 is b0 without the child for the key's chunk
pub proof fn lemma_remove_leaf(n0: Node, b0: Branch, b1: Branch, key: Address, d: nat, root: bool)
    requires
        n0 == Node::Branch(b0),
        spec_chunk(key, d) < 32,
        child_at(b0, spec_chunk(key, d) as nat) matches Some(Node::Leaf(l)) && l.key == key,
        child_rel(b0, b1, spec_chunk(key, d) as nat, None),
        b1.children@.len() == rank(b1.bitmap, 32),
        b1.children@.len() + 1 == b0.children@.len(),
        b1.children@ == b0.children@.remove(rank(b0.bitmap, spec_chunk(key, d) as nat) as int),
    ensures
        count(Node::Branch(b1)) + 1 == count(n0),
        forall|k: Address| #[trigger] lookup(Node::Branch(b1), k, d) == (if k == key { None } else { lookup(n0, k, d) }),
        forall|path: Seq<u32>| wf(n0, d, path, root) && #[trigger] on_path(key, d, path) ==> wfr(Node::Branch(b1), d, path, root),
{
    let c = spec_chunk(key, d) as nat;
    let i = rank(b0.bitmap, c) as int;
    assert(b0.children@ =~= b1.children@.insert(i, b0.children@[i]));
    lemma_sum_insert(b1.children, b0.children, i, b0.children@[i], b1.children@.len());
    lemma_lookup_update(b0, b1, c, None, d);
    assert forall|k: Address| #[trigger] lookup(Node::Branch(b1), k, d) == (if k == key { None } else { lookup(n0, k, d) }) by {
        lemma_lookup_via_child(b0, k, d);
    }
    assert forall|path: Seq<u32>| wf(n0, d, path, root) && #[trigger] on_path(key, d, path) implies wfr(Node::Branch(b1), d, path, root) by {
        assert forall|e: nat| e < 32 && #[trigger] bit(b1.bitmap, e) && rank(b1.bitmap, e) < b1.children@.len()
            implies wf(*b1.children@[rank(b1.bitmap, e) as int], d + 1, path.push(e as u32), false) by {
            assert(child_at(b1, e) == (if e == c { None } else { child_at(b0, e) }));
            assert(child_at(b0, e) is Some);
            assert(bit(b0.bitmap, e));
        }
        if !root && b0.children@.len() == 1 {
            assert(rank(b0.bitmap, c) == 0);
        }
    }
}

// the child c0 of b0 (= n0) for the key's chunk was replaced by c1, which relates to c0 like a removal of the key one level down
pub proof fn lemma_remove_step(n0: Node, b0: Branch, b1: Branch, c0: Arc<Node>, c1: Arc<Node>, key: Address, d: nat, root: bool)
    requires
        n0 == Node::Branch(b0),
        spec_chunk(key, d) < 32,
        bit(b0.bitmap, spec_chunk(key, d) as nat),
        b0.children@.len() == rank(b0.bitmap, 32),
        c0 == b0.children@[rank(b0.bitmap, spec_chunk(key, d) as nat) as int],
        b1.bitmap == b0.bitmap,
        b1.children@ == b0.children@.update(rank(b0.bitmap, spec_chunk(key, d) as nat) as int, c1),
        forall|k: Address| #[trigger] lookup(*c1, k, d + 1) == (if k == key { None } else { lookup(*c0, k, d + 1) }),
        forall|p: Seq<u32>| wf(*c0, d + 1, p, false) && #[trigger] on_path(key, d + 1, p) ==> wf(*c1, d + 1, p, false),
    ensures
        count(Node::Branch(b1)) + count(*c0) == count(n0) + count(*c1),
        lookup(n0, key, d) == lookup(*c0, key, d + 1),
        forall|k: Address| #[trigger] lookup(Node::Branch(b1), k, d) == (if k == key { None } else { lookup(n0, k, d) }),
        forall|path: Seq<u32>| wf(n0, d, path, root) && #[trigger] on_path(key, d, path) ==> wfr(Node::Branch(b1), d, path, root),
{
    let c = spec_chunk(key, d) as nat;
    lemma_rank_mono(b0.bitmap, c, 32);
    lemma_sum_update(b0.children, b1.children, rank(b0.bitmap, c) as int, c1, b0.children@.len());
    lemma_child_rel_update(b0, b1, c, c1);
    lemma_lookup_update(b0, b1, c, Some(nd(c1)), d);
    lemma_lookup_via_child(b0, key, d);
    assert(child_at(b0, c) == Some(*c0));
    assert forall|k: Address| #[trigger] lookup(Node::Branch(b1), k, d) == (if k == key { None } else { lookup(n0, k, d) }) by {
        lemma_lookup_via_child(b0, k, d);
    }
    assert forall|path: Seq<u32>| wf(n0, d, path, root) && #[trigger] on_path(key, d, path) implies wfr(Node::Branch(b1), d, path, root) by {
        lemma_on_path_push(key, d, path);
        let p = path.push(c as u32);
        assert(wf(*c0, d + 1, p, false));
        assert forall|e: nat| e < 32 && #[trigger] bit(b1.bitmap, e) && rank(b1.bitmap, e) < b1.children@.len()
            implies wf(*b1.children@[rank(b1.bitmap, e) as int], d + 1, path.push(e as u32), false) by {
            assert(child_at(b1, e) == (if e == c { Some(nd(c1)) } else { child_at(b0, e) }));
            if e != c {
                assert(child_at(b0, e) is Some);
            }
        }
    }
}

// ---------------------------------------------------------------- canonical form: equal contents, equal tries
// structural equality of two tries - what the derived `PartialEq` of Node / Branch / Leaf compares
pub open spec fn eqv(n1: Node, n2: Node) -> bool
    decreases n1
{
    match n1 {
        Node::Leaf(l1) => n2 is Leaf && l1.key == n2->Leaf_0.key && l1.value@ == n2->Leaf_0.value@,
        Node::Branch(b1) => {
            &&& n2 is Branch
            &&& b1.bitmap == n2->Branch_0.bitmap
            &&& b1.children@.len() == n2->Branch_0.children@.len()
            &&& forall|i: int| 0 <= i < b1.children@.len() ==> eqv(*#[trigger] b1.children@[i], *n2->Branch_0.children@[i])
        }
    }
}

pub proof fn lemma_bits_equal(x: u32, y: u32)
    requires forall|c: nat| c < 32 ==> bit(x, c) == bit(y, c),
    ensures x == y,
{
    assert(bit(x, 0) == bit(y, 0));
    assert(bit(x, 1) == bit(y, 1));
    assert(bit(x, 2) == bit(y, 2));
    assert(bit(x, 3) == bit(y, 3));
    assert(bit(x, 4) == bit(y, 4));
    assert(bit(x, 5) == bit(y, 5));
    assert(bit(x, 6) == bit(y, 6));
    assert(bit(x, 7) == bit(y, 7));
    assert(bit(x, 8) == bit(y, 8));
    assert(bit(x, 9) == bit(y, 9));
    assert(bit(x, 10) == bit(y, 10));
    assert(bit(x, 11) == bit(y, 11));
    assert(bit(x, 12) == bit(y, 12));
    assert(bit(x, 13) == bit(y, 13));
    assert(bit(x, 14) == bit(y, 14));
    assert(bit(x, 15) == bit(y, 15));
    assert(bit(x, 16) == bit(y, 16));
    assert(bit(x, 17) == bit(y, 17));
    assert(bit(x, 18) == bit(y, 18));
    assert(bit(x, 19) == bit(y, 19));
    assert(bit(x, 20) == bit(y, 20));
    assert(bit(x, 21) == bit(y, 21));
    assert(bit(x, 22) == bit(y, 22));
    assert(bit(x, 23) == bit(y, 23));
    assert(bit(x, 24) == bit(y, 24));
    assert(bit(x, 25) == bit(y, 25));
    assert(bit(x, 26) == bit(y, 26));
    assert(bit(x, 27) == bit(y, 27));
    assert(bit(x, 28) == bit(y, 28));
    assert(bit(x, 29) == bit(y, 29));
    assert(bit(x, 30) == bit(y, 30));
    assert(bit(x, 31) == bit(y, 31));
    assert(x == y) by (bit_vector) requires
        ((x & (1u32 << 0u32)) != 0) == ((y & (1u32 << 0u32)) != 0),
        ((x & (1u32 << 1u32)) != 0) == ((y & (1u32 << 1u32)) != 0),
        ((x & (1u32 << 2u32)) != 0) == ((y & (1u32 << 2u32)) != 0),
        ((x & (1u32 << 3u32)) != 0) == ((y & (1u32 << 3u32)) != 0),
        ((x & (1u32 << 4u32)) != 0) == ((y & (1u32 << 4u32)) != 0),
        ((x & (1u32 << 5u32)) != 0) == ((y & (1u32 << 5u32)) != 0),
        ((x & (1u32 << 6u32)) != 0) == ((y & (1u32 << 6u32)) != 0),
        ((x & (1u32 << 7u32)) != 0) == ((y & (1u32 << 7u32)) != 0),
        ((x & (1u32 << 8u32)) != 0) == ((y & (1u32 << 8u32)) != 0),
        ((x & (1u32 << 9u32)) != 0) == ((y & (1u32 << 9u32)) != 0),
        ((x & (1u32 << 10u32)) != 0) == ((y & (1u32 << 10u32)) != 0),
        ((x & (1u32 << 11u32)) != 0) == ((y & (1u32 << 11u32)) != 0),
        ((x & (1u32 << 12u32)) != 0) == ((y & (1u32 << 12u32)) != 0),
        ((x & (1u32 << 13u32)) != 0) == ((y & (1u32 << 13u32)) != 0),
        ((x & (1u32 << 14u32)) != 0) == ((y & (1u32 << 14u32)) != 0),
        ((x & (1u32 << 15u32)) != 0) == ((y & (1u32 << 15u32)) != 0),
        ((x & (1u32 << 16u32)) != 0) == ((y & (1u32 << 16u32)) != 0),
        ((x & (1u32 << 17u32)) != 0) == ((y & (1u32 << 17u32)) != 0),
        ((x & (1u32 << 18u32)) != 0) == ((y & (1u32 << 18u32)) != 0),
        ((x & (1u32 << 19u32)) != 0) == ((y & (1u32 << 19u32)) != 0),
        ((x & (1u32 << 20u32)) != 0) == ((y & (1u32 << 20u32)) != 0),
        ((x & (1u32 << 21u32)) != 0) == ((y & (1u32 << 21u32)) != 0),
        ((x & (1u32 << 22u32)) != 0) == ((y & (1u32 << 22u32)) != 0),
        ((x & (1u32 << 23u32)) != 0) == ((y & (1u32 << 23u32)) != 0),
        ((x & (1u32 << 24u32)) != 0) == ((y & (1u32 << 24u32)) != 0),
        ((x & (1u32 << 25u32)) != 0) == ((y & (1u32 << 25u32)) != 0),
        ((x & (1u32 << 26u32)) != 0) == ((y & (1u32 << 26u32)) != 0),
        ((x & (1u32 << 27u32)) != 0) == ((y & (1u32 << 27u32)) != 0),
        ((x & (1u32 << 28u32)) != 0) == ((y & (1u32 << 28u32)) != 0),
        ((x & (1u32 << 29u32)) != 0) == ((y & (1u32 << 29u32)) != 0),
        ((x & (1u32 << 30u32)) != 0) == ((y & (1u32 << 30u32)) != 0),
        ((x & (1u32 << 31u32)) != 0) == ((y & (1u32 << 31u32)) != 0);
}

// a key found in a well-formed subtree spells the subtree's path
pub proof fn lemma_found_on_path(n: Node, k: Address, d: nat, path: Seq<u32>, root: bool)
    requires wf(n, d, path, root), path.len() == d, lookup(n, k, d) is Some,
    ensures on_path(k, d, path),
    decreases n,
{
    match n {
        Node::Leaf(l) => {}
        Node::Branch(b) => {
            let c = spec_chunk(k, d) as nat;
            let ch = nd(b.children@[rank(b.bitmap, c) as int]);
            lemma_found_on_path(ch, k, d + 1, path.push(c as u32), false);
            lemma_on_path_pop(k, d, path, c as u32);
        }
    }
}

// a lookup that succeeds in the child for chunk c succeeds in the branch, and the key has chunk c at this depth
pub proof fn lemma_lift(b: Branch, c: nat, k: Address, d: nat, path: Seq<u32>, root: bool)
    requires
        wf(Node::Branch(b), d, path, root), path.len() == d, c < 32, bit(b.bitmap, c),
        lookup(nd(b.children@[rank(b.bitmap, c) as int]), k, d + 1) is Some,
    ensures
        spec_chunk(k, d) == c,
        lookup(Node::Branch(b), k, d) == lookup(nd(b.children@[rank(b.bitmap, c) as int]), k, d + 1),
{
    lemma_rank_mono(b.bitmap, c, 32);
    let ch = nd(b.children@[rank(b.bitmap, c) as int]);
    lemma_found_on_path(ch, k, d + 1, path.push(c as u32), false);
    lemma_on_path_pop(k, d, path, c as u32);
}

// every subtree other than the root holds at least one key
pub proof fn lemma_witness(n: Node, d: nat, path: Seq<u32>) -> (k: Address)
    requires wf(n, d, path, false), path.len() == d,
    ensures lookup(n, k, d) is Some,
    decreases n,
{
    match n {
        Node::Leaf(l) => l.key,
        Node::Branch(b) => {
            let c = lemma_select(b.bitmap, 0, 32);
            let ch = nd(b.children@[0]);
            let k = lemma_witness(ch, d + 1, path.push(c as u32));
            lemma_lift(b, c, k, d, path, false);
            k
        }
    }
}

// a branch other than the root holds at least two keys (canonical shape)
pub proof fn lemma_two_witnesses(n: Node, d: nat, path: Seq<u32>) -> (ks: (Address, Address))
    requires n is Branch, wf(n, d, path, false), path.len() == d,
    ensures ks.0 != ks.1, lookup(n, ks.0, d) is Some, lookup(n, ks.1, d) is Some,
    decreases n,
{
    let b = n->Branch_0;
    if b.children@.len() >= 2 {
        let ca = lemma_select(b.bitmap, 0, 32);
        let cb = lemma_select(b.bitmap, 1, 32);
        let k1 = lemma_witness(nd(b.children@[0]), d + 1, path.push(ca as u32));
        let k2 = lemma_witness(nd(b.children@[1]), d + 1, path.push(cb as u32));
        lemma_lift(b, ca, k1, d, path, false);
        lemma_lift(b, cb, k2, d, path, false);
        (k1, k2)
    } else {
        let c = lemma_select(b.bitmap, 0, 32);
        let ch = nd(b.children@[0]);
        let ks = lemma_two_witnesses(ch, d + 1, path.push(c as u32));
        lemma_lift(b, c, ks.0, d, path, false);
        lemma_lift(b, c, ks.1, d, path, false);
        ks
    }
}

// two well-formed branches (same position) that answer every lookup alike occupy the same chunks
pub proof fn lemma_same_bitmap(b1: Branch, b2: Branch, d: nat, path: Seq<u32>, root: bool)
    requires
        wf(Node::Branch(b1), d, path, root), wf(Node::Branch(b2), d, path, root), path.len() == d,
        forall|k: Address| #[trigger] lookup(Node::Branch(b1), k, d) == lookup(Node::Branch(b2), k, d),
    ensures
        b1.bitmap == b2.bitmap,
{
    let n1 = Node::Branch(b1);
    let n2 = Node::Branch(b2);
    assert forall|c: nat| c < 32 implies bit(b1.bitmap, c) == bit(b2.bitmap, c) by {
        if bit(b1.bitmap, c) {
            lemma_rank_mono(b1.bitmap, c, 32);
            let k = lemma_witness(nd(b1.children@[rank(b1.bitmap, c) as int]), d + 1, path.push(c as u32));
            lemma_lift(b1, c, k, d, path, root);
            assert(lookup(n2, k, d) is Some);
        }
        if bit(b2.bitmap, c) {
            lemma_rank_mono(b2.bitmap, c, 32);
            let k = lemma_witness(nd(b2.children@[rank(b2.bitmap, c) as int]), d + 1, path.push(c as u32));
            lemma_lift(b2, c, k, d, path, root);
            assert(lookup(n1, k, d) is Some);
        }
    }
    lemma_bits_equal(b1.bitmap, b2.bitmap);
}

// ... and their children for the same chunk answer every lookup alike
pub proof fn lemma_children_same_lookups(b1: Branch, b2: Branch, c: nat, d: nat, path: Seq<u32>, root: bool)
    requires
        wf(Node::Branch(b1), d, path, root), wf(Node::Branch(b2), d, path, root), path.len() == d,
        forall|k: Address| #[trigger] lookup(Node::Branch(b1), k, d) == lookup(Node::Branch(b2), k, d),
        b1.bitmap == b2.bitmap, c < 32, bit(b1.bitmap, c),
    ensures
        forall|k: Address| #[trigger] lookup(nd(b1.children@[rank(b1.bitmap, c) as int]), k, d + 1)
            == lookup(nd(b2.children@[rank(b1.bitmap, c) as int]), k, d + 1),
{
    let n1 = Node::Branch(b1);
    let n2 = Node::Branch(b2);
    lemma_rank_mono(b1.bitmap, c, 32);
    let i = rank(b1.bitmap, c) as int;
    let ch1 = nd(b1.children@[i]);
    let ch2 = nd(b2.children@[i]);
    assert forall|k: Address| #[trigger] lookup(ch1, k, d + 1) == lookup(ch2, k, d + 1) by {
        if spec_chunk(k, d) as nat == c {
            assert(lookup(n1, k, d) == lookup(ch1, k, d + 1));
            assert(lookup(n2, k, d) == lookup(ch2, k, d + 1));
        } else {
            if lookup(ch1, k, d + 1) is Some { lemma_lift(b1, c, k, d, path, root); }
            if lookup(ch2, k, d + 1) is Some { lemma_lift(b2, c, k, d, path, root); }
        }
    }
}

// a leaf and a (non-root, hence two-key) branch never answer every lookup alike
pub proof fn lemma_leaf_is_no_branch(l: Leaf, n: Node, d: nat, path: Seq<u32>)
    requires
        n is Branch, wf(n, d, path, false), path.len() == d,
        forall|k: Address| #[trigger] lookup(Node::Leaf(l), k, d) == lookup(n, k, d),
    ensures false,
{
    let ks = lemma_two_witnesses(n, d, path);
    assert(lookup(Node::Leaf(l), ks.0, d) is Some);
    assert(lookup(Node::Leaf(l), ks.1, d) is Some);
}

pub proof fn lemma_child_wf(b: Branch, c: nat, d: nat, path: Seq<u32>, root: bool)
    requires wf(Node::Branch(b), d, path, root), c < 32, bit(b.bitmap, c),
    ensures
        rank(b.bitmap, c) < b.children@.len(),
        wf(nd(b.children@[rank(b.bitmap, c) as int]), d + 1, path.push(c as u32), false),
{
    lemma_rank_mono(b.bitmap, c, 32);
}

// THEOREM [C20.equal_contents_equal_structure]: two well-formed tries (same position) that answer every lookup alike
// are structurally equal - the shape depends only on the contents, not on the operations that produced them
#[verifier::rlimit(60)]
pub proof fn theorem_canonical(n1: Node, n2: Node, d: nat, path: Seq<u32>, root: bool)
    requires
        wf(n1, d, path, root), wf(n2, d, path, root), path.len() == d,
        root ==> n1 is Branch && n2 is Branch,
        forall|k: Address| #[trigger] lookup(n1, k, d) == lookup(n2, k, d),
    ensures
        eqv(n1, n2),
    decreases n1,
{
    match n1 {
        Node::Leaf(l1) => {
            assert(lookup(n1, l1.key, d) == Some(l1.value@));
            if n2 is Branch {
                lemma_leaf_is_no_branch(l1, n2, d, path);
            }
        }
        Node::Branch(b1) => {
            if n2 is Leaf {
                lemma_leaf_is_no_branch(n2->Leaf_0, n1, d, path);
            } else {
                let b2 = n2->Branch_0;
                assert(n2 == Node::Branch(b2));
                lemma_same_bitmap(b1, b2, d, path, root);
                assert forall|i: int| 0 <= i < b1.children@.len() implies eqv(*#[trigger] b1.children@[i], *b2.children@[i]) by {
                    let c = lemma_select(b1.bitmap, i as nat, 32);
                    lemma_children_same_lookups(b1, b2, c, d, path, root);
                    lemma_child_wf(b1, c, d, path, root);
                    lemma_child_wf(b2, c, d, path, root);
                    theorem_canonical(nd(b1.children@[i]), nd(b2.children@[i]), d + 1, path.push(c as u32), false);
                }
            }
        }
    }
}

pub proof fn lemma_eqv_count(n1: Node, n2: Node)
    requires eqv(n1, n2),
    ensures count(n1) == count(n2),
    decreases n1,
{
    match n1 {
        Node::Leaf(_) => {}
        Node::Branch(b1) => {
            let b2 = n2->Branch_0;
            lemma_eqv_sum(b1.children, b2.children, b1.children@.len());
        }
    }
}

pub proof fn lemma_eqv_sum(v1: Vec<Arc<Node>>, v2: Vec<Arc<Node>>, j: nat)
    requires
        v1@.len() == v2@.len(), j <= v1@.len(),
        forall|i: int| 0 <= i < v1@.len() ==> eqv(*#[trigger] v1@[i], *v2@[i]),
    ensures sum_upto(v1, j) == sum_upto(v2, j),
    decreases v1, j,
{
    if j > 0 {
        lemma_eqv_sum(v1, v2, (j - 1) as nat);
        lemma_eqv_count(nd(v1@[j - 1]), nd(v2@[j - 1]));
    }
}

// the same at the level of states: equal contents => structurally equal roots and equal length, i.e. `==` of the
// derived PartialEq holds
pub proof fn theorem_equal_contents_equal_states(s1: State, s2: State)
    requires s1.inv(), s2.inv(), forall|k: Address| #[trigger] s1.find(k) == s2.find(k),
    ensures eqv(*s1.root, *s2.root), s1.len == s2.len,
{
    let n1 = nd(s1.root);
    let n2 = nd(s2.root);
    assert forall|k: Address| #[trigger] lookup(n1, k, 0) == lookup(n2, k, 0) by {
        assert(s1.find(k) == s2.find(k));
    }
    theorem_canonical(n1, n2, 0, Seq::empty(), true);
    lemma_eqv_count(n1, n2);
}

// ---------------------------------------------------------------- ordered iteration
pub open spec fn flatten(n: Node) -> Seq<(Address, Seq<u8>)>
    decreases n, 0nat
{
    match n {
        Node::Leaf(l) => seq![(l.key, l.value@)],
        Node::Branch(b) => flat_upto(b.children, b.children@.len()),
    }
}
// entries of the first j children, in child order
pub open spec fn flat_upto(v: Vec<Arc<Node>>, j: nat) -> Seq<(Address, Seq<u8>)>
    decreases v, j
{
    if j == 0 || j > v@.len() { Seq::empty() } else { flat_upto(v, (j - 1) as nat) + flatten(*v@[j - 1]) }
}
// number of nodes (termination measure of the iterator)
pub open spec fn size(n: Node) -> nat
    decreases n, 0nat
{
    match n {
        Node::Leaf(_) => 1,
        Node::Branch(b) => 1 + size_upto(b.children, b.children@.len()),
    }
}
pub open spec fn size_upto(v: Vec<Arc<Node>>, j: nat) -> nat
    decreases v, j
{
    if j == 0 || j > v@.len() { 0 } else { size_upto(v, (j - 1) as nat) + size(*v@[j - 1]) }
}
// what a stack of nodes (top = last) still yields, and how many nodes it holds
pub open spec fn pending(st: Seq<&Node>) -> Seq<(Address, Seq<u8>)>
    decreases st.len()
{
    if st.len() == 0 { Seq::empty() } else { flatten(*st.last()) + pending(st.drop_last()) }
}
pub open spec fn stack_size(st: Seq<&Node>) -> nat
    decreases st.len()
{
    if st.len() == 0 { 0 } else { size(*st.last()) + stack_size(st.drop_last()) }
}

/*@ extract src/execution/state.rs :: struct Iter
derive
@*/

// iterator stand-ins (TRUSTED): `slice.iter()`, `.rev()`, `.map(f)`, `Vec::extend` over the children of a branch
pub struct VIt<'a> { pub v: &'a Vec<Arc<Node>>, pub rev: bool }
pub struct VMapped<'a, F> { pub it: VIt<'a>, pub f: F }
impl<'a> VIt<'a> {
    // the sequence of elements this iterator yields
    pub open spec fn yields(&self) -> Seq<Arc<Node>> { if self.rev { self.v@.reverse() } else { self.v@ } }
    pub fn rev(self) -> (r: VIt<'a>) ensures r.yields() == self.yields().reverse() {
        proof { assert(self.v@.reverse().reverse() =~= self.v@); }
        VIt { v: self.v, rev: !self.rev }
    }
    pub fn map<F: Fn(&'a Arc<Node>) -> &'a Node>(self, f: F) -> (r: VMapped<'a, F>) ensures r.it == self, r.f == f { VMapped { it: self, f } }
}
pub fn verif_iter<'a>(v: &'a Vec<Arc<Node>>) -> (r: VIt<'a>) ensures r.yields() == v@ { VIt { v, rev: false } }
#[verifier::external_body]
pub fn verif_extend<'a, F: Fn(&'a Arc<Node>) -> &'a Node>(st: &mut Vec<&'a Node>, m: VMapped<'a, F>)
    requires forall|i: int| 0 <= i < m.it.yields().len() ==> call_requires(m.f, (&m.it.yields()[i],)),
    ensures
        final(st)@.len() == old(st)@.len() + m.it.yields().len(),
        forall|i: int| 0 <= i < old(st)@.len() ==> final(st)@[i] == old(st)@[i],
        forall|i: int| 0 <= i < m.it.yields().len() ==> call_ensures(m.f, (&m.it.yields()[i],), #[trigger] final(st)@[old(st)@.len() + i]),
{ unimplemented!() }

pub proof fn lemma_push_children(st1: Seq<&Node>, st2: Seq<&Node>, v: Vec<Arc<Node>>)
    requires
        st2.len() == st1.len() + v@.len(),
        forall|i: int| 0 <= i < st1.len() ==> st2[i] == st1[i],
        forall|i: int| 0 <= i < v@.len() ==> *#[trigger] st2[st1.len() + i] == *v@.reverse()[i],
    ensures
        pending(st2) == flat_upto(v, v@.len()) + pending(st1),
        stack_size(st2) == size_upto(v, v@.len()) + stack_size(st1),
{
    lemma_push_children_k(st1, st2, v, v@.len());
    assert(st2.subrange(0, st2.len() as int) =~= st2);
    assert(flat_upto(v, 0) + pending(st2) =~= pending(st2));
}

// the stack prefix holding st1 and the first m pushed children (= the LAST m children of the branch)
pub proof fn lemma_push_children_k(st1: Seq<&Node>, st2: Seq<&Node>, v: Vec<Arc<Node>>, m: nat)
    requires
        st2.len() == st1.len() + v@.len(), m <= v@.len(),
        forall|i: int| 0 <= i < st1.len() ==> st2[i] == st1[i],
        forall|i: int| 0 <= i < v@.len() ==> *#[trigger] st2[st1.len() + i] == *v@.reverse()[i],
    ensures
        flat_upto(v, (v@.len() - m) as nat) + pending(st2.subrange(0, (st1.len() + m) as int)) == flat_upto(v, v@.len()) + pending(st1),
        size_upto(v, (v@.len() - m) as nat) + stack_size(st2.subrange(0, (st1.len() + m) as int)) == size_upto(v, v@.len()) + stack_size(st1),
    decreases m,
{
    let n = v@.len();
    let t = st2.subrange(0, (st1.len() + m) as int);
    if m == 0 {
        assert(t =~= st1);
    } else {
        lemma_push_children_k(st1, st2, v, (m - 1) as nat);
        let t1 = st2.subrange(0, st1.len() + m - 1);
        assert(t.drop_last() =~= t1);
        assert(t.last() == st2[st1.len() + (m - 1)]);
        assert(*t.last() == *v@.reverse()[m - 1]);
        assert(v@.reverse()[m - 1] == v@[n - m]);
        // pending(t) = flatten(v[n-m]) + pending(t1)
        let a = flat_upto(v, (n - m) as nat);
        let f = flatten(nd(v@[n - m]));
        assert(flat_upto(v, (n - m + 1) as nat) == a + f);
        assert(a + (f + pending(t1)) =~= (a + f) + pending(t1));
    }
}

// the order on addresses (`[u8; 32]: Ord`, lexicographic on bytes); uninterpreted here
pub uninterp spec fn key_lt(a: Address, b: Address) -> bool;
// trie order is key order: two keys that agree on the chunks before depth d and differ at d compare like those chunks.
// PROVED by the complete Kani harness kani_chunk_order_is_key_order on the real chunk_at and the real `<` on [u8; 32].
#[verifier::external_body]
pub proof fn axiom_chunk_order(k1: Address, k2: Address, d: nat)
    requires d < 52, forall|i: nat| i < d ==> spec_chunk(k1, i) == spec_chunk(k2, i), spec_chunk(k1, d) < spec_chunk(k2, d),
    ensures key_lt(k1, k2),
{
}

pub open spec fn sorted(s: Seq<(Address, Seq<u8>)>) -> bool {
    forall|i: int, j: int| 0 <= i < j < s.len() ==> key_lt(#[trigger] s[i].0, #[trigger] s[j].0)
}

pub proof fn lemma_rank_order(bm: u32, a: nat, b: nat)
    requires a < 32, b < 32, bit(bm, a), bit(bm, b), rank(bm, a) < rank(bm, b),
    ensures a < b,
{
    if b <= a { lemma_rank_mono(bm, b, a); }
}

// every entry listed for a subtree is stored there (on the subtree's path) ...
pub proof fn lemma_flatten_sound(n: Node, d: nat, path: Seq<u32>, root: bool)
    requires wf(n, d, path, root), path.len() == d,
    ensures forall|i: int| 0 <= i < flatten(n).len() ==>
        on_path(#[trigger] flatten(n)[i].0, d, path) && lookup(n, flatten(n)[i].0, d) == Some(flatten(n)[i].1),
    decreases n, 1nat,
{
    match n {
        Node::Leaf(l) => {}
        Node::Branch(b) => { lemma_flat_upto_sound(b, b.children@.len(), d, path, root); }
    }
}

pub proof fn lemma_flat_upto_sound(b: Branch, j: nat, d: nat, path: Seq<u32>, root: bool)
    requires wf(Node::Branch(b), d, path, root), path.len() == d, j <= b.children@.len(),
    ensures forall|i: int| 0 <= i < flat_upto(b.children, j).len() ==> {
        let e = #[trigger] flat_upto(b.children, j)[i];
        on_path(e.0, d, path) && lookup(Node::Branch(b), e.0, d) == Some(e.1)
            && bit(b.bitmap, spec_chunk(e.0, d) as nat) && rank(b.bitmap, spec_chunk(e.0, d) as nat) < j
    },
    decreases b, 0nat, j,
{
    if j > 0 {
        lemma_flat_upto_sound(b, (j - 1) as nat, d, path, root);
        let c = lemma_select(b.bitmap, (j - 1) as nat, 32);
        let ch = nd(b.children@[j - 1]);
        lemma_flatten_sound(ch, d + 1, path.push(c as u32), false);
        let pre = flat_upto(b.children, (j - 1) as nat);
        let fl = flatten(ch);
        assert(flat_upto(b.children, j) == pre + fl);
        assert forall|i: int| 0 <= i < flat_upto(b.children, j).len() implies ({
            let e = #[trigger] flat_upto(b.children, j)[i];
            on_path(e.0, d, path) && lookup(Node::Branch(b), e.0, d) == Some(e.1)
                && bit(b.bitmap, spec_chunk(e.0, d) as nat) && rank(b.bitmap, spec_chunk(e.0, d) as nat) < j
        }) by {
            if i < pre.len() {
                assert(flat_upto(b.children, j)[i] == pre[i]);
            } else {
                let e = fl[i - pre.len()];
                assert(flat_upto(b.children, j)[i] == e);
                assert(on_path(e.0, d + 1, path.push(c as u32)));
                lemma_on_path_pop(e.0, d, path, c as u32);
                lemma_lift(b, c, e.0, d, path, root);
            }
        }
    }
}

// ... in strictly increasing key order ...
pub proof fn lemma_flatten_sorted(n: Node, d: nat, path: Seq<u32>, root: bool)
    requires wf(n, d, path, root), path.len() == d,
    ensures sorted(flatten(n)),
    decreases n, 1nat,
{
    match n {
        Node::Leaf(l) => {}
        Node::Branch(b) => { lemma_flat_upto_sorted(b, b.children@.len(), d, path, root); }
    }
}

pub proof fn lemma_flat_upto_sorted(b: Branch, j: nat, d: nat, path: Seq<u32>, root: bool)
    requires wf(Node::Branch(b), d, path, root), path.len() == d, j <= b.children@.len(),
    ensures sorted(flat_upto(b.children, j)),
    decreases b, 0nat, j,
{
    if j > 0 {
        lemma_flat_upto_sorted(b, (j - 1) as nat, d, path, root);
        lemma_flat_upto_sound(b, (j - 1) as nat, d, path, root);
        lemma_flat_upto_sound(b, j, d, path, root);
        let c = lemma_select(b.bitmap, (j - 1) as nat, 32);
        let ch = nd(b.children@[j - 1]);
        lemma_flatten_sorted(ch, d + 1, path.push(c as u32), false);
        lemma_flatten_sound(ch, d + 1, path.push(c as u32), false);
        let pre = flat_upto(b.children, (j - 1) as nat);
        let fl = flatten(ch);
        let all = flat_upto(b.children, j);
        assert(all == pre + fl);
        assert forall|x: int, y: int| 0 <= x < y < all.len() implies key_lt(#[trigger] all[x].0, #[trigger] all[y].0) by {
            if y < pre.len() {
                assert(all[x] == pre[x] && all[y] == pre[y]);
            } else if x >= pre.len() {
                assert(all[x] == fl[x - pre.len()] && all[y] == fl[y - pre.len()]);
            } else {
                let ex = pre[x];
                let ey = fl[y - pre.len()];
                assert(all[x] == ex && all[y] == ey);
                lemma_lift(b, c, ey.0, d, path, root);
                let cx = spec_chunk(ex.0, d) as nat;
                lemma_rank_order(b.bitmap, cx, c);
                assert forall|i: nat| i < d implies spec_chunk(ex.0, i) == spec_chunk(ey.0, i) by {
                    assert(spec_chunk(ex.0, i) == path[i as int]);
                    assert(spec_chunk(ey.0, i) == path[i as int]);
                }
                axiom_chunk_order(ex.0, ey.0, d);
            }
        }
    }
}

// ... and every stored entry is listed
pub proof fn lemma_flatten_complete(n: Node, k: Address, d: nat, path: Seq<u32>, root: bool)
    requires wf(n, d, path, root), path.len() == d, lookup(n, k, d) is Some,
    ensures flatten(n).contains((k, lookup(n, k, d)->0)),
    decreases n,
{
    match n {
        Node::Leaf(l) => { assert(flatten(n)[0] == (k, l.value@)); }
        Node::Branch(b) => {
            let c = spec_chunk(k, d) as nat;
            let i = rank(b.bitmap, c);
            let ch = nd(b.children@[i as int]);
            lemma_flatten_complete(ch, k, d + 1, path.push(c as u32), false);
            let e = (k, lookup(n, k, d)->0);
            let idx = choose|x: int| 0 <= x < flatten(ch).len() && flatten(ch)[x] == e;
            lemma_flat_upto_contains(b.children, i + 1, b.children@.len(), idx, e);
        }
    }
}

pub proof fn lemma_flat_upto_contains(v: Vec<Arc<Node>>, j: nat, m: nat, idx: int, e: (Address, Seq<u8>))
    requires 1 <= j <= m <= v@.len(), 0 <= idx < flatten(nd(v@[j - 1])).len(), flatten(nd(v@[j - 1]))[idx] == e,
    ensures flat_upto(v, m).contains(e),
    decreases m,
{
    if m == j {
        let pre = flat_upto(v, (j - 1) as nat);
        assert(flat_upto(v, j)[pre.len() + idx] == e);
    } else {
        lemma_flat_upto_contains(v, j, (m - 1) as nat, idx, e);
        let pre = flat_upto(v, (m - 1) as nat);
        let x = choose|x: int| 0 <= x < pre.len() && pre[x] == e;
        assert(flat_upto(v, m)[x] == e);
    }
}

pub proof fn lemma_flatten_len(n: Node)
    ensures flatten(n).len() == count(n),
    decreases n, 1nat,
{
    match n {
        Node::Leaf(_) => {}
        Node::Branch(b) => { lemma_flat_upto_len(b.children, b.children@.len()); }
    }
}
pub proof fn lemma_flat_upto_len(v: Vec<Arc<Node>>, j: nat)
    ensures flat_upto(v, j).len() == sum_upto(v, j),
    decreases v, j,
{
    if j > 0 && j <= v@.len() {
        lemma_flat_upto_len(v, (j - 1) as nat);
        lemma_flatten_len(nd(v@[j - 1]));
    }
}

impl State {
    // the entries of the state in iteration order
    pub open spec fn listing(&self) -> Seq<(Address, Seq<u8>)> { flatten(*self.root) }
}

// THEOREM [C20.iteration_lists_the_map_in_key_order]: what iteration yields (see Iter::next) is exactly the map's entries,
// each once, in strictly increasing key order
pub proof fn theorem_listing_is_the_ordered_map(s: State)
    requires s.inv(),
    ensures
        sorted(s.listing()),
        s.listing().len() == s.entries(),
        forall|i: int| 0 <= i < s.listing().len() ==> s.find(#[trigger] s.listing()[i].0) == Some(s.listing()[i].1),
        forall|k: Address| s.find(k) is Some ==> s.listing().contains((k, #[trigger] s.find(k)->0)),
{
    let n = nd(s.root);
    lemma_flatten_sorted(n, 0, Seq::empty(), true);
    lemma_flatten_sound(n, 0, Seq::empty(), true);
    lemma_flatten_len(n);
    assert forall|k: Address| s.find(k) is Some implies s.listing().contains((k, #[trigger] s.find(k)->0)) by {
        lemma_flatten_complete(n, k, 0, Seq::empty(), true);
    }
}

pub mod code {
use super::*;
broadcast use super::axiom_key_eq;

impl Branch {
/*@ extract src/execution/state.rs :: impl Branch/fn child_index
props C20
requires
        chunk < 32,
ensures
        // [C20.child_index_is_rank_of_the_chunk]
        bit(self.bitmap, chunk as nat) ==> (r matches Some(i) && i == rank(self.bitmap, chunk as nat)),
        !bit(self.bitmap, chunk as nat) ==> r is None,
ret r
before `if self.bitmap & (1 << chunk) == 0`
        proof {
            assert((1u32 << chunk) >= 1) by (bit_vector) requires chunk < 32;
            axiom_popcount_is_rank(self.bitmap, chunk as nat);
            lemma_rank_le(self.bitmap, chunk as nat);
        }
@*/

/*@ extract src/execution/state.rs :: impl Branch/fn insert_child
props C20
requires
        chunk < 32,
        !bit(old(self).bitmap, chunk as nat),
        old(self).children@.len() == rank(old(self).bitmap, 32),
ensures
        // [C20.insert_child_adds_exactly_the_chunk]
        final(self).children@.len() == rank(final(self).bitmap, 32),
        final(self).children@.len() == old(self).children@.len() + 1,
        final(self).children@ == old(self).children@.insert(rank(old(self).bitmap, chunk as nat) as int, child),
        forall|d: nat| d < 32 ==> bit(final(self).bitmap, d) == (bit(old(self).bitmap, d) || d == chunk),
        forall|d: nat| d < 32 ==> #[trigger] child_at(*final(self), d) == (if d == chunk { Some(*child) } else { child_at(*old(self), d) }),
before `let idx =`
        proof {
            assert((1u32 << chunk) >= 1) by (bit_vector) requires chunk < 32;
            axiom_popcount_is_rank(self.bitmap, chunk as nat);
            lemma_rank_le(self.bitmap, chunk as nat);
            lemma_rank_mono(self.bitmap, chunk as nat, 32);
        }
        let ghost pre = *self;
blockend `self.children.insert(idx, child);`
        proof {
            lemma_rank_or(pre.bitmap, chunk as nat, 32);
            assert forall|d: nat| d < 32 implies bit(self.bitmap, d) == (bit(pre.bitmap, d) || d == chunk) by {
                lemma_bit_or(pre.bitmap, chunk as nat, d);
            }
            assert forall|d: nat| d < 32 implies #[trigger] child_at(*self, d) == (if d == chunk { Some(*child) } else { child_at(pre, d) }) by {
                lemma_bit_or(pre.bitmap, chunk as nat, d);
                lemma_rank_or(pre.bitmap, chunk as nat, d);
                if bit(pre.bitmap, d) { lemma_rank_mono(pre.bitmap, d, 32); }
                if d < chunk && bit(pre.bitmap, d) { lemma_rank_mono(pre.bitmap, d, chunk as nat); }
                if d > chunk { lemma_rank_mono(pre.bitmap, chunk as nat, d); }
            }
        }
@*/

/*@ extract src/execution/state.rs :: impl Branch/fn remove_child
props C20
ret r
requires
        chunk < 32,
        bit(old(self).bitmap, chunk as nat),
        idx == rank(old(self).bitmap, chunk as nat),
        old(self).children@.len() == rank(old(self).bitmap, 32),
ensures
        // [C20.remove_child_removes_exactly_the_chunk]
        final(self).children@.len() == rank(final(self).bitmap, 32),
        final(self).children@.len() + 1 == old(self).children@.len(),
        Some(*r) == child_at(*old(self), chunk as nat),
        final(self).children@ == old(self).children@.remove(idx as int),
        r == old(self).children@[idx as int],
        forall|d: nat| d < 32 ==> bit(final(self).bitmap, d) == (bit(old(self).bitmap, d) && d != chunk),
        forall|d: nat| d < 32 ==> #[trigger] child_at(*final(self), d) == (if d == chunk { None } else { child_at(*old(self), d) }),
rewrite[R10] `self.children.remove(idx)` => `let verif_r = self.children.remove(idx); proof { lemma_remove_child(pre, *self, chunk as nat); } verif_r`
before `self.bitmap &= !(1 << chunk);`
        proof { lemma_rank_mono(self.bitmap, chunk as nat, 32); }
        let ghost pre = *self;
@*/
}

// chunk_at: PROVED by the complete Kani harness kani_chunk_at_is_the_key_bits (every key, every depth 0..=51: the
// depth-th 5-bit group of the key, below the fan-out, no out-of-bounds index); its body (u16 window arithmetic) is
// not re-verified here
#[verifier::external_body]
pub fn chunk_at(key: &Address, depth: usize) -> (r: u32)
    requires depth < 52,
    ensures r == spec_chunk(*key, depth as nat), r < 32,
{ unimplemented!() }

/*@ extract src/execution/state.rs :: fn split_leaves
props C20
ret r
requires
        leaf1.key != leaf2.key,
        forall|i: nat| i < depth ==> spec_chunk(leaf1.key, i) == spec_chunk(leaf2.key, i),
ensures
        // [C20.split_distinguishes_exactly_the_two_leaves]
        r is Branch,
        count(r) == 2,
        forall|path: Seq<u32>| on_path(leaf1.key, depth as nat, path) && on_path(leaf2.key, depth as nat, path)
            ==> #[trigger] wf(r, depth as nat, path, false),
        forall|k: Address| #[trigger] lookup(r, k, depth as nat) ==
            (if k == leaf1.key { Some(leaf1.value@) } else if k == leaf2.key { Some(leaf2.value@) } else { None }),
decreases 52 - depth
before `let chunk1 = chunk_at(&leaf1.key, depth);`
        proof {
            if depth >= 52 {
                axiom_chunks_determine_key(leaf1.key, leaf2.key);
            }
        }
        let ghost k1 = leaf1.key; let ghost k2 = leaf2.key; let ghost v1 = leaf1.value@; let ghost v2 = leaf2.value@;
        let ghost lv1 = leaf1.value; let ghost lv2 = leaf2.value;
before `if chunk1 == chunk2 {`
        proof { lemma_bit_zero(chunk1 as nat); lemma_bit_zero(chunk2 as nat); lemma_rank_zero(32); }
        let ghost b0 = branch;
blockend `branch.insert_child(chunk1, child);`
        proof {
            let d = depth as nat;
            assert(child_at(branch, chunk1 as nat) == Some(*child));
            lemma_rank_mono(branch.bitmap, chunk1 as nat, 32);
            lemma_rank_le(b0.bitmap, chunk1 as nat); lemma_rank_mono(b0.bitmap, chunk1 as nat, 32);
            lemma_sum_insert(b0.children, branch.children, 0, child, 0);
            assert forall|k: Address| #[trigger] lookup(Node::Branch(branch), k, d) ==
                (if k == k1 { Some(v1) } else if k == k2 { Some(v2) } else { None }) by {
                lemma_lookup_via_child(branch, k, d);
                let c = spec_chunk(k, d) as nat;
                if c < 32 {
                    lemma_bit_zero(c);
                    assert(child_at(branch, c) == (if c == chunk1 { Some(*child) } else { child_at(b0, c) }));
                }
            }
            assert forall|path: Seq<u32>| on_path(k1, d, path) && on_path(k2, d, path)
                implies #[trigger] wf(Node::Branch(branch), d, path, false) by {
                lemma_on_path_push(k1, d, path);
                lemma_on_path_push(k2, d, path);
                assert(wf(*child, d + 1, path.push(chunk1), false));
                assert forall|c: nat| c < 32 && #[trigger] bit(branch.bitmap, c) && rank(branch.bitmap, c) < branch.children@.len()
                    implies wf(*branch.children@[rank(branch.bitmap, c) as int], d + 1, path.push(c as u32), false) by {
                    lemma_bit_zero(c);
                    assert(c == chunk1);
                }
            }
        }
after `branch.insert_child(chunk1, Arc::new(Node::Leaf(leaf1)));`
        let ghost b1 = branch;
blockend `branch.insert_child(chunk2, Arc::new(Node::Leaf(leaf2)));`
        proof {
            let d = depth as nat;
            let l1 = Node::Leaf(Leaf { key: k1, value: lv1 });
            let l2 = Node::Leaf(Leaf { key: k2, value: lv2 });
            lemma_rank_mono(b0.bitmap, chunk1 as nat, 32);
            lemma_rank_mono(b1.bitmap, chunk2 as nat, 32);
            lemma_sum_insert(b0.children, b1.children, 0, b1.children@[0], 0);
            lemma_sum_insert(b1.children, branch.children, rank(b1.bitmap, chunk2 as nat) as int, branch.children@[rank(b1.bitmap, chunk2 as nat) as int], 1);
            assert(child_at(b1, chunk1 as nat) == Some(l1));
            assert(child_at(branch, chunk2 as nat) == Some(l2));
            assert(child_at(branch, chunk1 as nat) == Some(l1));
            assert forall|k: Address| #[trigger] lookup(Node::Branch(branch), k, d) ==
                (if k == k1 { Some(v1) } else if k == k2 { Some(v2) } else { None }) by {
                lemma_lookup_via_child(branch, k, d);
                let c = spec_chunk(k, d) as nat;
                if c < 32 {
                    lemma_bit_zero(c);
                    assert(child_at(branch, c) == (if c == chunk2 { Some(l2) } else { child_at(b1, c) }));
                    assert(child_at(b1, c) == (if c == chunk1 { Some(l1) } else { child_at(b0, c) }));
                }
            }
            assert forall|path: Seq<u32>| on_path(k1, d, path) && on_path(k2, d, path)
                implies #[trigger] wf(Node::Branch(branch), d, path, false) by {
                lemma_on_path_push(k1, d, path);
                lemma_on_path_push(k2, d, path);
                assert forall|c: nat| c < 32 && #[trigger] bit(branch.bitmap, c) && rank(branch.bitmap, c) < branch.children@.len()
                    implies wf(*branch.children@[rank(branch.bitmap, c) as int], d + 1, path.push(c as u32), false) by {
                    lemma_bit_zero(c);
                    assert(c == chunk1 || c == chunk2);
                    assert(child_at(branch, c) == Some(*branch.children@[rank(branch.bitmap, c) as int]));
                }
            }
        }
@*/

/*@ extract src/execution/state.rs :: fn take_leaf_value
props C20
ret r
requires
        *node is Leaf,
ensures
        r@ == (*node)->Leaf_0.value@,
@*/

impl State {
/*@ extract src/execution/state.rs :: impl State/fn new
props C20
ret r
ensures
        // [C20.new_state_is_the_empty_map]
        r.inv(),
        forall|k: Address| r.find(k) is None,
        r.entries() == 0,
before `Self {`
        proof { lemma_rank_zero(32); assert forall|c: nat| c < 32 implies !bit(0u32, c) by { lemma_bit_zero(c); } }
@*/

/*@ extract src/execution/state.rs :: impl State/fn get
props C20
ret r
requires
        self.inv(),
ensures
        // [C20.get_answers_like_the_map]
        r matches Some(v) ==> self.find(*key) == Some(v@),
        r is None ==> self.find(*key) is None,
before `loop {`
        let ghost mut path: Seq<u32> = Seq::empty();
loop 0
        invariant
            wf(*node, depth as nat, path, depth == 0),
            lookup(*node, *key, depth as nat) == lookup(*self.root, *key, 0),
        decreases 52 - depth
after `let idx = branch.child_index(VANY)?;`
        let ghost c = spec_chunk(*key, depth as nat);
        proof { lemma_rank_mono(branch.bitmap, c as nat, 32); }
after `depth += 1;`
        proof { path = path.push(c); }
@*/

// Canary: get under a false contract (claims every lookup misses); MUST fail.
/*@ extract src/execution/state.rs :: impl State/fn get
as canary_get
expect-fail
ret r
requires
        self.inv(),
ensures
        r is None,
before `loop {`
        let ghost mut path: Seq<u32> = Seq::empty();
loop 0
        invariant
            wf(*node, depth as nat, path, depth == 0),
        decreases 52 - depth
after `let idx = branch.child_index(VANY)?;`
        let ghost c = spec_chunk(*key, depth as nat);
        proof { lemma_rank_mono(branch.bitmap, c as nat, 32); }
after `depth += 1;`
        proof { path = path.push(c); }
@*/
}

impl State {
/*@ extract src/execution/state.rs :: impl State/fn insert_rec
props C20
prefix #[verifier::rlimit(50)]
ret r
rewrite[R8] `child.as_ref()` => `verif_node_ref(child)`
rewrite[R10] `return Self::insert_rec(VANY);` => `let verif_r = Self::insert_rec(VANY); proof { lemma_insert_step(n0, b0, *branch, c0, *child, key, val, d, depth == 0); } return verif_r;`
rewrite[R10] `return Some(mem::replace(VANY));` => `let verif_r = Some(mem::replace(VANY)); proof { lemma_insert_step(n0, b0, *branch, c0, *child, key, val, d, depth == 0); } return verif_r;`
rewrite[R10] `*child = Arc::new(split_leaves(VANY)); None` => `*child = Arc::new(split_leaves(VANY)); proof { lemma_insert_step(n0, b0, *branch, c0, *child, key, val, d, depth == 0); } None`
requires
        **old(node) is Branch,
        exists|path: Seq<u32>| wf(**old(node), depth as nat, path, depth == 0) && on_path(key, depth as nat, path),
ensures
        **final(node) is Branch,
        // [C20.insert_keeps_the_trie_well_formed_and_canonical]
        forall|path: Seq<u32>| wf(**old(node), depth as nat, path, depth == 0) && #[trigger] on_path(key, depth as nat, path)
            ==> wf(**final(node), depth as nat, path, depth == 0),
        // [C20.insert_changes_exactly_the_inserted_key]
        forall|k: Address| #[trigger] lookup(**final(node), k, depth as nat) ==
            (if k == key { Some(value@) } else { lookup(**old(node), k, depth as nat) }),
        // [C20.insert_returns_the_previous_value]
        r matches Some(v) ==> lookup(**old(node), key, depth as nat) == Some(v@),
        r is None ==> lookup(**old(node), key, depth as nat) is None,
        // [C20.insert_adds_one_entry_iff_the_key_was_vacant]
        count(**final(node)) == count(**old(node)) + (if r is None { 1nat } else { 0nat }),
decreases 52 - depth
before `let Node::Branch(branch) = Arc::make_mut(node) else {`
        let ghost n0 = nd(*node);
        let ghost d = depth as nat;
        let ghost path0 = choose|path: Seq<u32>| wf(n0, d, path, depth == 0) && on_path(key, d, path);
        let ghost val = value@;
before `let chunk =`
        let ghost b0 = *branch;
before `return None; };`
        proof { lemma_rank_mono(b0.bitmap, chunk as nat, 32); lemma_insert_new(n0, b0, *branch, key, value, d, depth == 0); }
before `let child =`
        proof { lemma_rank_mono(branch.bitmap, chunk as nat, 32); lemma_on_path_push(key, d, path0); }
after `let child = VANY;`
        let ghost c0 = *child;
before `if leaf.key`
        let ghost l0 = *leaf;
        proof { assert(child_at(b0, chunk as nat) == Some(nd(c0))); }
before `*child = Arc::new(split_leaves(`
        proof {
            let p = path0.push(chunk);
            assert(wf(nd(c0), d + 1, p, false));
            assert forall|i: nat| i < depth + 1 implies spec_chunk(existing.key, i) == spec_chunk(key, i) by {
                assert(spec_chunk(existing.key, i) == p[i as int]);
                assert(spec_chunk(key, i) == p[i as int]);
            }
        }
@*/
}

impl State {
/*@ extract src/execution/state.rs :: impl State/fn remove_rec
props C20
prefix #[verifier::rlimit(50)]
ret r
rewrite[R8] `child.as_ref()` => `verif_node_ref(child)`
requires
        **old(node) is Branch,
        exists|path: Seq<u32>| wf(**old(node), depth as nat, path, depth == 0) && on_path(*key, depth as nat, path),
ensures
        **final(node) is Branch,
        // [C20.remove_keeps_the_trie_well_formed] (canonical again once the caller has collapsed a single-leaf branch)
        forall|path: Seq<u32>| wf(**old(node), depth as nat, path, depth == 0) && #[trigger] on_path(*key, depth as nat, path)
            ==> wfr(**final(node), depth as nat, path, depth == 0),
        // [C20.remove_changes_exactly_the_removed_key]
        forall|k: Address| #[trigger] lookup(**final(node), k, depth as nat) ==
            (if k == *key { None } else { lookup(**old(node), k, depth as nat) }),
        // [C20.remove_returns_the_stored_value]
        r matches Some(v) ==> lookup(**old(node), *key, depth as nat) == Some(v@),
        r is None ==> lookup(**old(node), *key, depth as nat) is None,
        r is None ==> forall|path: Seq<u32>| wf(**old(node), depth as nat, path, depth == 0) && #[trigger] on_path(*key, depth as nat, path)
            ==> wf(**final(node), depth as nat, path, depth == 0),
        // [C20.remove_drops_one_entry_iff_the_key_was_present]
        count(**final(node)) + (if r is Some { 1nat } else { 0nat }) == count(**old(node)),
decreases 52 - depth
rewrite[R10] `let value = Self::remove_rec(VANY)?;` => `let value = match Self::remove_rec(VANY) { Some(verif_v) => verif_v, None => { proof { lemma_remove_step(n0, b0, *branch, c0, *child, *key, d, depth == 0); } return None; } };`
before `let Node::Branch(branch) = Arc::make_mut(node) else {`
        let ghost n0 = nd(*node);
        let ghost d = depth as nat;
        let ghost path0 = choose|path: Seq<u32>| wf(n0, d, path, depth == 0) && on_path(*key, d, path);
before `let chunk =`
        let ghost b0 = *branch;
        proof { lemma_lookup_via_child(b0, *key, d); }
before `let leaf_matches =`
        proof { lemma_rank_mono(branch.bitmap, chunk as nat, 32); lemma_on_path_push(*key, d, path0); }
        let ghost c0 = branch.children@[idx as int];
        proof { assert(child_at(b0, chunk as nat) == Some(nd(c0))); }
after `let removed = branch.remove_child(idx, chunk);`
        proof { lemma_remove_leaf(n0, b0, *branch, *key, d, depth == 0); }
before `let collapse =`
        let ghost cm = *child;
before `Some(value) }`
        proof {
            lemma_collapse(nd(cm), nd(*child), d + 1, path0.push(chunk));
            lemma_remove_step(n0, b0, *branch, c0, *child, *key, d, depth == 0);
        }
@*/
}

impl State {
/*@ extract src/execution/state.rs :: impl State/fn len
props C20
ret r
requires
        self.inv(),
ensures
        // [C20.len_is_the_number_of_entries]
        r == self.entries(),
@*/

/*@ extract src/execution/state.rs :: impl State/fn is_empty
props C20
ret r
requires
        self.inv(),
ensures
        r == (self.entries() == 0),
@*/

/*@ extract src/execution/state.rs :: impl State/fn insert
props C20
ret r
requires
        old(self).inv(),
        // machine arithmetic: the entry counter is a usize (2^64 entries are not reachable in memory)
        old(self).len < usize::MAX,
ensures
        final(self).inv(),
        // [C20.insert_behaves_like_map_insert] the whole map: the key now holds the value, every other key is untouched
        forall|k: Address| #[trigger] final(self).find(k) == (if k == key { Some(value@) } else { old(self).find(k) }),
        (r matches Some(v) ==> old(self).find(key) == Some(v@)) && (r is None ==> old(self).find(key) is None),
        // [C20.len_counts_distinct_keys]
        final(self).entries() == old(self).entries() + (if old(self).find(key) is None { 1nat } else { 0nat }),
before `let old = Self::insert_rec(`
        proof { assert(on_path(key, 0, Seq::<u32>::empty())); }
@*/

/*@ extract src/execution/state.rs :: impl State/fn remove
props C20
ret r
requires
        old(self).inv(),
ensures
        final(self).inv(),
        // [C20.remove_behaves_like_map_remove]
        forall|k: Address| #[trigger] final(self).find(k) == (if k == *key { None } else { old(self).find(k) }),
        (r matches Some(v) ==> old(self).find(*key) == Some(v@)) && (r is None ==> old(self).find(*key) is None),
        final(self).entries() + (if old(self).find(*key) is Some { 1nat } else { 0nat }) == old(self).entries(),
        // the fast path: removing an absent key copies nothing
        r is None ==> *final(self) == *old(self),
before `let old = Self::remove_rec(`
        proof { assert(on_path(*key, 0, Seq::<u32>::empty())); }
@*/
}

impl State {
/*@ extract src/execution/state.rs :: impl State/fn iter
props C20
ret r
requires
        self.inv(),
ensures
        // [C20.iteration_starts_with_the_whole_map] nothing yielded yet: everything the state lists is pending
        pending(r.stack@) == self.listing(),
rewrite[R10] `Iter { VANY }` => `let verif_r = Iter { VANY }; proof { let st = verif_r.stack@; assert(st.len() == 1); assert(pending(st.drop_last()) =~= Seq::empty()); assert(pending(st) =~= flatten(*st.last())); } verif_r`
@*/
}

impl<'a> Iter<'a> {
// `impl Iterator for Iter` (trait method read as an inherent method: the Item type is written out)
/*@ extract src/execution/state.rs :: impl Iterator for Iter<'a>/fn next
props C20
ret r
sig `Option<Self::Item>` => `Option<(&'a Address, &'a [u8])>`
rewrite[R8] `branch.children.iter()` => `verif_iter(&branch.children)`
rewrite[R8] `self.stack.extend(` => `verif_extend(&mut self.stack, `
rewrite[R10] `=> return Some(VANY),` => `=> { proof { assert(st0.drop_last() == self.stack@); } return Some(VANY); }`
ensures
        // [C20.next_yields_the_pending_entries_in_order] each call hands out the first pending entry and leaves the rest
        // pending; None exactly when nothing is pending (so a full iteration is State::listing(), see the theorem)
        r matches Some(kv) ==> pending(old(self).stack@) == seq![(*kv.0, kv.1@)] + pending(final(self).stack@),
        r is None ==> pending(old(self).stack@).len() == 0 && final(self).stack@.len() == 0,
loop 0
        invariant pending(self.stack@) == pending(old(self).stack@),
        decreases stack_size(self.stack@)
before `match self.stack.pop()? {`
        let ghost st0 = self.stack@;
before `let children =`
        let ghost st1 = self.stack@;
after `verif_extend(VANY);`
        proof {
            assert(st0.drop_last() == st1);
            lemma_push_children(st1, self.stack@, branch.children);
        }
closure 0
        params child: &'a Arc<Node>
        ret o: &'a Node
        ensures *o == **child
@*/
}

} // mod code

// THEOREM [C20.fork_never_observes_later_writes] as a verified client of the contracts: fork a state, write to BOTH sides in
// an interleaved order; each side answers every lookup from its own writes on top of the common contents at the split and
// never sees the other side's.  (That `state` is not touched by `fork.insert` is Rust ownership; that a shared node is
// copied before it is written is the contract of Arc::make_mut, the only way the trie code obtains a `&mut Node`.)
pub fn theorem_fork_isolation(state: &mut State, k1: Address, v1: AccountData, k2: Address, v2: AccountData, k3: Address)
    requires
        old(state).inv(), old(state).len < usize::MAX - 2,
    ensures
        final(state).inv(),
        forall|k: Address| #[trigger] final(state).find(k) == (if k == k2 { Some(v2@) } else { old(state).find(k) }),
{
    let ghost at_split = *state;
    let mut fork = state.clone();
    let ghost v1s = v1@;
    fork.insert(k1, v1);                    // write to the fork
    state.insert(k2, v2);                   // write to the original
    fork.remove(&k3);                       // remove from the fork
    proof {
        // the fork: contents at the split, plus (k1, v1), minus k3 - nothing of the original's later write
        assert forall|k: Address| #[trigger] fork.find(k) ==
            (if k == k3 { None } else if k == k1 { Some(v1s) } else { at_split.find(k) }) by {}
    }
}

} // verus!
fn main() {}
