// Unit U10 `blockdata`: block reconstruction from slices (src/consensus/blockstore/slot_block_data.rs
// BlockData::try_reconstruct_block).  Serves C13 (partial) and the add_block panic site of C10.
use vstd::prelude::*;
use std::collections::BTreeMap;

verus! {

/*@ include units/common/base_types.rs @*/

/*@ extract src/types/slice_index.rs :: struct SliceIndex
derive Clone, Copy
traits Eq OrdU64
@*/
/*@ extract src/crypto/merkle.rs :: struct SliceRoot
derive
traits Clone Eq
@*/

/*@ extract src/shredder/shred_index.rs :: struct ShredIndex
derive Clone, Copy
traits Eq
@*/
// TRUSTED opaque stand-ins for types whose content is irrelevant to block reconstruction
// the parts of a shred read by the blockstore (src/shredder.rs): header fields, shred index, signed commitment
pub struct SliceHeader { pub slot: Slot, pub slice_index: SliceIndex, pub is_last: bool }
pub struct ShredPayload { pub header: SliceHeader, pub shred_index: ShredIndex }
#[verifier::external_body] pub struct ValidatedShred { _p: () }
#[verifier::external_body] pub struct SliceCommitment { _p: () }
#[verifier::external_body] pub struct Signature { _p: () }
impl Clone for Signature {
    #[verifier::external_body]
    fn clone(&self) -> (r: Self) ensures r == *self { unimplemented!() }
}
impl Copy for Signature {}
impl Clone for SliceCommitment {
    #[verifier::external_body]
    fn clone(&self) -> (r: Self) ensures r == *self { unimplemented!() }
}
impl Copy for SliceCommitment {}
impl vstd::std_specs::cmp::PartialEqSpecImpl for SliceCommitment {
    open spec fn obeys_eq_spec() -> bool { true }
    open spec fn eq_spec(&self, other: &SliceCommitment) -> bool { *self == *other }
}
impl PartialEq for SliceCommitment {
    #[verifier::external_body]
    fn eq(&self, other: &Self) -> (r: bool) ensures r == (*self == *other) { unimplemented!() }
}
impl ValidatedShred {
    pub uninterp spec fn spec_payload(&self) -> ShredPayload;
    pub uninterp spec fn spec_commitment(&self) -> SliceCommitment;
    // the leader's signature over the commitment as carried by the shred: CHECKED only if the shred was validated without a
    // cached commitment (ValidatedShred::try_new skips the check for an identical cached commitment)
    pub uninterp spec fn spec_sig(&self) -> Signature;
    // the same shred, up to the signature it carries
    pub open spec fn same_but_sig(&self, o: ValidatedShred) -> bool {
        self.spec_payload() == o.spec_payload() && self.spec_commitment() == o.spec_commitment()
            && self.spec_is_data() == o.spec_is_data() && self.spec_slice_root() == o.spec_slice_root()
    }
    #[verifier::external_body]
    pub fn slice_sig(&self) -> (r: Signature) ensures r == self.spec_sig() { unimplemented!() }
    // replaces the signature; everything the blockstore reads of the shred stays
    #[verifier::external_body]
    pub fn set_slice_sig(&mut self, slice_sig: Signature)
        ensures
            final(self).spec_sig() == slice_sig,
            final(self).spec_payload() == old(self).spec_payload(), final(self).spec_commitment() == old(self).spec_commitment(),
            final(self).spec_is_data() == old(self).spec_is_data(), final(self).spec_slice_root() == old(self).spec_slice_root(),
    { unimplemented!() }
    // the data/coding tag (ShredPayloadType): covered neither by the leader's signature nor by the Merkle proof
    pub uninterp spec fn spec_is_data(&self) -> bool;
    #[verifier::external_body]
    pub fn is_data(&self) -> (r: bool) ensures r == self.spec_is_data() { unimplemented!() }
    // the tag fits the position under the RegularShredder layout: the first DATA_SHREDS positions are data shreds
    pub open spec fn tag_fits_position(&self) -> bool { self.spec_is_data() == (self.spec_payload().shred_index.0 < 32) }
    #[verifier::external_body]
    pub fn payload(&self) -> (r: &ShredPayload) ensures *r == self.spec_payload() { unimplemented!() }
    // the leader-signed commitment (slot, slice index, last flag, slice root) of this shred
    #[verifier::external_body]
    pub fn commitment(&self) -> (r: SliceCommitment) ensures r == self.spec_commitment() { unimplemented!() }
}
#[verifier::external_body] pub struct RegularShredder { _p: () }
impl RegularShredder {
/*@ extract src/shredder.rs :: impl Shredder for RegularShredder/const DATA_OUTPUT_SHREDS
@*/
}
#[verifier::external_body] pub struct Transaction { _p: () }
#[verifier::external_body] pub struct DoubleMerkleTree { _p: () }
impl DoubleMerkleTree {
    pub uninterp spec fn spec_root(&self) -> BlockHash;
    pub uninterp spec fn spec_leaves(&self) -> Seq<SliceRoot>;
    #[verifier::external_body]
    pub fn get_root(&self) -> (r: BlockHash) ensures r == self.spec_root() { unimplemented!() }
}

// TRUSTED stand-in for ReconstructedSlice (src/types/slice.rs; derefs to Slice): the three parts read here
pub struct ReconstructedSlice {
    pub slice_index: SliceIndex,
    pub is_last: bool,
    pub parent: Option<BlockId>,
    pub data: Vec<u8>,
    pub slice_root: SliceRoot,
}
// SlicePayload (src/types/slice.rs): what the leader shreds
pub struct SlicePayload { pub parent: Option<BlockId>, pub data: Vec<u8> }
impl ValidatedShred {
    pub uninterp spec fn spec_slice_root(&self) -> SliceRoot;
}
// `ReconstructedSlice::from_parts(payload, any_shred, any_shred.slice_root().clone())` (R8): the slice is the payload under
// the header and slice root of the shred
#[verifier::external_body]
pub fn verif_slice_from_parts(payload: SlicePayload, shred: &ValidatedShred) -> (r: ReconstructedSlice)
    ensures
        r.parent == payload.parent, r.data == payload.data,
        r.slice_index == shred.spec_payload().header.slice_index, r.is_last == shred.spec_payload().header.is_last,
        r.slice_root == shred.spec_slice_root(),
{ unimplemented!() }
// `*shreds` on `Box<[ValidatedShred; TOTAL_SHREDS]>` (R8): the boxed array moved out
pub fn verif_unbox_shreds(shreds: Box<[ValidatedShred; TOTAL_SHREDS]>) -> (r: [ValidatedShred; TOTAL_SHREDS])
    ensures r == *shreds
{ *shreds }
// `shreds.map(Some)` (R8; array::map)
#[verifier::external_body]
pub fn verif_all_some(shreds: [ValidatedShred; TOTAL_SHREDS]) -> (r: [Option<ValidatedShred>; TOTAL_SHREDS])
    ensures forall|i: int| 0 <= i < TOTAL_SHREDS ==> #[trigger] r@[i] == Some(shreds@[i]),
{ unimplemented!() }
// ASSUMPTION (not hostile input, the leader's OWN production): the slices a correct leader builds decode as transactions,
// switch the parent at most once and name a parent in an earlier slot, so reconstructing the own block does not fail.
// Established by block_producer.rs (produce_slice_payload, apply_parent_ready); not verified here.
#[verifier::external_body]
pub fn verif_assume_own_block_well_formed()
    ensures false
{ unimplemented!() }

/*@ extract src/lib.rs :: struct Block
derive
@*/
/*@ extract src/consensus/blockstore.rs :: struct BlockInfo
derive
@*/
/*@ extract src/consensus/blockstore/slot_block_data.rs :: struct BlockData
@*/
/*@ extract src/consensus/blockstore/slot_block_data.rs :: enum ReconstructBlockResult
derive
@*/
/*@ extract src/consensus/blockstore/slot_block_data.rs :: enum ReconstructSliceResult
derive
@*/
/*@ extract src/consensus/blockstore/slot_block_data.rs :: enum AddShredError
derive Clone, Copy
@*/
/*@ extract src/consensus/blockstore.rs :: enum BlockstoreEvent
derive
@*/
/*@ extract src/shredder.rs :: enum DeshredError
derive Clone, Copy
@*/
/*@ extract src/consensus/blockstore/slot_block_data.rs :: struct SlotBlockData
@*/

pub const TOTAL_SHREDS: usize = 64;
/*@ extract src/shredder.rs :: const MAX_DATA_PER_SHRED
@*/
/*@ extract src/shredder.rs :: const DATA_SHREDS
@*/
/*@ extract src/shredder.rs :: const MAX_DATA_PER_SLICE_AFTER_PADDING
@*/
/*@ extract src/shredder.rs :: const MAX_DATA_PER_SLICE
@*/


pub open spec fn row_at(sh: Map<SliceIndex, [Option<ValidatedShred>; TOTAL_SHREDS]>, k: SliceIndex, i: int) -> Option<ValidatedShred> { sh[k]@[i] }
pub open spec fn wf_parts(sl: Map<SliceIndex, ReconstructedSlice>, sh: Map<SliceIndex, [Option<ValidatedShred>; TOTAL_SHREDS]>,
                          cc: Map<SliceIndex, (SliceCommitment, Signature)>, last: Option<SliceIndex>, leaves: Option<nat>, done: bool) -> bool {
    &&& sl.dom().finite() && sh.dom().finite()
    // W6: the double-Merkle tree, once built, has one leaf per slice up to the last one
    &&& (leaves matches Some(n) ==> last is Some && n == (last->0).0 + 1)
    // W1: nothing is kept beyond the slice marked last
    &&& (last matches Some(l) ==> l.0 < 1024
            && (forall|k: SliceIndex| #[trigger] sl.contains_key(k) ==> k.0 <= l.0)
            && (forall|k: SliceIndex| #[trigger] sh.contains_key(k) ==> k.0 <= l.0))
    // W2: a reconstructed first slice names a parent
    &&& (sl.contains_key(SliceIndex(0)) ==> sl[SliceIndex(0)].parent is Some)
    // W4/W5: every stored shred sits under its own slice index and carries the commitment cached for that slice
    //        (so two conflicting versions of a slice are never stored side by side) ...
    // W8:    ... and the SIGNATURE kept with that commitment: the one of the shred that populated the cache entry, which was
    //        checked (finding F22) - so whatever is served or copied onto rebuilt shreds carries a checked signature
    &&& forall|k: SliceIndex, i: int| sh.contains_key(k) && 0 <= i < TOTAL_SHREDS && (#[trigger] row_at(sh, k, i)) is Some ==>
            (row_at(sh, k, i)->0).spec_payload().header.slice_index == k
            && cc.contains_key(k) && cc[k] == ((row_at(sh, k, i)->0).spec_commitment(), (row_at(sh, k, i)->0).spec_sig())
    // W9: a slice with a row of stored shreds has a cached commitment (the cache is the larger record: it also remembers slices
    //     whose only shreds were dropped - finding F35)
    &&& forall|k: SliceIndex| #[trigger] sh.contains_key(k) ==> cc.contains_key(k)
    // W10: a reconstructed slice was reconstructed from stored shreds (which are kept)
    &&& forall|k: SliceIndex| #[trigger] sl.contains_key(k) ==> sh.contains_key(k)
    // W11: ... and has all 64 of them stored since (deshred regenerates the missing ones): each can be served
    &&& forall|k: SliceIndex| #[trigger] sl.contains_key(k) ==> row_full_in(sh, k)
    // W12: once the double-Merkle tree is built, every slice up to the last one has all 64 shreds stored
    &&& (leaves is Some ==> last is Some && forall|k: SliceIndex| k.0 <= (last->0).0 ==> #[trigger] row_full_in(sh, k))
    // W13: a completed block has its double-Merkle tree (so, with W6 and W12: its last slice is known, a proof can be made for every
    //      slice and every shred of every slice is stored - whatever a repairing node asks for can be served)
    &&& (done ==> leaves is Some)
}

pub open spec fn row_full_in(sh: Map<SliceIndex, [Option<ValidatedShred>; TOTAL_SHREDS]>, k: SliceIndex) -> bool {
    sh.contains_key(k) && forall|i: int| 0 <= i < TOTAL_SHREDS ==> (#[trigger] row_at(sh, k, i)) is Some
}
impl BlockData {
    pub open spec fn slice(&self, i: int) -> ReconstructedSlice { self.slices@[SliceIndex(i as usize)] }
    pub open spec fn shred_at(&self, k: SliceIndex, i: int) -> Option<ValidatedShred> { row_at(self.shreds@, k, i) }
    // representation invariant of one block's data (a function of the four parts it constrains)
    pub open spec fn tree_leaves(&self) -> Option<nat> {
        match self.double_merkle_tree { Some(t) => Some(t.spec_leaves().len()), None => None }
    }
    // the cached commitments (the cache keeps each with the verified signature of the shred that populated the entry)
    pub open spec fn cc(&self) -> Map<SliceIndex, SliceCommitment> {
        self.commitment_cache@.map_values(|p: (SliceCommitment, Signature)| p.0)
    }
    pub open spec fn wf(&self) -> bool { wf_parts(self.slices@, self.shreds@, self.commitment_cache@, self.last_slice, self.tree_leaves(), self.completed is Some) }
    // every slice up to the one marked last has been reconstructed
    pub open spec fn all_there(&self) -> bool {
        self.last_slice matches Some(l) && self.slices@.len() == l.0 + 1
    }
    pub open spec fn row_full(&self, k: SliceIndex) -> bool { row_full_in(self.shreds@, k) }
    // completeness, as an invariant across calls ("in any order"): once every slice is there the block has been built
    pub open spec fn complete_inv(&self) -> bool { self.all_there() ==> self.completed is Some }
    pub open spec fn last_consistent(l: SliceIndex, si: SliceIndex, is_last: bool) -> bool {
        (si.0 < l.0 && !is_last) || (si == l && is_last)
    }
}


// the shred rows after `deshred` filled in missing shreds of slice `index`: W4/W5 and "nothing stored is lost" carry over
pub proof fn lemma_rows_after_deshred(pre: BlockData, cur: BlockData, index: SliceIndex,
                                      row0: [Option<ValidatedShred>; TOTAL_SHREDS], row1: [Option<ValidatedShred>; TOTAL_SHREDS])
    requires
        pre.wf(), pre.shreds@.contains_key(index), row0 == pre.shreds@[index],
        cur.shreds@ == pre.shreds@.insert(index, row1), cur.commitment_cache == pre.commitment_cache,
        forall|i: int| 0 <= i < TOTAL_SHREDS && (#[trigger] row0@[i]) is Some ==> row1@[i] == row0@[i],
        forall|i: int| 0 <= i < TOTAL_SHREDS && (#[trigger] row1@[i]) is Some && row0@[i] is None ==>
            exists|j: int| 0 <= j < TOTAL_SHREDS && row0@[j] is Some
                && (row1@[i]->0).spec_payload().header == (row0@[j]->0).spec_payload().header
                && (row1@[i]->0).spec_commitment() == (row0@[j]->0).spec_commitment()
                && (row1@[i]->0).spec_sig() == (row0@[j]->0).spec_sig(),
    ensures
        forall|k: SliceIndex, i: int| cur.shreds@.contains_key(k) && 0 <= i < TOTAL_SHREDS && (#[trigger] row_at(cur.shreds@, k, i)) is Some ==>
            (row_at(cur.shreds@, k, i)->0).spec_payload().header.slice_index == k
            && cur.commitment_cache@.contains_key(k) && cur.commitment_cache@[k] == ((row_at(cur.shreds@, k, i)->0).spec_commitment(), (row_at(cur.shreds@, k, i)->0).spec_sig()),
        forall|k: SliceIndex| #[trigger] cur.shreds@.contains_key(k) <==> pre.shreds@.contains_key(k),
        forall|k: SliceIndex, i: int| pre.shreds@.contains_key(k) && 0 <= i < TOTAL_SHREDS && (#[trigger] row_at(pre.shreds@, k, i)) is Some
            ==> row_at(cur.shreds@, k, i) == row_at(pre.shreds@, k, i),
        // full rows stay full (W11 / W12 carry over)
        forall|k: SliceIndex| #[trigger] row_full_in(pre.shreds@, k) ==> row_full_in(cur.shreds@, k),
{
    assert forall|k: SliceIndex| #[trigger] row_full_in(pre.shreds@, k) implies row_full_in(cur.shreds@, k) by {
        assert forall|i: int| 0 <= i < TOTAL_SHREDS implies (#[trigger] row_at(cur.shreds@, k, i)) is Some by {
            assert(row_at(pre.shreds@, k, i) is Some);
            if k == index { assert(row0@[i] is Some); }
        }
    }
    assert forall|k: SliceIndex, i: int| cur.shreds@.contains_key(k) && 0 <= i < TOTAL_SHREDS && (#[trigger] row_at(cur.shreds@, k, i)) is Some implies
        (row_at(cur.shreds@, k, i)->0).spec_payload().header.slice_index == k
        && cur.commitment_cache@.contains_key(k) && cur.commitment_cache@[k] == ((row_at(cur.shreds@, k, i)->0).spec_commitment(), (row_at(cur.shreds@, k, i)->0).spec_sig()) by {
        if k == index {
            if row0@[i] is Some { assert(row_at(pre.shreds@, k, i) == row0@[i]); } else {
                let j = choose|j: int| 0 <= j < TOTAL_SHREDS && row0@[j] is Some
                    && (row1@[i]->0).spec_payload().header == (row0@[j]->0).spec_payload().header
                    && (row1@[i]->0).spec_commitment() == (row0@[j]->0).spec_commitment()
                    && (row1@[i]->0).spec_sig() == (row0@[j]->0).spec_sig();
                assert(row_at(pre.shreds@, index, j) is Some);
            }
        } else { assert(row_at(cur.shreds@, k, i) == row_at(pre.shreds@, k, i)); }
    }
    assert forall|k: SliceIndex, i: int| pre.shreds@.contains_key(k) && 0 <= i < TOTAL_SHREDS && (#[trigger] row_at(pre.shreds@, k, i)) is Some
        implies row_at(cur.shreds@, k, i) == row_at(pre.shreds@, k, i) by {
        if k == index { assert(row0@[i] is Some); }
    }
}

// Pigeonhole: l+1 distinct slice indices, none above l, include index 0 (in fact all of 0..=l).
pub open spec fn idx_upto(l: int) -> Set<SliceIndex>
    decreases l
{
    if l <= 0 { Set::<SliceIndex>::empty().insert(SliceIndex(0)) } else { idx_upto(l - 1).insert(SliceIndex(l as usize)) }
}
pub proof fn lemma_idx_upto(l: int)
    requires 0 <= l < usize::MAX
    ensures idx_upto(l).finite() && idx_upto(l).len() == l + 1 && forall|k: SliceIndex| #[trigger] idx_upto(l).contains(k) <==> k.0 <= l
    decreases l
{
    if l > 0 {
        lemma_idx_upto(l - 1);
        assert(!idx_upto(l - 1).contains(SliceIndex(l as usize)));
    }
}
pub proof fn lemma_pigeon(dom: Set<SliceIndex>, l: int)
    requires 0 <= l < usize::MAX, dom.finite(), dom.len() == l + 1, forall|k: SliceIndex| #[trigger] dom.contains(k) ==> k.0 <= l,
    ensures dom.contains(SliceIndex(0))
{
    lemma_idx_upto(l);
    if !dom.contains(SliceIndex(0)) {
        let rest = idx_upto(l).remove(SliceIndex(0));
        assert(dom.subset_of(rest));
        vstd::set_lib::lemma_len_subset(dom, rest);
    }
}

// a full row stays full when the map keeps the key and every filled position stays filled
pub proof fn lemma_row_stays_full(sh0: Map<SliceIndex, [Option<ValidatedShred>; TOTAL_SHREDS]>, sh1: Map<SliceIndex, [Option<ValidatedShred>; TOTAL_SHREDS]>, k: SliceIndex)
    requires
        row_full_in(sh0, k), sh1.contains_key(k),
        forall|i: int| 0 <= i < TOTAL_SHREDS && (#[trigger] row_at(sh0, k, i)) is Some ==> row_at(sh1, k, i) is Some,
    ensures row_full_in(sh1, k)
{
    assert forall|i: int| 0 <= i < TOTAL_SHREDS implies (#[trigger] row_at(sh1, k, i)) is Some by { assert(row_at(sh0, k, i) is Some); }
}
// ... in fact every index up to l
pub proof fn lemma_pigeon_at(dom: Set<SliceIndex>, l: int, j: int)
    requires 0 <= j <= l < usize::MAX, dom.finite(), dom.len() == l + 1, forall|k: SliceIndex| #[trigger] dom.contains(k) ==> k.0 <= l,
    ensures dom.contains(SliceIndex(j as usize))
{
    lemma_idx_upto(l);
    if !dom.contains(SliceIndex(j as usize)) {
        let rest = idx_upto(l).remove(SliceIndex(j as usize));
        assert(dom.subset_of(rest));
        vstd::set_lib::lemma_len_subset(dom, rest);
    }
}

// struct BlockstoreImpl (src/consensus/blockstore.rs) with the per-slot data kept and everything else opaque
// the shredder pool (checkout of a pooled RegularShredder) and the event channel to Votor, as a ghost log of sent events
#[verifier::external_body] pub struct ShredderPool { _p: () }
#[verifier::external_body] pub struct ShredderGuard { _p: () }
#[verifier::external_body] pub struct EventChannel { _p: () }
impl ShredderPool {
    // `self.shredders.checkout().expect("should have a shredder because of exclusive access")`: ASSUMED never empty under &mut self
    #[verifier::external_body] pub fn verif_checkout(&self) -> (r: ShredderGuard) { unimplemented!() }
}
impl ShredderGuard {
    #[verifier::external_body] pub fn verif_as_mut(&mut self) -> (r: &mut RegularShredder) { unimplemented!() }   // `&mut guard` (DerefMut)
}
impl EventChannel {
    pub uninterp spec fn sent(&self) -> Seq<BlockstoreEvent>;
}
pub struct BlockstoreImpl {
    pub block_data: BTreeMap<Slot, SlotBlockData>,
    pub shredders: ShredderPool,
    pub votor_channel: EventChannel,
}
// number of InvalidBlock(slot) announcements in an event log
pub open spec fn count_invalid(log: Seq<BlockstoreEvent>, slot: Slot) -> int
    decreases log.len()
{
    if log.len() == 0 { 0 } else { count_invalid(log.drop_last(), slot) + (if log.last() == BlockstoreEvent::InvalidBlock(slot) { 1int } else { 0int }) }
}
#[verifier::external_body] pub struct DoubleMerkleProof { _p: () }
impl DoubleMerkleTree {
    // MerkleTree::create_proof asserts `index < number of leaves`: a crash site, here a proof obligation
    #[verifier::external_body]
    pub fn create_proof(&self, index: usize) -> (r: DoubleMerkleProof)
        requires
            // [C10.create_proof_index_within_tree C14.create_proof_index_within_tree]
            index < self.spec_leaves().len(),
    { unimplemented!() }
}
impl SlotBlockData {
    pub open spec fn all_wf(&self) -> bool {
        self.disseminated.wf() && forall|h: BlockHash| #[trigger] self.repaired@.contains_key(h) ==> self.repaired@[h].wf()
    }
}
impl BlockstoreImpl {
    pub open spec fn flagged(&self, slot: Slot) -> bool { self.block_data@.contains_key(slot) && self.block_data@[slot].leader_misbehaved }
    // [C13] "announces an invalid block once": an InvalidBlock(slot) event has been sent exactly for the flagged slots, once each
    pub open spec fn flags_ok(&self) -> bool {
        forall|slot: Slot| #[trigger] count_invalid(self.votor_channel.sent(), slot) == (if self.flagged(slot) { 1int } else { 0int })
    }
    pub open spec fn store_wf(&self) -> bool {
        forall|s: Slot| #[trigger] self.block_data@.contains_key(s) ==> self.block_data@[s].all_wf()
    }
    // the block data answering for `id`: the disseminated block if it is complete and has that hash, else the repaired one
    pub open spec fn data_of(&self, id: BlockId) -> Option<BlockData> {
        if !self.block_data@.contains_key(id.0) { None } else {
            let sd = self.block_data@[id.0];
            if sd.disseminated.completed is Some && (sd.disseminated.completed->0).0 == id.1 { Some(sd.disseminated) }
            else if sd.repaired@.contains_key(id.1) { Some(sd.repaired@[id.1]) } else { None }
        }
    }
    // "a block it holds": the block `id` is complete here (by dissemination or by repair)
    pub open spec fn holds(&self, id: BlockId) -> bool {
        self.data_of(id) matches Some(bd) && bd.completed is Some
    }
    // its last slice (meaningful when holds(id))
    pub open spec fn last_of(&self, id: BlockId) -> SliceIndex { (self.data_of(id)->0).last_slice->0 }
    // "the store holds a shred of slice s of block id"
    pub open spec fn has_slice(&self, id: BlockId, s: SliceIndex) -> bool {
        self.data_of(id) is Some && (self.data_of(id)->0).shreds@.contains_key(s)
    }
}

pub proof fn lemma_count_push(log: Seq<BlockstoreEvent>, ev: BlockstoreEvent, s: Slot)
    ensures count_invalid(log.push(ev), s) == count_invalid(log, s) + (if ev == BlockstoreEvent::InvalidBlock(s) { 1int } else { 0int })
{
    assert(log.push(ev).drop_last() =~= log);
    assert(log.push(ev).last() == ev);
}

pub mod code {
use super::*;
broadcast use super::axiom_SliceIndex_obeys_cmp_laws, super::axiom_Slot_obeys_cmp_laws, super::axiom_DoubleMerkleRoot_obeys_cmp_laws;

impl SliceIndex {
/*@ extract src/types/slice_index.rs :: impl SliceIndex/fn inner
ret r
ensures
        r == self.0,
@*/
/*@ extract src/types/slice_index.rs :: impl SliceIndex/fn first
ret r
ensures
        r.0 == 0,
@*/
/*@ extract src/types/slice_index.rs :: impl SliceIndex/fn is_first
ret r
ensures
        r == (self.0 == 0),
@*/
}

// Rewrite R8/R9 wrappers (iterator chains, external codecs, tuple clone/eq): TRUSTED documented behaviour.
#[verifier::external_body]
pub fn verif_build_double_tree(slices: &BTreeMap<SliceIndex, ReconstructedSlice>) -> (r: DoubleMerkleTree)
    // DoubleMerkleTree::new(self.slices.values().map(|s| s.slice_root())): the tree over the slice roots in index order
    ensures
        r.spec_leaves().len() == slices@.len(),
        forall|i: int| 0 <= i < r.spec_leaves().len() && slices@.contains_key(SliceIndex(i as usize)) ==> #[trigger] r.spec_leaves()[i] == slices@[SliceIndex(i as usize)].slice_root,
{ unimplemented!() }
#[verifier::external_body]
pub fn verif_slice_entries<'a>(slices: &'a BTreeMap<SliceIndex, ReconstructedSlice>) -> (r: Vec<(&'a SliceIndex, &'a ReconstructedSlice)>)
    // `for (ind, slice) in &self.slices`: the entries in ascending key order
    ensures
        r@.len() == slices@.len(),
        forall|i: int| 0 <= i < r@.len() ==> slices@.contains_key(*(#[trigger] r@[i]).0) && slices@[*r@[i].0] == *r@[i].1,
{ unimplemented!() }
// `wincode::config::deserialize_exact::<Vec<Transaction>>(&slice.data, DefaultConfig .. with_preallocation_size_limit::<L>())` (R8).
// TRUSTED model of wincode: a well-formed encoding is rejected only by the preallocation check, which compares
// `count * size_of::<Transaction>()` (NOT the serialized size) with the limit L; size_of::<Transaction>() = 24 (a Vec<u8>, 64-bit).
pub uninterp spec fn wf_txs(data: Seq<u8>) -> bool;            // a well-formed encoding of a Vec<Transaction>
pub uninterp spec fn spec_tx_count(data: Seq<u8>) -> nat;      // its element count
// the count prefix takes 8 bytes and every transaction at least its own 8-byte length prefix
#[verifier::external_body]
pub proof fn axiom_txs_min_size(data: Seq<u8>)
    requires wf_txs(data),
    ensures 8 + 8 * spec_tx_count(data) <= data.len(),
{}
pub fn size_of_transaction() -> (r: usize) ensures r == 24 { 24 }   // `size_of::<crate::Transaction>()`
#[verifier::external_body]
pub fn verif_decode_transactions(data: &Vec<u8>, prealloc_limit: usize) -> (r: Result<Vec<Transaction>, ()>)
    ensures (wf_txs(data@) && spec_tx_count(data@) * 24 <= prealloc_limit) ==> r is Ok
{ unimplemented!() }
#[verifier::external_body]
pub fn verif_clone_opt_block_id(o: &Option<BlockId>) -> (r: Option<BlockId>)
    ensures r == *o
{ unimplemented!() }
#[verifier::external_body]
pub fn verif_block_id_eq(a: &BlockId, b: &BlockId) -> (r: bool)
    ensures r == (*a == *b)
{ unimplemented!() }
#[verifier::external_body]
pub fn verif_block_info_from(block: &Block) -> (r: BlockInfo)
    // impl From<&Block> for BlockInfo
    ensures r.hash == block.hash, r.parent == (block.parent, block.parent_hash)
{ unimplemented!() }
#[verifier::external_body]
pub fn verif_remove_slices_until(slices: &mut BTreeMap<SliceIndex, ReconstructedSlice>, last: SliceIndex)
    // for slice_index in last_slice.until() { self.slices.remove(&slice_index); }
    ensures
        forall|k: SliceIndex| #[trigger] final(slices)@.contains_key(k) ==> old(slices)@.contains_key(k) && k.0 > last.0 && final(slices)@[k] == old(slices)@[k],
        final(slices)@.dom().finite(),
{ unimplemented!() }


impl ShredIndex {
/*@ extract src/shredder/shred_index.rs :: impl ShredIndex/fn inner
ret r
ensures
        r == self.0,
@*/
}
impl RegularShredder {
    // ASSUMED contract of Shredder::deshred (Reed-Solomon + Merkle re-check, C11/C12): shreds that are present stay as they
    // are (missing ones may be filled in), and a reconstructed slice carries the header of the shreds it was built from.
    #[verifier::external_body]
    pub fn deshred(&mut self, shreds: &mut [Option<ValidatedShred>; TOTAL_SHREDS]) -> (r: Result<ReconstructedSlice, DeshredError>)
        ensures
            forall|i: int| 0 <= i < TOTAL_SHREDS && (#[trigger] old(shreds)@[i]) is Some ==> final(shreds)@[i] == old(shreds)@[i],
            forall|i: int| 0 <= i < TOTAL_SHREDS && (#[trigger] final(shreds)@[i]) is Some && old(shreds)@[i] is None ==>
                exists|j: int| 0 <= j < TOTAL_SHREDS && old(shreds)@[j] is Some
                    && (final(shreds)@[i]->0).spec_payload().header == (old(shreds)@[j]->0).spec_payload().header
                    && (final(shreds)@[i]->0).spec_commitment() == (old(shreds)@[j]->0).spec_commitment()
                    // (fill_missing_shreds gives every rebuilt shred the signature of a present one: PROVED in units deshred / shred_fill)
                    && (final(shreds)@[i]->0).spec_sig() == (old(shreds)@[j]->0).spec_sig(),
            r matches Ok(sl) ==> exists|j: int| 0 <= j < TOTAL_SHREDS && old(shreds)@[j] is Some
                    && sl.slice_index == (#[trigger] old(shreds)@[j]->0).spec_payload().header.slice_index,
            // (a successful reconstruction leaves every position filled: PROVED on the real Shredder::deshred in unit deshred)
            r is Ok ==> forall|i: int| 0 <= i < TOTAL_SHREDS ==> (#[trigger] final(shreds)@[i]) is Some,
    { unimplemented!() }
}
// R5: `self.shreds.entry(k).or_insert([const { None }; TOTAL_SHREDS])`: the shred row of slice k, created empty on first use
#[verifier::external_body]
pub fn verif_shreds_entry(m: &mut BTreeMap<SliceIndex, [Option<ValidatedShred>; TOTAL_SHREDS]>, k: SliceIndex) -> (r: &mut [Option<ValidatedShred>; TOTAL_SHREDS])
    ensures
        old(m)@.contains_key(k) ==> *r == old(m)@[k],
        !old(m)@.contains_key(k) ==> forall|i: int| 0 <= i < TOTAL_SHREDS ==> (#[trigger] r@[i]) is None,
        final(m)@ == old(m)@.insert(k, *final(r)),
{ unimplemented!() }
// R8: `self.shreds.get_mut(&k).expect(..)`: the expect is a proof obligation
#[verifier::external_body]
pub fn verif_shreds_get_mut<'a>(m: &'a mut BTreeMap<SliceIndex, [Option<ValidatedShred>; TOTAL_SHREDS]>, k: &SliceIndex) -> (r: &'a mut [Option<ValidatedShred>; TOTAL_SHREDS])
    requires
        // [C13.reconstruct_only_slices_with_a_stored_shred C10.expect_unreachable]
        old(m)@.contains_key(*k),
    ensures
        *r == old(m)@[*k],
        final(m)@ == old(m)@.insert(*k, *final(r)),
{ unimplemented!() }
// R8: `row[i] = Some(shred)` on a fixed-size array
#[verifier::external_body]
pub fn verif_row_set(row: &mut [Option<ValidatedShred>; TOTAL_SHREDS], i: usize, v: Option<ValidatedShred>)
    requires i < TOTAL_SHREDS
    ensures final(row)@ == old(row)@.update(i as int, v)
{ unimplemented!() }
#[verifier::external_body]
pub fn verif_row_is_some(row: &[Option<ValidatedShred>; TOTAL_SHREDS], i: usize) -> (r: bool)
    requires i < TOTAL_SHREDS
    ensures r == (row@[i as int] is Some)
{ unimplemented!() }
// R8: `m.retain(|&ind, _| keep(ind))` on the per-slice maps: keeps exactly the entries whose key satisfies the closure
pub trait VerifRetainKeys<V>: Sized {
    spec fn spec_map(&self) -> Map<SliceIndex, V>;
    fn verif_retain<F: Fn(SliceIndex) -> bool>(&mut self, f: F)
        requires forall|k: SliceIndex| #[trigger] f.requires((k,))
        ensures
            forall|k: SliceIndex| #[trigger] final(self).spec_map().contains_key(k) ==> old(self).spec_map().contains_key(k) && final(self).spec_map()[k] == old(self).spec_map()[k],
            forall|k: SliceIndex| old(self).spec_map().contains_key(k) ==> f.ensures((k,), #[trigger] final(self).spec_map().contains_key(k)),
            old(self).spec_map().dom().finite() ==> final(self).spec_map().dom().finite();
}
impl<V> VerifRetainKeys<V> for BTreeMap<SliceIndex, V> {
    open spec fn spec_map(&self) -> Map<SliceIndex, V> { self@ }
    #[verifier::external_body]
    fn verif_retain<F: Fn(SliceIndex) -> bool>(&mut self, f: F) { unimplemented!() }
}
// R8: `self.shreds.keys().any(|&ind| pred(ind))`: true iff some key satisfies the closure
#[verifier::external_body]
pub fn verif_any_key<V, F: Fn(SliceIndex) -> bool>(m: &BTreeMap<SliceIndex, V>, f: F) -> (r: bool)
    requires forall|k: SliceIndex| #[trigger] f.requires((k,))
    ensures
        r ==> exists|k: SliceIndex| m@.contains_key(k) && f.ensures((k,), true),
        !r ==> forall|k: SliceIndex| #[trigger] m@.contains_key(k) ==> f.ensures((k,), false),
{ unimplemented!() }
#[verifier::external_body]
pub fn verif_shreds_is_empty(m: &BTreeMap<SliceIndex, [Option<ValidatedShred>; TOTAL_SHREDS]>) -> (r: bool)
    ensures r == (forall|k: SliceIndex| !m@.contains_key(k))
{ unimplemented!() }

// R8: `row.iter().find_map(|s| s.as_ref()).map(|s| s.slice_root().clone())`: the slice root of the first stored shred of the row
#[verifier::external_body]
pub fn verif_first_slice_root(row: &[Option<ValidatedShred>; TOTAL_SHREDS]) -> (r: Option<SliceRoot>)
    ensures
        r is Some ==> exists|i: int| 0 <= i < TOTAL_SHREDS && (#[trigger] row@[i]) is Some,
        // (find_map returns the first hit: there is one as soon as some position is filled)
        (exists|i: int| 0 <= i < TOTAL_SHREDS && (#[trigger] row@[i]) is Some) ==> r is Some,
{ unimplemented!() }

impl BlockstoreImpl {
/*@ extract src/consensus/blockstore.rs :: impl BlockstoreImpl/fn slot_data
ret r
ensures
        r == (if self.block_data@.contains_key(slot) { Some(&self.block_data@[slot]) } else { None }),
@*/
/*@ extract src/consensus/blockstore.rs :: impl BlockstoreImpl/fn get_block_data
props C14 C10
ret r
ensures
        r == (match self.data_of(*block_id) { Some(bd) => Some(&bd), None => None }),
@*/

/*@ extract src/consensus/blockstore.rs :: impl Blockstore for BlockstoreImpl/fn get_last_slice_index
props C14 C10
ret r
ensures
        // [C14.a_held_block_is_answered_with_data] "a node answers every request about a block it holds with data"
        (self.store_wf() && self.holds(*block_id)) ==> r == Some(self.last_of(*block_id)),
        r == (match self.data_of(*block_id) { Some(bd) => bd.last_slice, None => None }),
@*/
/*@ extract src/consensus/blockstore.rs :: impl Blockstore for BlockstoreImpl/fn get_slice_root
props C14 C10
ret r
rewrite[R8] `block_data .shreds .get(&slice_index)? .iter() .find_map(|s| s.as_ref()) .map(|s| s.slice_root().clone())` => `verif_first_slice_root(block_data.shreds.get(&slice_index)?)`
ensures
        // [C14.a_held_block_is_answered_with_data] "a node answers every request about a block it holds with data"
        (self.store_wf() && self.holds(*block_id) && slice_index.0 <= self.last_of(*block_id).0) ==> r is Some,
        // [C14.slice_root_served_only_for_a_held_slice]
        r is Some ==> self.has_slice(*block_id, slice_index),
after `let block_data = self.get_block_data(block_id)?;`
        proof {
            assert(self.data_of(*block_id) == Some(*block_data));
            if self.store_wf() && self.holds(*block_id) && slice_index.0 <= self.last_of(*block_id).0 {
                assert(self.block_data@[block_id.0].all_wf());
                assert(block_data.wf());
                assert(row_full_in(block_data.shreds@, slice_index));
                assert(row_at(block_data.shreds@, slice_index, 0) is Some);
                assert(block_data.shreds@[slice_index]@[0] is Some);
            }
        }
@*/
/*@ extract src/consensus/blockstore.rs :: impl Blockstore for BlockstoreImpl/fn get_shred
props C14 C13
ret r
rewrite[R8] `slice_shreds[*shred_index].as_ref()` => `slice_shreds[shred_index.inner()].as_ref()`
requires
        self.store_wf(),
        shred_index.0 < TOTAL_SHREDS,
ensures
        // [C14.a_held_block_is_answered_with_data] "a node answers every request about a block it holds with data"
        (self.holds(*block_id) && slice_index.0 <= self.last_of(*block_id).0) ==> r is Some,
        // [C14.served_shred_is_the_stored_one_at_that_position] (slot / slice / position of what is served: W4)
        r matches Some(v) ==> v.spec_payload().header.slice_index == slice_index,
        // [C14.served_shred_carries_the_verified_signature_of_its_slice C13.served_shred_carries_the_verified_signature_of_its_slice]
        // whatever shred of a held block the node serves - received, normalised on arrival or rebuilt by deshred - carries the
        // signature kept with the slice's cached commitment, i.e. that of the shred that populated the entry and was checked (F22)
        r matches Some(v) ==> (self.data_of(*block_id) matches Some(bd) && bd.commitment_cache@.contains_key(slice_index)
            && v.spec_sig() == bd.commitment_cache@[slice_index].1 && v.spec_commitment() == bd.commitment_cache@[slice_index].0),
before `let slice_shreds = block_data.shreds.get(&slice_index)?;`
        proof {
            assert(self.data_of(*block_id) == Some(*block_data));
            assert(self.block_data@[block_id.0].all_wf());
            assert(block_data.wf());
            if self.holds(*block_id) && slice_index.0 <= self.last_of(*block_id).0 {
                assert(row_full_in(block_data.shreds@, slice_index));
                assert(row_at(block_data.shreds@, slice_index, shred_index.0 as int) is Some);
            }
        }
after `let slice_shreds = block_data.shreds.get(&slice_index)?;`
        proof {
            assert(block_data.shreds@.contains_key(slice_index) && *slice_shreds == block_data.shreds@[slice_index]);
            assert(slice_shreds@[shred_index.0 as int] == row_at(block_data.shreds@, slice_index, shred_index.0 as int));
        }
@*/
/*@ extract src/consensus/blockstore.rs :: impl Blockstore for BlockstoreImpl/fn create_double_merkle_proof
props C14 C10
ret r
requires
        self.store_wf(),
        // caller obligation (repair.rs try_build_response looks the slice root up first): a shred of that slice is held
        self.has_slice(*block_id, slice_index),
ensures
        // [C14.a_held_block_is_answered_with_data] "a node answers every request about a block it holds with data"
        self.holds(*block_id) ==> r is Some,
@*/
}

impl BlockstoreImpl {
    // ASSUMED contract of `self.block_data.entry(slot).or_insert_with(|| SlotBlockData::new(slot))` (R5): the slot's data,
    // created empty (not flagged, well formed) on first use
    #[verifier::external_body]
    pub fn slot_data_mut(&mut self, slot: Slot) -> (r: &mut SlotBlockData)
        ensures
            old(self).block_data@.contains_key(slot) ==> *r == old(self).block_data@[slot],
            !old(self).block_data@.contains_key(slot) ==> !r.leader_misbehaved && r.all_wf() && r.slot == slot
                && r.disseminated.slot == slot && r.disseminated.last_slice is None && r.disseminated.completed is None
                && r.disseminated.commitment_cache@.len() == 0 /*raw*/ && r.disseminated.shreds@.len() == 0,
            final(self).block_data@ == old(self).block_data@.insert(slot, *final(r)),
            final(self).votor_channel == old(self).votor_channel,
    { unimplemented!() }
    // ASSUMED contract of the channel send inside send_blockstore_event (`votor_channel.send(event).await.expect(..)`)
    #[verifier::external_body]
    pub fn verif_channel_send(&mut self, event: BlockstoreEvent)
        ensures
            final(self).votor_channel.sent() == old(self).votor_channel.sent().push(event),
            final(self).block_data == old(self).block_data,
    { unimplemented!() }

/*@ extract src/consensus/blockstore.rs :: impl BlockstoreImpl/fn send_blockstore_event
props C13
ret r
elide-async
sig `&self` => `&mut self`
rewrite[R9] `Some(block_info.clone())` => `Some(verif_clone_block_info(block_info))`
rewrite[R8] `self.votor_channel .send(event) .expect("votor should not drop the event receiver");` => `self.verif_channel_send(event);`
ensures
        final(self).votor_channel.sent() == old(self).votor_channel.sent().push(event),
        final(self).block_data == old(self).block_data,
        r == (match event { BlockstoreEvent::Block { slot, block_info } => Some(block_info), _ => None }),
        forall|s: Slot| #[trigger] count_invalid(final(self).votor_channel.sent(), s)
            == count_invalid(old(self).votor_channel.sent(), s) + (if event == BlockstoreEvent::InvalidBlock(s) { 1int } else { 0int }),
after `self.verif_channel_send(event);`
        proof {
            assert forall|s: Slot| #[trigger] count_invalid(self.votor_channel.sent(), s)
                == count_invalid(old(self).votor_channel.sent(), s) + (if ev0 == BlockstoreEvent::InvalidBlock(s) { 1int } else { 0int }) by {
                lemma_count_push(old(self).votor_channel.sent(), ev0, s);
            }
        }
before `let block_info = match &event {`
        let ghost ev0 = event;
@*/

/*@ extract src/consensus/blockstore.rs :: impl Blockstore for BlockstoreImpl/fn flag_leader_misbehavior
props C13
elide-async
requires
        old(self).flags_ok(),
ensures
        // [C14.store_invariant_is_kept C13.store_invariant_is_kept] every block data in the store stays well formed (what the queries that serve repair rely on)
        old(self).store_wf() ==> final(self).store_wf(),
        // [C13.invalid_block_announced_exactly_once]
        final(self).flags_ok(),
        final(self).flagged(slot),
        forall|s: Slot| s != slot ==> (#[trigger] final(self).flagged(s) == old(self).flagged(s)),
        old(self).flagged(slot) ==> final(self).votor_channel.sent() == old(self).votor_channel.sent(),
        !old(self).flagged(slot) ==> final(self).votor_channel.sent() == old(self).votor_channel.sent().push(BlockstoreEvent::InvalidBlock(slot)),
before `if self.slot_data_mut(slot).mark_leader_misbehaved() {`
        let ghost pre = *old(self);
blockend `if self.slot_data_mut(slot).mark_leader_misbehaved() {`
        proof {
            if !pre.flagged(slot) { assert(self.votor_channel.sent().drop_last() =~= pre.votor_channel.sent()); }
            assert forall|s: Slot| #[trigger] count_invalid(self.votor_channel.sent(), s) == (if self.flagged(s) { 1int } else { 0int }) by {
                let _ = count_invalid(pre.votor_channel.sent(), s);
            }
        }
@*/
}

// what BlockData::new returns (PROVED below on its real body): nothing stored, nothing known
pub open spec fn fresh_block_data(b: BlockData, slot: Slot) -> bool {
    b.slot == slot && b.completed is None && b.last_slice is None && b.double_merkle_tree is None
        && b.shreds@ == Map::<SliceIndex, [Option<ValidatedShred>; TOTAL_SHREDS]>::empty()
        && b.slices@ == Map::<SliceIndex, ReconstructedSlice>::empty()
        && b.commitment_cache@ == Map::<SliceIndex, (SliceCommitment, Signature)>::empty()
}
// R5: `self.repaired.entry(k).or_insert_with(|| BlockData::new(self.slot))`: the entry for k, created by BlockData::new on first use.
// TRUSTED documented behaviour of BTreeMap::entry / or_insert_with.
#[verifier::external_body]
pub fn verif_repaired_entry(m: &mut BTreeMap<BlockHash, BlockData>, slot: Slot, k: BlockHash) -> (r: &mut BlockData)
    ensures
        old(m)@.contains_key(k) ==> *r == old(m)@[k],
        !old(m)@.contains_key(k) ==> fresh_block_data(*r, slot),
        final(m)@ == old(m)@.insert(k, *final(r)),
{ unimplemented!() }
impl BlockData {
/*@ extract src/consensus/blockstore/slot_block_data.rs :: impl BlockData/fn new
props C14 C13
ret r
ensures
        // [C14.fresh_block_data_is_empty_and_well_formed C13.fresh_block_data_is_empty_and_well_formed]
        fresh_block_data(r, slot) && r.wf() && r.complete_inv(),
@*/
}
impl SlotBlockData {
    // (the contract about WHICH hash a repaired block is announced and kept under is proved on the same body in unit `repair`;
    //  here: the frame and the well-formedness of every block data kept for the slot)
/*@ extract src/consensus/blockstore/slot_block_data.rs :: impl SlotBlockData/fn add_shred_from_repair
props C14 C13
ret r
rewrite[R5] `self .repaired .entry(` => `verif_repaired_entry(&mut self.repaired, self.slot, `
rewrite[R5] `) .or_insert_with(|| BlockData::new(self.slot))` => `)`
requires
        old(self).all_wf(),
        shred.spec_payload().shred_index.0 < TOTAL_SHREDS && shred.spec_payload().header.slice_index.0 < 1024,
ensures
        final(self).leader_misbehaved == old(self).leader_misbehaved && final(self).disseminated == old(self).disseminated,
        final(self).slot == old(self).slot,
        r matches Ok(Some(BlockstoreEvent::Block { slot, block_info })) ==> block_info.hash == hash,
        !(r matches Ok(Some(BlockstoreEvent::InvalidBlock(_)))),
        // [C14.every_block_data_of_the_slot_stays_well_formed C13.every_block_data_of_the_slot_stays_well_formed]
        final(self).all_wf(),
        forall|h: BlockHash| h != hash ==> (#[trigger] final(self).repaired@.contains_key(h) <==> old(self).repaired@.contains_key(h))
            && (final(self).repaired@.contains_key(h) ==> final(self).repaired@[h] == old(self).repaired@[h]),
@*/
}
impl BlockstoreImpl {
/*@ extract src/consensus/blockstore.rs :: impl Blockstore for BlockstoreImpl/fn add_shred_from_dissemination
props C13 C12
ret r
elide-async
rewrite[R8] `self .shredders .checkout() .expect("should have a shredder because of exclusive access")` => `self.shredders.verif_checkout()`
rewrite[R8] `&mut shredder` => `shredder.verif_as_mut()`
requires
        old(self).store_wf(),
        old(self).flags_ok(),
        old(self).block_data@.contains_key(shred.spec_payload().header.slot) ==> old(self).block_data@[shred.spec_payload().header.slot].disseminated.wf(),
        shred.spec_payload().shred_index.0 < TOTAL_SHREDS && shred.spec_payload().header.slice_index.0 < 1024,
ensures
        // [C14.store_invariant_is_kept C13.store_invariant_is_kept] every block data in the store stays well formed (what the queries that serve repair rely on)
        final(self).store_wf(),
        final(self).flags_ok(),
        // [C13.nothing_from_dissemination_after_misbehaviour] once the leader of the slot is flagged, nothing is accepted or announced
        old(self).flagged(shred.spec_payload().header.slot) ==> r is Err && final(self).votor_channel.sent() == old(self).votor_channel.sent(),
        // [C13.equivocation_or_invalid_shred_flags_the_leader C12.equivocation_or_invalid_shred_flags_the_leader]
        (r matches Err(e) && (e == AddShredError::Equivocation || e == AddShredError::InvalidShred)) ==> final(self).flagged(shred.spec_payload().header.slot),
        // a flag is never taken back
        forall|s: Slot| old(self).flagged(s) ==> #[trigger] final(self).flagged(s),
        // [C13.at_most_one_event_per_shred] one shred causes at most one announcement (first shred, block, or invalid block)
        final(self).votor_channel.sent() == old(self).votor_channel.sent()
            || (final(self).votor_channel.sent().len() == old(self).votor_channel.sent().len() + 1
                && final(self).votor_channel.sent().drop_last() == old(self).votor_channel.sent()),
        r matches Ok(Some(info)) ==> final(self).votor_channel.sent().len() == old(self).votor_channel.sent().len() + 1
            && (final(self).votor_channel.sent().last() matches BlockstoreEvent::Block { slot, block_info } && block_info == info),
before `let slot = shred.payload().header.slot;`
        let ghost pre = *old(self);
@*/
/*@ extract src/consensus/blockstore.rs :: impl Blockstore for BlockstoreImpl/fn add_shred_from_repair
props C13 C14
ret r
elide-async
rewrite[R8] `self .shredders .checkout() .expect("should have a shredder because of exclusive access")` => `self.shredders.verif_checkout()`
rewrite[R8] `&mut shredder` => `shredder.verif_as_mut()`
requires
        old(self).store_wf(),
        shred.spec_payload().shred_index.0 < TOTAL_SHREDS && shred.spec_payload().header.slice_index.0 < 1024,
        old(self).flags_ok(),
ensures
        // [C14.store_invariant_is_kept C13.store_invariant_is_kept] every block data in the store stays well formed (what the queries that serve repair rely on)
        final(self).store_wf(),
        final(self).flags_ok(),
        // [C14.repaired_block_reported_only_under_its_own_hash]
        r matches Ok(Some(info)) ==> info.hash == hash,
        // [C13.equivocation_or_invalid_shred_flags_the_leader]
        (r matches Err(e) && (e == AddShredError::Equivocation || e == AddShredError::InvalidShred)) ==> final(self).flagged(shred.spec_payload().header.slot),
        forall|s: Slot| old(self).flagged(s) ==> #[trigger] final(self).flagged(s),
@*/
}
#[verifier::external_body]
pub fn verif_clone_block_info(b: &BlockInfo) -> (r: BlockInfo) ensures r == *b { unimplemented!() }

impl BlockData {
/*@ extract src/consensus/blockstore/slot_block_data.rs :: impl BlockData/fn try_reconstruct_block
props C13 C10
ret r
rewrite[R8] `let slice_roots = self.slices.values().map(|s| s.slice_root()); let tree = DoubleMerkleTree::new(slice_roots);` => `let tree = verif_build_double_tree(&self.slices);`
rewrite[R4] `for (ind, slice) in &self.slices {` => `let verif_entries = verif_slice_entries(&self.slices); let mut verif_k: usize = 0; while verif_k < verif_entries.len() { let (ind, slice) = verif_entries[verif_k]; verif_k += 1;`
rewrite[R9] `first_slice .parent .clone()` => `verif_clone_opt_block_id(&first_slice.parent)`
rewrite[R9] `slice.parent.clone()` => `verif_clone_opt_block_id(&slice.parent)`
rewrite[R9] `new_parent == parent` => `verif_block_id_eq(&new_parent, &parent)`
rewrite?[R8] `size_of::<crate::Transaction>()` => `size_of_transaction()`
rewrite[R8] `let config = DefaultConfig::default().with_preallocation_size_limit::<VANY>(); let mut txs = match wincode::config::deserialize_exact(&slice.data, config) {` => `let mut txs = match verif_decode_transactions(&slice.data, VANY) {`
rewrite[R8] `BlockInfo::from(&block)` => `verif_block_info_from(&block)`
rewrite[R8] `for slice_index in last_slice.until() { self.slices.remove(&slice_index); }` => `verif_remove_slices_until(&mut self.slices, last_slice);`
requires
        old(self).wf(),
ensures
        final(self).wf(),
        // [C13.block_announced_exactly_once]
        old(self).completed is Some ==> (r is NoAction && final(self).completed == old(self).completed && final(self).slices@ == old(self).slices@),
        r matches ReconstructBlockResult::Complete(info) ==> old(self).completed is None && final(self).completed is Some,
        // [C13.parent_in_earlier_slot C10.parent_in_earlier_slot]
        r matches ReconstructBlockResult::Complete(info) ==> info.parent.0.0 < old(self).slot.0,
        // [C13.hash_is_double_merkle_root_of_slice_roots]
        r matches ReconstructBlockResult::Complete(info) ==> (final(self).double_merkle_tree is Some && info.hash == final(self).double_merkle_tree->0.spec_root()
            && final(self).completed is Some && (final(self).completed->0).0 == info.hash && (final(self).completed->0).1.hash == info.hash
            && ((final(self).completed->0).1.parent, (final(self).completed->0).1.parent_hash) == info.parent),
        // [C13.nothing_announced_on_error_or_incomplete]
        !(r is Complete) ==> final(self).completed == old(self).completed && final(self).slices@ == old(self).slices@,
        // [C13.block_is_built_as_soon_as_every_slice_is_there] nothing is left undone: no action only when the block is complete already,
        // the last slice is not known yet, or a slice up to it is still missing
        r is NoAction ==> old(self).completed is Some || !old(self).all_there(),
        // stored shreds, commitments and the last-slice marker are not touched by block reconstruction
        final(self).shreds == old(self).shreds && final(self).commitment_cache == old(self).commitment_cache
            && final(self).last_slice == old(self).last_slice && final(self).slot == old(self).slot,
        forall|k: SliceIndex| #[trigger] final(self).slices@.contains_key(k) ==> old(self).slices@.contains_key(k) && final(self).slices@[k] == old(self).slices@[k],
        final(self).slices@.dom().finite(),
loop 0
        invariant
            old(self).completed is None && old(self).wf(),
            self.slices == old(self).slices && self.shreds == old(self).shreds && self.commitment_cache == old(self).commitment_cache
                && self.last_slice == old(self).last_slice,
            self.completed == old(self).completed,
            self.slot == old(self).slot,
            slot == self.slot,
            self.double_merkle_tree is Some,
            self.last_slice == Some(last_slice) && (self.double_merkle_tree->0).spec_leaves().len() == last_slice.0 + 1,
            block_hash == (self.double_merkle_tree->0).spec_root(),
            forall|k: SliceIndex| k.0 <= last_slice.0 ==> #[trigger] row_full_in(self.shreds@, k),
        decreases verif_entries@.len() - verif_k,
before `return ReconstructBlockResult::Error;#2`
        proof {
            // [C13.every_slice_that_fits_decodes C10.every_slice_that_fits_decodes] the decoder rejects a slice only if its data
            // is not a well-formed transaction list or exceeds a slice: however MANY (small) transactions a correct leader
            // packs into MAX_DATA_PER_SLICE bytes, followers decode them and the leader's own fast path does not hit its
            // `unreachable!` (finding F19: the preallocation limit capped the count at 1365)
            if wf_txs(slice.data@) && slice.data@.len() <= MAX_DATA_PER_SLICE { axiom_txs_min_size(slice.data@); }
            assert(!(wf_txs(slice.data@) && slice.data@.len() <= MAX_DATA_PER_SLICE));
        }
before `self.double_merkle_tree = Some(tree);`
        proof {
            // every slice up to the last one is reconstructed (l+1 of them, none above l), so each has all 64 shreds stored (W11): W12
            assert forall|k: SliceIndex| k.0 <= last_slice.0 implies #[trigger] row_full_in(self.shreds@, k) by {
                lemma_pigeon_at(self.slices@.dom(), last_slice.0 as int, k.0 as int);
                assert(SliceIndex(k.0) == k);
                assert(self.slices@.contains_key(k));
            }
        }
before `let slot = self.slot;`
        proof {
            if self.last_slice is Some && self.slices@.len() == (self.last_slice->0).0 + 1 {
                lemma_pigeon(self.slices@.dom(), (self.last_slice->0).0 as int);
            }
        }
@*/


/*@ extract src/consensus/blockstore/slot_block_data.rs :: impl BlockData/fn mark_last_slice
props C13 C10
rewrite*[R8] `.retain(|&ind, _|` => `.verif_retain(|ind: SliceIndex|`
requires
        old(self).wf() && old(self).last_slice is None && slice_index.0 < 1024,
ensures
        // [C13.nothing_kept_beyond_the_last_slice C10.slice_count_matches_last_index]
        final(self).wf(),
        final(self).last_slice == Some(slice_index),
        final(self).completed == old(self).completed && final(self).commitment_cache == old(self).commitment_cache && final(self).slot == old(self).slot
            && final(self).double_merkle_tree == old(self).double_merkle_tree,
        forall|k: SliceIndex| k.0 <= slice_index.0 ==> (#[trigger] final(self).shreds@.contains_key(k) <==> old(self).shreds@.contains_key(k))
            && (final(self).shreds@.contains_key(k) ==> final(self).shreds@[k] == old(self).shreds@[k]),
        forall|k: SliceIndex| k.0 <= slice_index.0 ==> (#[trigger] final(self).slices@.contains_key(k) <==> old(self).slices@.contains_key(k))
            && (final(self).slices@.contains_key(k) ==> final(self).slices@[k] == old(self).slices@[k]),
closure *
        params ind: SliceIndex
        ret b: bool
        ensures b == (ind.0 <= slice_index.0)
before `self.last_slice = Some(slice_index);`
        let ghost pre = *old(self);
blockend `self.last_slice = Some(slice_index);`
        proof {
            assert forall|k: SliceIndex| #[trigger] self.slices@.contains_key(k) implies k.0 <= slice_index.0 by {}
            assert forall|k: SliceIndex| #[trigger] self.shreds@.contains_key(k) implies k.0 <= slice_index.0 by {}
            assert forall|k: SliceIndex, i: int| self.shreds@.contains_key(k) && 0 <= i < TOTAL_SHREDS && (#[trigger] row_at(self.shreds@, k, i)) is Some implies
                (row_at(self.shreds@, k, i)->0).spec_payload().header.slice_index == k
                && self.commitment_cache@.contains_key(k) && self.commitment_cache@[k] == ((row_at(self.shreds@, k, i)->0).spec_commitment(), (row_at(self.shreds@, k, i)->0).spec_sig()) by {
                assert(pre.shreds@.contains_key(k) && self.shreds@[k] == pre.shreds@[k]);
                assert(row_at(self.shreds@, k, i) == row_at(pre.shreds@, k, i));
            }
            if self.slices@.contains_key(SliceIndex(0)) { assert(pre.slices@.contains_key(SliceIndex(0))); }
            assert forall|k: SliceIndex| #[trigger] self.slices@.contains_key(k) implies row_full_in(self.shreds@, k) by {
                assert(pre.slices@.contains_key(k));
                assert(self.shreds@.contains_key(k) && self.shreds@[k] == pre.shreds@[k]);
                lemma_row_stays_full(pre.shreds@, self.shreds@, k);
            }
        }
@*/


/*@ extract src/consensus/blockstore/slot_block_data.rs :: impl BlockData/fn try_reconstruct_slice
props C13 C10
ret r
rewrite[R5] `let entry = match self.slices.entry(index) { Entry::Occupied(_) => return ReconstructSliceResult::NoAction, Entry::Vacant(entry) => entry, };` => `if self.slices.contains_key(&index) { return ReconstructSliceResult::NoAction; }`
rewrite[R5] `entry.insert(reconstructed_slice);` => `self.slices.insert(index, reconstructed_slice);`
rewrite[R8] `self .shreds .get_mut(&index) .expect("caller must insert at least one shred before reconstructing")` => `verif_shreds_get_mut(&mut self.shreds, &index)`
rewrite[R10] `let reconstructed_slice = match shredder.deshred(slice_shreds) {` => `let verif_d = shredder.deshred(slice_shreds); let ghost row1 = *slice_shreds; proof { lemma_rows_after_deshred(pre, *self, index, row0, row1); assert forall|k: SliceIndex| #[trigger] pre.slices@.contains_key(k) implies row_full_in(self.shreds@, k) by { assert(row_full_in(pre.shreds@, k)); } assert forall|k: SliceIndex| pre.tree_leaves() is Some && k.0 <= (pre.last_slice->0).0 implies #[trigger] row_full_in(self.shreds@, k) by { assert(row_full_in(pre.shreds@, k)); } if verif_d is Ok { assert forall|i: int| 0 <= i < TOTAL_SHREDS implies (#[trigger] row_at(self.shreds@, index, i)) is Some by { assert(row1@[i] is Some); } assert(row_full_in(self.shreds@, index)); } } let reconstructed_slice = match verif_d {`
requires
        old(self).wf(),
        old(self).shreds@.contains_key(index),
        old(self).last_slice matches Some(l) ==> index.0 <= l.0,
ensures
        final(self).wf(),
        final(self).completed == old(self).completed && final(self).last_slice == old(self).last_slice && final(self).slot == old(self).slot
            && final(self).commitment_cache == old(self).commitment_cache && final(self).double_merkle_tree == old(self).double_merkle_tree,
        // [C13.slice_reconstructed_at_most_once]
        (old(self).completed is Some || old(self).slices@.contains_key(index)) ==> r is NoAction,
        r is Complete ==> final(self).slices@.contains_key(index) && final(self).slices@ == old(self).slices@.insert(index, final(self).slices@[index]),
        !(r is Complete) ==> final(self).slices@ == old(self).slices@,
        // stored shreds are never lost or altered by reconstruction
        forall|k: SliceIndex| #[trigger] final(self).shreds@.contains_key(k) <==> old(self).shreds@.contains_key(k),
        forall|k: SliceIndex, i: int| old(self).shreds@.contains_key(k) && 0 <= i < TOTAL_SHREDS && (#[trigger] row_at(old(self).shreds@, k, i)) is Some
            ==> row_at(final(self).shreds@, k, i) == row_at(old(self).shreds@, k, i),
before `let slot = self.slot;`
        let ghost pre = *old(self);
after `let slice_shreds = verif_shreds_get_mut(&mut self.shreds, &index);`
        let ghost row0 = *slice_shreds;
before `if reconstructed_slice.parent.is_none() && reconstructed_slice.slice_index.is_first() {`
        proof {
            let j0 = choose|j: int| 0 <= j < TOTAL_SHREDS && row0@[j] is Some && reconstructed_slice.slice_index == (#[trigger] row0@[j]->0).spec_payload().header.slice_index;
            assert(row_at(pre.shreds@, index, j0) is Some);
            assert(reconstructed_slice.slice_index == index);
        }
before `self.slices.insert(index, reconstructed_slice);`
        let ghost mid = *self;
        let ghost rs = reconstructed_slice;
after `self.slices.insert(index, reconstructed_slice);`
        proof {
            assert(self.shreds@ == mid.shreds@);
            assert forall|k: SliceIndex, i: int| self.shreds@.contains_key(k) && 0 <= i < TOTAL_SHREDS implies #[trigger] row_at(self.shreds@, k, i) == row_at(mid.shreds@, k, i) by {}
            assert(self.slices@ == pre.slices@.insert(index, rs));
            if index == SliceIndex(0) { assert(rs.parent is Some); }
        }
@*/


/*@ extract src/consensus/blockstore/slot_block_data.rs :: impl BlockData/fn add_shred
props C13 C12
ret r
rewrite[R5] `match self.commitment_cache.entry(slice_index) {` => `match self.commitment_cache.get(&slice_index) {`
rewrite[R5] `Entry::Occupied(entry) if entry.get().0 != shred.commitment() => {` => `Some(entry) if entry.0 != shred.commitment() => {`
rewrite[R5] `Entry::Occupied(entry) => {` => `Some(entry) => {`
rewrite[R5] `shred.set_slice_sig(entry.get().1);` => `shred.set_slice_sig(entry.1);`
rewrite[R5] `Entry::Vacant(entry) => { entry.insert((shred.commitment(), shred.slice_sig())); }` => `None => { self.commitment_cache.insert(slice_index, (shred.commitment(), shred.slice_sig())); }`
rewrite[R8] `self.VID.keys().any(|&ind|` => `verif_any_key(&self.VID, |ind: SliceIndex|`
rewrite[R8] `self.shreds.is_empty()` => `verif_shreds_is_empty(&self.shreds)`
rewrite[R5] `self .shreds .entry(slice_index) .or_insert([const { None }; TOTAL_SHREDS])` => `verif_shreds_entry(&mut self.shreds, slice_index)`
rewrite[R8] `slice_shreds[*shred_index].is_some()` => `verif_row_is_some(slice_shreds, shred_index.inner())`
rewrite[R8] `slice_shreds[*shred_index] = Some(shred);` => `verif_row_set(slice_shreds, shred_index.inner(), Some(shred));`
requires
        old(self).wf(),
        // type invariants of the bounded indices (enforced at deserialization, C19)
        shred.spec_payload().shred_index.0 < TOTAL_SHREDS && shred.spec_payload().header.slice_index.0 < 1024,
ensures
        final(self).wf(),
        final(self).slot == old(self).slot,
        // [C13.block_is_built_as_soon_as_every_slice_is_there] whichever shred arrives last, of whichever slice: when this call leaves
        // every slice up to the last one reconstructed, it has built (and announced) the block - or reported an error
        // (not claimed for one case this unit cannot exclude: the last-slice marker arriving on a shred of a slice that was already
        //  reconstructed without it - impossible for shreds under one commitment, the flag being part of what the leader signs, C12)
        (old(self).complete_inv() && r is Ok
            && (old(self).last_slice is Some || !old(self).slices@.contains_key(shred.spec_payload().header.slice_index)))
            ==> final(self).complete_inv(),
        // [C12.second_commitment_for_a_slice_is_equivocation C13.conflicting_slices_are_equivocation]
        // whatever else the block data holds (also after the block is complete)
        (old(self).cc().contains_key(shred.spec_payload().header.slice_index)
            && old(self).cc()[shred.spec_payload().header.slice_index] != shred.spec_commitment())
            ==> r == Err::<Option<BlockstoreEvent>, AddShredError>(AddShredError::Equivocation)
                && final(self).shreds == old(self).shreds && final(self).slices == old(self).slices && final(self).commitment_cache == old(self).commitment_cache
                && final(self).last_slice == old(self).last_slice && final(self).completed == old(self).completed,
        // [C12.cached_commitment_is_the_first_one_seen]
        old(self).cc().contains_key(shred.spec_payload().header.slice_index) ==> final(self).commitment_cache == old(self).commitment_cache,
        // [C12.re_tagged_shred_is_dropped_without_blaming_the_leader C13.re_tagged_shred_is_never_stored C14.re_tagged_shred_is_never_stored]
        // the data/coding tag is not authenticated: a shred whose tag does not fit its position is not stored (it would make
        // every later decoding of the slice fail) and the refusal is not one the blockstore turns into a misbehaviour report
        !shred.tag_fits_position() ==> r is Err
            && r != Err::<Option<BlockstoreEvent>, AddShredError>(AddShredError::InvalidShred)
            && final(self).completed == old(self).completed
            && (forall|k: SliceIndex| #[trigger] final(self).shreds@.contains_key(k) ==> old(self).shreds@.contains_key(k) && final(self).shreds@[k] == old(self).shreds@[k])
            && (forall|k: SliceIndex| #[trigger] final(self).slices@.contains_key(k) ==> old(self).slices@.contains_key(k) && final(self).slices@[k] == old(self).slices@[k]),
        // [C12.re_tagged_shred_blames_the_leader_only_with_signed_evidence]
        // what is still reported for such a shred is equivocation shown by its leader-signed commitment (a second commitment
        // for the slice, or contradictory last-slice markers), never its tag
        (!shred.tag_fits_position() && r == Err::<Option<BlockstoreEvent>, AddShredError>(AddShredError::Equivocation)) ==>
            (old(self).cc().contains_key(shred.spec_payload().header.slice_index)
                && old(self).cc()[shred.spec_payload().header.slice_index] != shred.spec_commitment())
            || (old(self).last_slice matches Some(l) && !BlockData::last_consistent(l, shred.spec_payload().header.slice_index, shred.spec_payload().header.is_last))
            || (old(self).last_slice is None && shred.spec_payload().header.is_last
                && (exists|k: SliceIndex| old(self).cc().contains_key(k) && k.0 > shred.spec_payload().header.slice_index.0)),
        // [C13.contradictory_last_slice_markers_are_equivocation]
        (!(old(self).cc().contains_key(shred.spec_payload().header.slice_index)
            && old(self).cc()[shred.spec_payload().header.slice_index] != shred.spec_commitment())
          && (old(self).last_slice matches Some(l) && !BlockData::last_consistent(l, shred.spec_payload().header.slice_index, shred.spec_payload().header.is_last)))
            ==> r == Err::<Option<BlockstoreEvent>, AddShredError>(AddShredError::Equivocation)
                && final(self).shreds == old(self).shreds && final(self).slices == old(self).slices && final(self).completed == old(self).completed,
        // [C13.last_marker_below_a_stored_slice_is_equivocation] (the same contradiction, met in the other arrival order)
        (!(old(self).cc().contains_key(shred.spec_payload().header.slice_index)
            && old(self).cc()[shred.spec_payload().header.slice_index] != shred.spec_commitment())
          && old(self).last_slice is None && shred.spec_payload().header.is_last
          && (exists|k: SliceIndex| old(self).shreds@.contains_key(k) && k.0 > shred.spec_payload().header.slice_index.0))
            ==> r == Err::<Option<BlockstoreEvent>, AddShredError>(AddShredError::Equivocation),
        // [C13.last_marker_below_a_seen_slice_is_equivocation C12.last_marker_below_a_seen_slice_is_equivocation] (finding F35) ... and the
        // evidence is every slice a VERIFIED shred was seen of - the commitment cache -, stored or not: a shred of the later slice that
        // was dropped for its (unauthenticated) data/coding tag still proves the leader signed that slice
        (!(old(self).cc().contains_key(shred.spec_payload().header.slice_index)
            && old(self).cc()[shred.spec_payload().header.slice_index] != shred.spec_commitment())
          && old(self).last_slice is None && shred.spec_payload().header.is_last
          && (exists|k: SliceIndex| old(self).cc().contains_key(k) && k.0 > shred.spec_payload().header.slice_index.0))
            ==> r == Err::<Option<BlockstoreEvent>, AddShredError>(AddShredError::Equivocation),
        // [C13.first_shred_announced_exactly_once]
        r matches Ok(Some(BlockstoreEvent::FirstShred(sl))) ==> sl == old(self).slot && (forall|k: SliceIndex| !old(self).shreds@.contains_key(k)),
        (r is Ok && (forall|k: SliceIndex| !old(self).shreds@.contains_key(k))) ==> r == Ok::<Option<BlockstoreEvent>, AddShredError>(Some(BlockstoreEvent::FirstShred(old(self).slot))),
        r is Ok ==> final(self).shreds@.contains_key(shred.spec_payload().header.slice_index),
        // [C13.accepted_shred_is_stored_and_nothing_stored_is_lost]
        r is Ok ==> (row_at(final(self).shreds@, shred.spec_payload().header.slice_index, shred.spec_payload().shred_index.0 as int) matches Some(st)
            && st.same_but_sig(shred)),
        // [C14.stored_shred_carries_the_verified_signature_of_its_slice C13.stored_shred_carries_the_verified_signature_of_its_slice]
        // what is stored (and later copied onto rebuilt shreds and served) carries the signature kept with the slice's cached
        // commitment - the one of the shred that populated the entry, which was checked - not whatever this shred came with
        r is Ok ==> final(self).commitment_cache@.contains_key(shred.spec_payload().header.slice_index)
            && (row_at(final(self).shreds@, shred.spec_payload().header.slice_index, shred.spec_payload().shred_index.0 as int)->0).spec_sig()
                == final(self).commitment_cache@[shred.spec_payload().header.slice_index].1,
        (r is Ok && !old(self).commitment_cache@.contains_key(shred.spec_payload().header.slice_index))
            ==> final(self).commitment_cache@[shred.spec_payload().header.slice_index].1 == shred.spec_sig(),
        // [C13.duplicate_position_is_refused]
        (old(self).shreds@.contains_key(shred.spec_payload().header.slice_index)
            && row_at(old(self).shreds@, shred.spec_payload().header.slice_index, shred.spec_payload().shred_index.0 as int) is Some) ==> r is Err,
        !(r matches Ok(Some(BlockstoreEvent::InvalidBlock(_)))),
        // [C13.block_announced_only_when_completed_now]
        r matches Ok(Some(BlockstoreEvent::Block { slot, block_info })) ==> slot == old(self).slot && old(self).completed is None
            && final(self).completed is Some && (final(self).completed->0).0 == block_info.hash && block_info.parent.0.0 < old(self).slot.0,
        !(r matches Ok(Some(BlockstoreEvent::Block { .. }))) ==> final(self).completed == old(self).completed,
closure 0
        params ind: SliceIndex
        ret bb: bool
        ensures bb == (ind.0 > slice_index.0)
before `let header = &shred.payload().header;`
        let ghost pre = *old(self);
before `match self.last_slice {`
        let ghost a = *self;
        proof {
            assert(a.cc().contains_key(slice_index) && a.cc()[slice_index] == shred.spec_commitment());
            // the slices a verified shred was seen of, beyond this one: the same before and after this shred entered the cache
            assert forall|k: SliceIndex| k != slice_index && #[trigger] pre.cc().contains_key(k) implies a.commitment_cache@.contains_key(k) by {}
            assert forall|k: SliceIndex| k != slice_index && #[trigger] a.commitment_cache@.contains_key(k) implies pre.cc().contains_key(k) by {}
            assert forall|k: SliceIndex| #[trigger] pre.shreds@.contains_key(k) implies pre.cc().contains_key(k) by { assert(pre.commitment_cache@.contains_key(k)); }
            assert forall|k: SliceIndex, i: int| a.shreds@.contains_key(k) && 0 <= i < TOTAL_SHREDS && (#[trigger] row_at(a.shreds@, k, i)) is Some implies
                (row_at(a.shreds@, k, i)->0).spec_payload().header.slice_index == k
                && a.commitment_cache@.contains_key(k) && a.commitment_cache@[k] == ((row_at(a.shreds@, k, i)->0).spec_commitment(), (row_at(a.shreds@, k, i)->0).spec_sig()) by {
                assert(row_at(pre.shreds@, k, i) == row_at(a.shreds@, k, i));
            }
            assert(a.wf());
        }
before `let is_first_shred = verif_shreds_is_empty(&self.shreds);`
        let ghost b = *self;
        proof {
            assert(a.shreds == pre.shreds);
            assert forall|k: SliceIndex| #[trigger] b.shreds@.contains_key(k) <==> pre.shreds@.contains_key(k) by {
                if pre.last_slice is None && is_last { if k.0 > slice_index.0 { assert(!a.shreds@.contains_key(k)); } }
            }
            assert(b.wf());
            assert(b.commitment_cache == a.commitment_cache);
            assert(b.last_slice matches Some(l) ==> slice_index.0 <= l.0);
            // completeness so far: setting the marker on a slice that is not reconstructed yet cannot complete the set of slices
            if pre.complete_inv() && (pre.last_slice is Some || !pre.slices@.contains_key(slice_index)) {
                if pre.last_slice is None && is_last {
                    assert(!b.slices@.contains_key(slice_index));
                    if b.slices@.len() == slice_index.0 + 1 { lemma_pigeon_at(b.slices@.dom(), slice_index.0 as int, slice_index.0 as int); }
                    assert(!b.all_there());
                } else {
                    assert(b.slices@ == pre.slices@ && b.last_slice == pre.last_slice && b.completed == pre.completed);
                }
                assert(b.complete_inv());
            }
        }
after `let slice_shreds = verif_shreds_entry(&mut self.shreds, slice_index);`
        let ghost rowb = *slice_shreds;
after `if verif_row_is_some(slice_shreds, shred_index.inner()) {`
        proof {
            assert(b.shreds@.contains_key(slice_index));
            assert(self.shreds@ =~= b.shreds@);
            assert forall|k: SliceIndex, i: int| self.shreds@.contains_key(k) && 0 <= i < TOTAL_SHREDS implies #[trigger] row_at(self.shreds@, k, i) == row_at(b.shreds@, k, i) by {}
        }
after `verif_row_set(slice_shreds, shred_index.inner(), Some(shred));`
        let ghost rowc = *slice_shreds;
        let ghost c = *self;
        proof {
            assert(c.shreds@ == b.shreds@.insert(slice_index, rowc));
            assert(rowc@ == rowb@.update(shred_index.0 as int, Some(shred)));
            assert forall|k: SliceIndex, i: int| c.shreds@.contains_key(k) && 0 <= i < TOTAL_SHREDS && (#[trigger] row_at(c.shreds@, k, i)) is Some implies
                (row_at(c.shreds@, k, i)->0).spec_payload().header.slice_index == k
                && c.commitment_cache@.contains_key(k) && c.commitment_cache@[k] == ((row_at(c.shreds@, k, i)->0).spec_commitment(), (row_at(c.shreds@, k, i)->0).spec_sig()) by {
                if k == slice_index {
                    if i != shred_index.0 as int {
                        assert(rowc@[i] == rowb@[i]);
                        assert(b.shreds@.contains_key(k) && row_at(b.shreds@, k, i) == rowb@[i]);
                    }
                } else { assert(row_at(c.shreds@, k, i) == row_at(b.shreds@, k, i)); }
            }
            // full rows stay full (W11 / W12)
            assert forall|k: SliceIndex| #[trigger] row_full_in(b.shreds@, k) implies row_full_in(c.shreds@, k) by {
                assert forall|i: int| 0 <= i < TOTAL_SHREDS implies (#[trigger] row_at(c.shreds@, k, i)) is Some by {
                    assert(row_at(b.shreds@, k, i) is Some);
                    if k == slice_index { if i != shred_index.0 as int { assert(rowc@[i] == rowb@[i]); } }
                }
            }
            assert forall|k: SliceIndex| #[trigger] c.slices@.contains_key(k) implies row_full_in(c.shreds@, k) by { assert(row_full_in(b.shreds@, k)); }
            assert forall|k: SliceIndex| c.tree_leaves() is Some && k.0 <= (c.last_slice->0).0 implies #[trigger] row_full_in(c.shreds@, k) by { assert(row_full_in(b.shreds@, k)); }
            assert(c.wf());
            assert(row_at(c.shreds@, slice_index, shred_index.0 as int) == Some(shred));
        }
before `return Ok(Some(BlockstoreEvent::FirstShred(self.slot)));`
        proof {
            assert forall|k: SliceIndex| !pre.shreds@.contains_key(k) by { assert(!b.shreds@.contains_key(k)); }
        }
@*/

}

impl SlotBlockData {
/*@ extract src/consensus/blockstore/slot_block_data.rs :: impl SlotBlockData/fn disseminated_is
props C13 C14
ret r
ensures
        r == (self.disseminated.completed matches Some(c) && c.0 == *hash),
@*/
/*@ extract src/consensus/blockstore/slot_block_data.rs :: impl SlotBlockData/fn repaired_is_complete
props C13 C14
ret r
ensures
        r == (self.repaired@.contains_key(*hash) && self.repaired@[*hash].completed is Some),
@*/
/*@ extract src/consensus/blockstore/slot_block_data.rs :: impl SlotBlockData/fn add_shred_from_dissemination
props C13 C12
ret r
requires
        old(self).disseminated.wf(),
        shred.spec_payload().shred_index.0 < TOTAL_SHREDS && shred.spec_payload().header.slice_index.0 < 1024,
ensures
        final(self).disseminated.wf(),
        !(r matches Ok(Some(BlockstoreEvent::InvalidBlock(_)))),
        // [C13.block_is_announced_once_across_dissemination_and_repair] a block that repair has completed (and announced) already is
        // completed silently by dissemination (finding F31)
        r matches Ok(Some(BlockstoreEvent::Block { slot, block_info })) ==>
            !(old(self).repaired@.contains_key(block_info.hash) && old(self).repaired@[block_info.hash].completed is Some),
        // [C12.second_commitment_for_a_slice_is_equivocation C13.conflicting_slices_are_equivocation] what BlockData::add_shred
        // reports reaches the caller: a second, different signed commitment for a slice is equivocation in every state of the
        // slot that is not flagged yet - also after the block is complete - and so are contradictory last-slice markers
        (!old(self).leader_misbehaved && old(self).disseminated.cc().contains_key(shred.spec_payload().header.slice_index)
            && old(self).disseminated.cc()[shred.spec_payload().header.slice_index] != shred.spec_commitment())
            ==> r == Err::<Option<BlockstoreEvent>, AddShredError>(AddShredError::Equivocation) && final(self).disseminated.completed == old(self).disseminated.completed,
        // [C13.contradictory_last_slice_markers_are_equivocation]
        (!old(self).leader_misbehaved && !(old(self).disseminated.cc().contains_key(shred.spec_payload().header.slice_index)
            && old(self).disseminated.cc()[shred.spec_payload().header.slice_index] != shred.spec_commitment())
          && (old(self).disseminated.last_slice matches Some(l) && !BlockData::last_consistent(l, shred.spec_payload().header.slice_index, shred.spec_payload().header.is_last)))
            ==> r == Err::<Option<BlockstoreEvent>, AddShredError>(AddShredError::Equivocation),
        // [C13.nothing_from_dissemination_after_misbehaviour]
        old(self).leader_misbehaved ==> r is Err && final(self).disseminated == old(self).disseminated,
        final(self).leader_misbehaved == old(self).leader_misbehaved && final(self).repaired == old(self).repaired,
@*/
/*@ extract src/consensus/blockstore/slot_block_data.rs :: impl SlotBlockData/fn mark_leader_misbehaved
props C13
ret r
ensures
        // [C13.invalid_block_announced_once]
        r == !old(self).leader_misbehaved && final(self).leader_misbehaved,
        final(self).disseminated == old(self).disseminated && final(self).repaired == old(self).repaired,
@*/
}

impl BlockData {
/*@ extract src/consensus/blockstore/slot_block_data.rs :: impl BlockData/fn add_own_slice
props C13 C10
ret r
rewrite[R8] `ReconstructedSlice::from_parts(payload, any_shred, any_shred.slice_root().clone())` => `verif_slice_from_parts(payload, any_shred)`
rewrite[R8] `shreds.map(Some)` => `verif_all_some(shreds)`
rewrite[R7-own-block] `ReconstructBlockResult::Error => { vpanic(); }` => `ReconstructBlockResult::Error => { verif_assume_own_block_well_formed(); vpanic(); }`
requires
        old(self).wf(),
        // [C13.leader_adds_each_own_slice_once_in_order] the caller's (block producer's) discipline: slices are added once, none
        // after the last one, the 64 shreds of a slice share slice index and signed commitment, the first slice names a parent
        old(self).last_slice is None,
        old(self).completed is None,
        shreds@[0].spec_payload().header.slice_index.0 < 1024,
        !old(self).cc().contains_key(shreds@[0].spec_payload().header.slice_index),
        forall|i: int| 0 <= i < TOTAL_SHREDS ==> (#[trigger] shreds@[i]).spec_commitment() == shreds@[0].spec_commitment() && shreds@[i].spec_sig() == shreds@[0].spec_sig()
            && shreds@[i].spec_payload().header.slice_index == shreds@[0].spec_payload().header.slice_index,
        shreds@[0].spec_payload().header.slice_index.0 == 0 ==> payload.parent is Some,
ensures
        final(self).wf(),
        // [C13.own_slice_is_cached_and_stored_like_a_received_one] the commitment is cached (so a conflicting shred for the own
        // slot is recognised), all 64 shreds are stored under the slice index ...
        final(self).cc() == old(self).cc().insert(shreds@[0].spec_payload().header.slice_index, shreds@[0].spec_commitment()),
        final(self).shreds@.contains_key(shreds@[0].spec_payload().header.slice_index),
        forall|i: int| 0 <= i < TOTAL_SHREDS ==> #[trigger] row_at(final(self).shreds@, shreds@[0].spec_payload().header.slice_index, i) == Some(shreds@[i]),
        // ... and, until the block completes, the slice kept is the payload under the shreds' header and slice root - what a
        // follower rebuilds from these shreds (given deshred(shred(p)) = p, C11)
        r.1 is None ==> (final(self).slices@.contains_key(shreds@[0].spec_payload().header.slice_index)
            && final(self).slices@[shreds@[0].spec_payload().header.slice_index].parent == payload.parent
            && final(self).slices@[shreds@[0].spec_payload().header.slice_index].data == payload.data
            && final(self).slices@[shreds@[0].spec_payload().header.slice_index].slice_root == shreds@[0].spec_slice_root()),
        // [C13.first_shred_announced_exactly_once] on the leader path too
        r.0 == (old(self).shreds@.len() == 0),
        // [C13.own_block_completes_like_a_reconstructed_one C10.parent_in_earlier_slot]
        r.1 matches Some(info) ==> final(self).completed is Some && (final(self).completed->0).0 == info.hash && info.parent.0.0 < old(self).slot.0,
        r.1 is None ==> final(self).completed is None,
before `let slot = self.slot;`
        let ghost sh0 = shreds;
        let ghost pre = *self;
after `self.commitment_cache .insert(slice_index, (commitment, any_shred.slice_sig()));`
        proof {
            assert forall|k: SliceIndex, i: int| self.shreds@.contains_key(k) && 0 <= i < TOTAL_SHREDS && (#[trigger] row_at(self.shreds@, k, i)) is Some implies
                (row_at(self.shreds@, k, i)->0).spec_payload().header.slice_index == k
                && self.commitment_cache@.contains_key(k) && self.commitment_cache@[k] == ((row_at(self.shreds@, k, i)->0).spec_commitment(), (row_at(self.shreds@, k, i)->0).spec_sig()) by {
                assert(row_at(pre.shreds@, k, i) is Some);
            }
            assert(self.wf());
        }
before `self.shreds.insert(slice_index,`
        let ghost mid = *self;
before `let block_info =`
        proof {
            assert(mid.wf());
            assert forall|k: SliceIndex, i: int| self.shreds@.contains_key(k) && 0 <= i < TOTAL_SHREDS && (#[trigger] row_at(self.shreds@, k, i)) is Some implies
                (row_at(self.shreds@, k, i)->0).spec_payload().header.slice_index == k
                && self.commitment_cache@.contains_key(k) && self.commitment_cache@[k] == ((row_at(self.shreds@, k, i)->0).spec_commitment(), (row_at(self.shreds@, k, i)->0).spec_sig()) by {
                if k == slice_index {
                    assert(row_at(self.shreds@, k, i) == Some(sh0@[i]));
                } else {
                    assert(row_at(mid.shreds@, k, i) is Some);
                }
            }
            // the leader stores all 64 shreds of its own slice; other full rows are untouched (W11 / W12)
            assert(row_full_in(self.shreds@, slice_index)) by {
                assert forall|i: int| 0 <= i < TOTAL_SHREDS implies (#[trigger] row_at(self.shreds@, slice_index, i)) is Some by {
                    assert(row_at(self.shreds@, slice_index, i) == Some(sh0@[i]));
                }
            }
            assert forall|k: SliceIndex| k != slice_index && #[trigger] row_full_in(mid.shreds@, k) implies row_full_in(self.shreds@, k) by {
                assert forall|i: int| 0 <= i < TOTAL_SHREDS implies (#[trigger] row_at(self.shreds@, k, i)) is Some by { assert(row_at(mid.shreds@, k, i) is Some); }
            }
            assert forall|k: SliceIndex| #[trigger] self.slices@.contains_key(k) implies row_full_in(self.shreds@, k) by {
                if k != slice_index { assert(mid.slices@.contains_key(k)); assert(row_full_in(mid.shreds@, k)); }
            }
            assert forall|k: SliceIndex| self.tree_leaves() is Some && k.0 <= (self.last_slice->0).0 implies #[trigger] row_full_in(self.shreds@, k) by {
                if k != slice_index { assert(row_full_in(mid.shreds@, k)); }
            }
            assert(self.wf());
        }
@*/
}

impl SlotBlockData {
/*@ extract src/consensus/blockstore/slot_block_data.rs :: impl SlotBlockData/fn add_own_slice
props C13
ret r
requires
        old(self).disseminated.wf(), old(self).disseminated.last_slice is None, old(self).disseminated.completed is None,
        shreds@[0].spec_payload().header.slice_index.0 < 1024,
        !old(self).disseminated.cc().contains_key(shreds@[0].spec_payload().header.slice_index),
        forall|i: int| 0 <= i < TOTAL_SHREDS ==> (#[trigger] shreds@[i]).spec_commitment() == shreds@[0].spec_commitment() && shreds@[i].spec_sig() == shreds@[0].spec_sig()
            && shreds@[i].spec_payload().header.slice_index == shreds@[0].spec_payload().header.slice_index,
        shreds@[0].spec_payload().header.slice_index.0 == 0 ==> payload.parent is Some,
ensures
        final(self).disseminated.wf(),
        final(self).leader_misbehaved == old(self).leader_misbehaved && final(self).repaired == old(self).repaired && final(self).slot == old(self).slot,
        r.0 == (old(self).disseminated.shreds@.len() == 0),
        r.1 matches Some(info) ==> final(self).disseminated.completed is Some && (final(self).disseminated.completed->0).0 == info.hash
            && info.parent.0.0 < old(self).disseminated.slot.0,
        r.1 is None ==> final(self).disseminated.completed is None,
        final(self).disseminated.cc() == old(self).disseminated.cc().insert(shreds@[0].spec_payload().header.slice_index, shreds@[0].spec_commitment()),
@*/
}

impl BlockstoreImpl {
/*@ extract src/consensus/blockstore.rs :: impl Blockstore for BlockstoreImpl/fn add_own_slice
props C13
ret r
elide-async
rewrite[R8] `*shreds` => `verif_unbox_shreds(shreds)`
requires
        old(self).flags_ok(),
        // [C13.leader_adds_each_own_slice_once_in_order] (see BlockData::add_own_slice)
        old(self).block_data@.contains_key(shreds@[0].spec_payload().header.slot) ==> ({
            let d = old(self).block_data@[shreds@[0].spec_payload().header.slot].disseminated;
            d.wf() && d.last_slice is None && d.completed is None && !d.cc().contains_key(shreds@[0].spec_payload().header.slice_index)
        }),
        shreds@[0].spec_payload().header.slice_index.0 < 1024,
        forall|i: int| 0 <= i < TOTAL_SHREDS ==> (#[trigger] shreds@[i]).spec_commitment() == shreds@[0].spec_commitment() && shreds@[i].spec_sig() == shreds@[0].spec_sig()
            && shreds@[i].spec_payload().header.slice_index == shreds@[0].spec_payload().header.slice_index,
        shreds@[0].spec_payload().header.slice_index.0 == 0 ==> payload.parent is Some,
ensures
        // [C14.store_invariant_is_kept C13.store_invariant_is_kept]
        old(self).store_wf() ==> final(self).store_wf(),
        // [C13.leader_path_emits_the_same_events] "Emits the same events as the dissemination path": FirstShred for the first
        // slice only, a Block event exactly when this slice completed the block, never an InvalidBlock
        final(self).flags_ok(),
        forall|s: Slot| #[trigger] final(self).flagged(s) == old(self).flagged(s),
        final(self).votor_channel.sent() == ({
            let slot = shreds@[0].spec_payload().header.slot;
            let first = !old(self).block_data@.contains_key(slot) || old(self).block_data@[slot].disseminated.shreds@.len() == 0;
            let l1 = if first { old(self).votor_channel.sent().push(BlockstoreEvent::FirstShred(slot)) } else { old(self).votor_channel.sent() };
            match r { Some(info) => l1.push(BlockstoreEvent::Block { slot, block_info: info }), None => l1 }
        }),
before `let slot = shreds[0].payload().header.slot;`
        let ghost pre = *old(self);
@*/
}

impl BlockData {
// Canary: MUST fail (claims reconstruction never completes).
/*@ extract src/consensus/blockstore/slot_block_data.rs :: impl BlockData/fn try_reconstruct_block
as canary_try_reconstruct_block
expect-fail
ret r
rewrite[R8] `let slice_roots = self.slices.values().map(|s| s.slice_root()); let tree = DoubleMerkleTree::new(slice_roots);` => `let tree = verif_build_double_tree(&self.slices);`
rewrite[R4] `for (ind, slice) in &self.slices {` => `let verif_entries = verif_slice_entries(&self.slices); let mut verif_k: usize = 0; while verif_k < verif_entries.len() { let (ind, slice) = verif_entries[verif_k]; verif_k += 1;`
rewrite[R9] `first_slice .parent .clone()` => `verif_clone_opt_block_id(&first_slice.parent)`
rewrite[R9] `slice.parent.clone()` => `verif_clone_opt_block_id(&slice.parent)`
rewrite[R9] `new_parent == parent` => `verif_block_id_eq(&new_parent, &parent)`
rewrite?[R8] `size_of::<crate::Transaction>()` => `size_of_transaction()`
rewrite[R8] `let config = DefaultConfig::default().with_preallocation_size_limit::<VANY>(); let mut txs = match wincode::config::deserialize_exact(&slice.data, config) {` => `let mut txs = match verif_decode_transactions(&slice.data, VANY) {`
rewrite[R8] `BlockInfo::from(&block)` => `verif_block_info_from(&block)`
rewrite[R8] `for slice_index in last_slice.until() { self.slices.remove(&slice_index); }` => `verif_remove_slices_until(&mut self.slices, last_slice);`
requires
        old(self).slices@.dom().finite(),
ensures
        !(r is Complete),
loop 0
        invariant
            true,
        decreases verif_entries@.len() - verif_k,
@*/
}

} // mod code

} // verus!

fn main() {}
