// Unit U10 `blockdata`: block reconstruction from slices (src/consensus/blockstore/slot_block_data.rs
// BlockData::try_reconstruct_block).  Serves C13 (partial) and the add_block panic site of C10.
use vstd::prelude::*;
use std::collections::BTreeMap;

verus! {

/*@ include units/common/base_types.rs @*/

/*@ extract src/types/slice_index.rs :: struct SliceIndex
derive Clone, Copy
traits Eq OrdU64
@*/
/*@ extract src/crypto/merkle.rs :: struct SliceRoot
derive
traits Clone Eq
@*/

// TRUSTED opaque stand-ins for types whose content is irrelevant to block reconstruction
#[verifier::external_body] pub struct ValidatedShred { _p: () }
#[verifier::external_body] pub struct SliceCommitment { _p: () }
#[verifier::external_body] pub struct Transaction { _p: () }
#[verifier::external_body] pub struct DoubleMerkleTree { _p: () }
impl DoubleMerkleTree {
    pub uninterp spec fn spec_root(&self) -> BlockHash;
    pub uninterp spec fn spec_leaves(&self) -> Seq<SliceRoot>;
    #[verifier::external_body]
    pub fn get_root(&self) -> (r: BlockHash) ensures r == self.spec_root() { unimplemented!() }
}

// TRUSTED stand-in for ReconstructedSlice (src/types/slice.rs; derefs to Slice): the three parts read here
pub struct ReconstructedSlice {
    pub parent: Option<BlockId>,
    pub data: Vec<u8>,
    pub slice_root: SliceRoot,
}

/*@ extract src/lib.rs :: struct Block
derive
@*/
/*@ extract src/consensus/blockstore.rs :: struct BlockInfo
derive
@*/
/*@ extract src/consensus/blockstore/slot_block_data.rs :: struct BlockData
@*/
/*@ extract src/consensus/blockstore/slot_block_data.rs :: enum ReconstructBlockResult
derive
@*/

pub const TOTAL_SHREDS: usize = 64;

impl BlockData {
    pub open spec fn slice(&self, i: int) -> ReconstructedSlice { self.slices@[SliceIndex(i as usize)] }
}

pub mod code {
use super::*;
broadcast use super::axiom_SliceIndex_obeys_cmp_laws;

impl SliceIndex {
/*@ extract src/types/slice_index.rs :: impl SliceIndex/fn inner
ret r
ensures
        r == self.0,
@*/
/*@ extract src/types/slice_index.rs :: impl SliceIndex/fn first
ret r
ensures
        r.0 == 0,
@*/
/*@ extract src/types/slice_index.rs :: impl SliceIndex/fn is_first
ret r
ensures
        r == (self.0 == 0),
@*/
}

// Rewrite R8/R9 wrappers (iterator chains, external codecs, tuple clone/eq): TRUSTED documented behaviour.
#[verifier::external_body]
pub fn verif_build_double_tree(slices: &BTreeMap<SliceIndex, ReconstructedSlice>) -> (r: DoubleMerkleTree)
    // DoubleMerkleTree::new(self.slices.values().map(|s| s.slice_root())): the tree over the slice roots in index order
    ensures
        r.spec_leaves().len() == slices@.len(),
        forall|i: int| 0 <= i < r.spec_leaves().len() && slices@.contains_key(SliceIndex(i as usize)) ==> #[trigger] r.spec_leaves()[i] == slices@[SliceIndex(i as usize)].slice_root,
{ unimplemented!() }
#[verifier::external_body]
pub fn verif_slice_entries<'a>(slices: &'a BTreeMap<SliceIndex, ReconstructedSlice>) -> (r: Vec<(&'a SliceIndex, &'a ReconstructedSlice)>)
    // `for (ind, slice) in &self.slices`: the entries in ascending key order
    ensures
        r@.len() == slices@.len(),
        forall|i: int| 0 <= i < r@.len() ==> slices@.contains_key(*(#[trigger] r@[i]).0) && slices@[*r@[i].0] == *r@[i].1,
{ unimplemented!() }
#[verifier::external_body]
pub fn verif_decode_transactions(data: &Vec<u8>) -> (r: Result<Vec<Transaction>, ()>)
{ unimplemented!() }
#[verifier::external_body]
pub fn verif_clone_opt_block_id(o: &Option<BlockId>) -> (r: Option<BlockId>)
    ensures r == *o
{ unimplemented!() }
#[verifier::external_body]
pub fn verif_block_id_eq(a: &BlockId, b: &BlockId) -> (r: bool)
    ensures r == (*a == *b)
{ unimplemented!() }
#[verifier::external_body]
pub fn verif_block_info_from(block: &Block) -> (r: BlockInfo)
    // impl From<&Block> for BlockInfo
    ensures r.hash == block.hash, r.parent == (block.parent, block.parent_hash)
{ unimplemented!() }
#[verifier::external_body]
pub fn verif_remove_slices_until(slices: &mut BTreeMap<SliceIndex, ReconstructedSlice>, last: SliceIndex)
    // for slice_index in last_slice.until() { self.slices.remove(&slice_index); }
{ unimplemented!() }

impl BlockData {
/*@ extract src/consensus/blockstore/slot_block_data.rs :: impl BlockData/fn try_reconstruct_block
props C13 C10
ret r
rewrite[R8] `let slice_roots = self.slices.values().map(|s| s.slice_root()); let tree = DoubleMerkleTree::new(slice_roots);` => `let tree = verif_build_double_tree(&self.slices);`
rewrite[R4] `for (ind, slice) in &self.slices {` => `let verif_entries = verif_slice_entries(&self.slices); let mut verif_k: usize = 0; while verif_k < verif_entries.len() { let (ind, slice) = verif_entries[verif_k]; verif_k += 1;`
rewrite[R9] `first_slice .parent .clone()` => `verif_clone_opt_block_id(&first_slice.parent)`
rewrite[R9] `slice.parent.clone()` => `verif_clone_opt_block_id(&slice.parent)`
rewrite[R9] `new_parent == parent` => `verif_block_id_eq(&new_parent, &parent)`
rewrite[R8] `let config = DefaultConfig::default().with_preallocation_size_limit::<MAX_DATA_PER_SLICE>(); let mut txs = match wincode::config::deserialize_exact(&slice.data, config) {` => `let mut txs = match verif_decode_transactions(&slice.data) {`
rewrite[R8] `BlockInfo::from(&block)` => `verif_block_info_from(&block)`
rewrite[R8] `for slice_index in last_slice.until() { self.slices.remove(&slice_index); }` => `verif_remove_slices_until(&mut self.slices, last_slice);`
requires
        // established by add_shred / try_reconstruct_slice (not under contract here): keys of `slices` are <= last,
        // and the first slice carries a parent
        // (mark_last_slice keeps every key <= last, so `len == last + 1` means slices 0..=last are all present)
        (old(self).last_slice is Some && old(self).slices@.len() == (old(self).last_slice->0).0 + 1) ==> old(self).slices@.contains_key(SliceIndex(0)),
        old(self).last_slice is Some ==> (old(self).last_slice->0).0 < 1024,
        old(self).slices@.dom().finite(),
        old(self).slices@.contains_key(SliceIndex(0)) ==> old(self).slices@[SliceIndex(0)].parent is Some,
ensures
        // [C13.block_announced_exactly_once]
        old(self).completed is Some ==> (r is NoAction && final(self).completed == old(self).completed && final(self).slices@ == old(self).slices@),
        r matches ReconstructBlockResult::Complete(info) ==> old(self).completed is None && final(self).completed is Some,
        // [C13.parent_in_earlier_slot C10.parent_in_earlier_slot]
        r matches ReconstructBlockResult::Complete(info) ==> info.parent.0.0 < old(self).slot.0,
        // [C13.hash_is_double_merkle_root_of_slice_roots]
        r matches ReconstructBlockResult::Complete(info) ==> (final(self).double_merkle_tree is Some && info.hash == final(self).double_merkle_tree->0.spec_root()
            && final(self).completed is Some && (final(self).completed->0).0 == info.hash && (final(self).completed->0).1.hash == info.hash
            && ((final(self).completed->0).1.parent, (final(self).completed->0).1.parent_hash) == info.parent),
        // [C13.nothing_announced_on_error_or_incomplete]
        !(r is Complete) ==> final(self).completed == old(self).completed,
loop 0
        invariant
            old(self).completed is None,
            self.completed == old(self).completed,
            self.slot == old(self).slot,
            slot == self.slot,
            self.double_merkle_tree is Some,
            block_hash == (self.double_merkle_tree->0).spec_root(),
        decreases verif_entries@.len() - verif_k,
@*/

// Canary: MUST fail (claims reconstruction never completes).
/*@ extract src/consensus/blockstore/slot_block_data.rs :: impl BlockData/fn try_reconstruct_block
as canary_try_reconstruct_block
expect-fail
ret r
rewrite[R8] `let slice_roots = self.slices.values().map(|s| s.slice_root()); let tree = DoubleMerkleTree::new(slice_roots);` => `let tree = verif_build_double_tree(&self.slices);`
rewrite[R4] `for (ind, slice) in &self.slices {` => `let verif_entries = verif_slice_entries(&self.slices); let mut verif_k: usize = 0; while verif_k < verif_entries.len() { let (ind, slice) = verif_entries[verif_k]; verif_k += 1;`
rewrite[R9] `first_slice .parent .clone()` => `verif_clone_opt_block_id(&first_slice.parent)`
rewrite[R9] `slice.parent.clone()` => `verif_clone_opt_block_id(&slice.parent)`
rewrite[R9] `new_parent == parent` => `verif_block_id_eq(&new_parent, &parent)`
rewrite[R8] `let config = DefaultConfig::default().with_preallocation_size_limit::<MAX_DATA_PER_SLICE>(); let mut txs = match wincode::config::deserialize_exact(&slice.data, config) {` => `let mut txs = match verif_decode_transactions(&slice.data) {`
rewrite[R8] `BlockInfo::from(&block)` => `verif_block_info_from(&block)`
rewrite[R8] `for slice_index in last_slice.until() { self.slices.remove(&slice_index); }` => `verif_remove_slices_until(&mut self.slices, last_slice);`
requires
        old(self).slices@.dom().finite(),
ensures
        !(r is Complete),
loop 0
        invariant
            true,
        decreases verif_entries@.len() - verif_k,
@*/
}

} // mod code

} // verus!

fn main() {}
