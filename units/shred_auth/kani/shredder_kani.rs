// Kani harness for src/shredder.rs (module `shredder::verif_kani`).
use super::*;
use crate::crypto::Hash;
use crate::types::SliceIndex;
use crate::Slot;
use crate::types::slice_index::MAX_SLICES_PER_BLOCK;

fn any_header() -> SliceHeader {
    let idx: usize = kani::any();
    kani::assume(idx < MAX_SLICES_PER_BLOCK);
    SliceHeader {
        slot: Slot::new(kani::any()),
        // SAFETY: SliceIndex is #[repr(transparent)] over usize and idx respects its range invariant
        slice_index: unsafe { std::mem::transmute::<usize, SliceIndex>(idx) },
        is_last: kani::any(),
    }
}

fn any_root() -> SliceRoot {
    let bytes: [u8; 32] = kani::any();
    // SAFETY: Hash is a single-field wrapper around [u8; 32]
    let h: Hash = unsafe { std::mem::transmute::<[u8; 32], Hash>(bytes) };
    SliceRoot::from(h)
}

// COMPLETE (loop-free, full domain): the signed commitment is injective in
// (slot, slice index, is_last, slice root).
#[kani::proof]
#[kani::unwind(50)]
fn kani_slice_commitment_injective() {
    let h1 = any_header();
    let h2 = any_header();
    let r1 = any_root();
    let r2 = any_root();
    let c1 = SliceCommitment::new(&h1, &r1);
    let c2 = SliceCommitment::new(&h2, &r2);
    if c1 == c2 {
        assert!(h1.slot == h2.slot);
        assert!(h1.slice_index == h2.slice_index);
        assert!(h1.is_last == h2.is_last);
        assert!(r1 == r2);
    }
}
