// Unit `shred_auth`: authentication of a received shred (src/shredder/validated_shred.rs).  Serves C12.
use vstd::prelude::*;

verus! {

/*@ include units/common/base_types.rs @*/

// ---------------------------------------------------------------- types (src/shredder.rs, src/types/*)
/*@ extract src/types/slice_index.rs :: struct SliceIndex
derive Clone, Copy
traits Eq
@*/
/*@ extract src/shredder/shred_index.rs :: struct ShredIndex
derive Clone, Copy
traits Eq
@*/
/*@ extract src/types/slice.rs :: struct SliceHeader
derive Clone, Copy
@*/
/*@ extract src/crypto/merkle.rs :: struct SliceRoot
derive
traits Clone Eq
@*/
/*@ extract src/shredder.rs :: struct ShredPayload
derive
@*/
/*@ extract src/shredder.rs :: enum ShredPayloadType
derive
@*/
/*@ extract src/shredder.rs :: struct Shred
derive
@*/
/*@ extract src/shredder/validated_shred.rs :: enum ShredValidationError
derive Clone, Copy
@*/
/*@ extract src/shredder/validated_shred.rs :: struct ValidatedShred
derive
@*/

// TRUSTED opaque stand-ins: Ed25519 signature / key (ed25519-zebra), slice Merkle proof.
#[verifier::external_body]
pub struct Signature { _p: () }
#[verifier::external_body]
pub struct PublicKey { _p: () }
#[verifier::external_body]
pub struct SliceProof { _p: () }

// ASSUMPTION (Ed25519 unforgeability is not a program property): uninterpreted verification predicate.
pub uninterp spec fn ed_ok(sig: Signature, msg: Seq<u8>, pk: PublicKey) -> bool;

impl Signature {
    #[verifier::external_body]
    pub fn verify_bytes(&self, msg: &[u8], pk: &PublicKey) -> (r: bool)
        ensures r == ed_ok(*self, msg@, *pk)
    { unimplemented!() }
}

// The root derived from (payload bytes, shred index, Merkle path): unit `merkle` (C15) proves what a
// derived root binds; here it is an uninterpreted function of exactly these three inputs.
pub uninterp spec fn spec_derive_root(data: Seq<u8>, index: int, path: SliceProof) -> SliceRoot;

// The 49 signed bytes: slot || slice index || is_last || slice root.  Uninterpreted here; the Kani harness
// kani_slice_commitment_injective checks on the real SliceCommitment::new that equal bytes imply equal
// (slot, slice index, is_last, root).
pub uninterp spec fn spec_commitment_bytes(slot: Slot, slice_index: SliceIndex, is_last: bool, root: SliceRoot) -> Seq<u8>;

pub struct SliceCommitment(pub [u8; 49]);
impl vstd::std_specs::cmp::PartialEqSpecImpl for SliceCommitment {
    open spec fn obeys_eq_spec() -> bool { true }
    open spec fn eq_spec(&self, other: &SliceCommitment) -> bool { self.0@ == other.0@ }
}
impl PartialEq for SliceCommitment {
    #[verifier::external_body]
    fn eq(&self, other: &SliceCommitment) -> (r: bool) { unimplemented!() }
}
impl SliceCommitment {
    // ASSUMED contract of SliceCommitment::new (byte copies into a fixed array)
    #[verifier::external_body]
    pub fn new(header: &SliceHeader, slice_root: &SliceRoot) -> (r: SliceCommitment)
        ensures r.0@ == spec_commitment_bytes(header.slot, header.slice_index, header.is_last, *slice_root)
    { unimplemented!() }
    #[verifier::external_body]
    pub fn as_ref(&self) -> (r: &[u8])
        ensures r@ == self.0@
    { unimplemented!() }
}

impl Shred {
    pub open spec fn spec_payload(&self) -> ShredPayload {
        match self.payload_type { ShredPayloadType::Coding(p) => p, ShredPayloadType::Data(p) => p }
    }
    // the slice root this shred's payload, index and proof re-derive
    pub open spec fn spec_slice_root(&self) -> SliceRoot {
        spec_derive_root(self.spec_payload().data@, self.spec_payload().shred_index.0 as int, self.merkle_path)
    }
    // exactly what the leader must have signed for this shred
    pub open spec fn spec_signed_bytes(&self) -> Seq<u8> {
        let h = self.spec_payload().header;
        spec_commitment_bytes(h.slot, h.slice_index, h.is_last, self.spec_slice_root())
    }
}

pub mod code {
use super::*;

impl Shred {
/*@ extract src/shredder.rs :: impl Shred/fn payload
props C12
ret r
ensures
        *r == self.spec_payload(),
@*/
    // ASSUMED contract: SliceMerkleTree::derive_root(&payload.data, *payload.shred_index, &merkle_path)
    #[verifier::external_body]
    pub fn slice_root(&self) -> (r: SliceRoot)
        ensures r == self.spec_slice_root()
    { unimplemented!() }
}

impl ValidatedShred {
/*@ extract src/shredder/validated_shred.rs :: impl ValidatedShred/fn try_new
props C12
ret r
ensures
        // [C12.accepted_only_if_leader_signed_exact_commitment]
        r matches Ok(v) ==> v.shred == shred && v.slice_root == shred.spec_slice_root()
            && ((cached_commitment matches Some(c) && c.0@ == shred.spec_signed_bytes()) || ed_ok(shred.slice_sig, shred.spec_signed_bytes(), *pk)),
        // [C12.cache_shortcuts_only_identical_commitment]
        (cached_commitment matches Some(c) && c.0@ != shred.spec_signed_bytes()) ==> r is Err,
        // [C12.two_signed_commitments_are_equivocation]
        (cached_commitment matches Some(c) && c.0@ != shred.spec_signed_bytes() && ed_ok(shred.slice_sig, shred.spec_signed_bytes(), *pk))
            ==> r == Err::<ValidatedShred, ShredValidationError>(ShredValidationError::Equivocation),
        // [C12.unsigned_is_rejected]
        (!ed_ok(shred.slice_sig, shred.spec_signed_bytes(), *pk) && !(cached_commitment matches Some(c) && c.0@ == shred.spec_signed_bytes()))
            ==> r == Err::<ValidatedShred, ShredValidationError>(ShredValidationError::InvalidSignature),
        // [C12.valid_shred_of_correct_leader_never_reported]
        (ed_ok(shred.slice_sig, shred.spec_signed_bytes(), *pk) && (cached_commitment is None || (cached_commitment matches Some(c) && c.0@ == shred.spec_signed_bytes())))
            ==> r is Ok,
@*/

/*@ extract src/shredder/validated_shred.rs :: impl ValidatedShred/fn commitment
props C12
ret r
ensures
        r.0@ == spec_commitment_bytes(self.shred.spec_payload().header.slot, self.shred.spec_payload().header.slice_index,
                                      self.shred.spec_payload().header.is_last, self.slice_root),
@*/

// Canary: MUST fail (claims a cached commitment always shortcuts).
/*@ extract src/shredder/validated_shred.rs :: impl ValidatedShred/fn try_new
as canary_try_new
expect-fail
ret r
ensures
        cached_commitment is Some ==> r is Ok,
@*/
}

} // mod code

} // verus!

fn main() {}
