// Unit `merkle_build`: Merkle tree construction and proof generation (src/crypto/merkle.rs MerkleTree::{new, get_root,
// height, create_proof}).  Serves C15, the completeness half: the proof an honest node creates for the leaf at position
// i verifies for exactly that position (and as "last leaf" for the last one).
//
// Rewrite R6 (generic erasure, as in unit `merkle`): verified for Leaf = Vec<u8>, Root = Hash, Proof = Vec<Hash>; the
// `levels` index (a SmallVec) is read as a Vec, the PhantomData marker is dropped.
use vstd::prelude::*;

verus! {

/*@ include units/common/base_types.rs @*/

/*@ include units/common/merkle_spec.rs @*/

/*@ include units/common/merkle_tree_spec.rs @*/

pub assume_specification [usize::div_ceil] (a: usize, b: usize) -> (r: usize)
    requires b > 0,
    ensures r as int == (if a % b == 0 { a as int / b as int } else { a as int / b as int + 1 });

// the leaf hashes of the data, in order: `data.into_iter().map(|leaf| Self::hash_leaf(leaf)).collect::<Vec<Hash>>()` (R8);
// hash_leaf(leaf) = hash_all(&[&LEAF_LABEL, leaf]) is the idealised leaf hash
#[verifier::external_body]
pub fn verif_hash_leaves(data: &Vec<Vec<u8>>) -> (r: Vec<Hash>)
    ensures r@.len() == data@.len(), forall|i: int| 0 <= i < data@.len() ==> #[trigger] r@[i] == spec_hash_leaf(data@[i]@),
{ unimplemented!() }
// `nodes.reserve(num_inner_nodes)` with the count computed by an ilog2 / div_ceil loop (R8): a capacity hint, no effect on
// the contents
#[verifier::external_body]
pub fn verif_reserve_inner_nodes(nodes: &mut Vec<Hash>)
    ensures final(nodes)@ == old(nodes)@,
{ unimplemented!() }
// `n.try_into().expect("too many leaves")` for usize -> u32 (R8): the expect is a proof obligation
pub fn verif_to_u32(n: usize) -> (r: u32)
    requires n <= u32::MAX,
    ensures r == n,
{ n as u32 }

pub proof fn lemma_pow2_pos(n: nat) ensures pow2(n) > 0 decreases n { if n > 0 { lemma_pow2_pos((n - 1) as nat); } }
pub proof fn lemma_pow2_mono(a: nat, b: nat)
    requires a <= b,
    ensures pow2(a) <= pow2(b),
    decreases b,
{
    if a < b { lemma_pow2_mono(a, (b - 1) as nat); }
}
pub proof fn lemma_pow2_30()
    ensures pow2(30) == 0x4000_0000,
{
    reveal_with_fuel(pow2, 31);
}

// offsets of the levels built so far lie inside the node vector, so appending nodes keeps every finished level intact
pub open spec fn levels_inside(nodes: Seq<Hash>, levels: Seq<(u32, u32)>) -> bool {
    forall|k: int| 0 <= k < levels.len() ==> (#[trigger] levels[k]).0 + levels[k].1 <= nodes.len()
}
pub proof fn lemma_level_ok_extend(nodes0: Seq<Hash>, nodes1: Seq<Hash>, levels: Seq<(u32, u32)>, k: int)
    requires
        0 <= k < levels.len() - 1, level_ok(nodes0, levels[k], levels[k + 1], k as nat),
        levels_inside(nodes0, levels),
        nodes0.len() <= nodes1.len(), forall|x: int| 0 <= x < nodes0.len() ==> nodes1[x] == nodes0[x],
    ensures level_ok(nodes1, levels[k], levels[k + 1], k as nat),
{
    let lo = levels[k]; let hi = levels[k + 1];
    assert(lo.0 + lo.1 <= nodes0.len());
    assert(hi.0 + hi.1 <= nodes0.len());
    assert forall|j: int| 0 <= j < hi.1 implies #[trigger] nodes1[hi.0 + j] == spec_hash_pair(nodes1[lo.0 + 2 * j],
            if 2 * j + 1 < lo.1 { nodes1[lo.0 + 2 * j + 1] } else { spec_empty_root(k as nat) }) by {
        assert(nodes0[hi.0 + j] == spec_hash_pair(nodes0[lo.0 + 2 * j],
            if 2 * j + 1 < lo.1 { nodes0[lo.0 + 2 * j + 1] } else { spec_empty_root(k as nat) }));
        assert(2 * j < lo.1) by { assert(j < (lo.1 + 1) / 2); }
    }
}

pub proof fn lemma_one_shl_is_pow2(n: usize)
    requires n <= 32,
    ensures (1usize << n) as nat == pow2(n as nat),
    decreases n
{
    if n == 0 {
        assert(1usize << 0usize == 1usize) by (bit_vector);
    } else {
        let m = (n - 1) as usize;
        lemma_one_shl_is_pow2(m);
        assert((1usize << n) == 2 * (1usize << m)) by (bit_vector) requires n <= 32, n >= 1, m == n - 1;
    }
}

pub proof fn lemma_pos_zero(index: nat)
    ensures index / pow2(0) == index,
{
    let p0 = pow2(0);
    assert(p0 == 1) by { reveal_with_fuel(pow2, 2); }
    assert(index / 1 == index);
}
pub proof fn lemma_pos_step(index: nat, k: nat)
    ensures (index / pow2(k)) / 2 == index / pow2(k + 1),
{
    lemma_pow2_pos(k);
    assert((index / pow2(k)) / 2 == index / pow2(k + 1)) by (nonlinear_arith)
        requires pow2(k + 1) == 2 * pow2(k), pow2(k) > 0;
}

// the ancestor on level k lies inside the level (and is its last node if the leaf is the last leaf)
pub proof fn lemma_pos_in_level(t: MerkleTree, index: nat, k: nat)
    requires t.wf(), index < t.num_leaves(), k <= t.spec_height(),
    ensures
        t.pos(index, k) < t.levels@[k as int].1,
        index == t.num_leaves() - 1 ==> t.pos(index, k) == t.levels@[k as int].1 - 1,
        t.levels@[k as int].0 + t.levels@[k as int].1 <= t.nodes@.len(),
    decreases k,
{
    if k == 0 {
        lemma_pos_zero(index);
        lemma_offsets(t, 0);
    } else {
        lemma_pos_in_level(t, index, (k - 1) as nat);
        lemma_pos_step(index, (k - 1) as nat);
        assert(lvl_ok(t.nodes@, t.levels@, k - 1));
        lemma_offsets(t, k);
        let prev = t.pos(index, (k - 1) as nat);
        let plen = t.levels@[k - 1].1 as int;
        assert(t.pos(index, k) == prev / 2);
        assert(t.levels@[k as int].1 as int == (plen + 1) / 2);
        if index == t.num_leaves() - 1 {
            assert(prev == plen - 1);
            assert((plen - 1) / 2 == (plen + 1) / 2 - 1);
        }
    }
}
// level offsets are increasing and end inside the node vector
pub proof fn lemma_offsets(t: MerkleTree, k: nat)
    requires t.wf(), k <= t.spec_height(),
    ensures t.levels@[k as int].0 + t.levels@[k as int].1 <= t.nodes@.len(),
    decreases t.spec_height() - k,
{
    if k < t.spec_height() {
        lemma_offsets(t, k + 1);
        assert(lvl_ok(t.nodes@, t.levels@, k as int));
    }
}

// one step up: hashing the ancestor on level k with its sibling (on the side the index bit says) gives the ancestor on level k+1
pub proof fn lemma_step_up(t: MerkleTree, index: nat, k: nat)
    requires t.wf(), index < t.num_leaves(), k < t.spec_height(),
    ensures
        t.node_at(index, k + 1) == (if t.pos(index, k) % 2 == 0 { spec_hash_pair(t.node_at(index, k), t.sib(index, k)) }
                                    else { spec_hash_pair(t.sib(index, k), t.node_at(index, k)) }),
{
    let ik = t.pos(index, k);
    lemma_pos_in_level(t, index, k);
    lemma_pos_step(index, k);
    let lo = t.levels@[k as int];
    let hi = t.levels@[k as int + 1];
    assert(lvl_ok(t.nodes@, t.levels@, k as int));
    let j = (ik / 2) as int;
    assert(0 <= j < hi.1);
    assert(t.nodes@[hi.0 + j] == spec_hash_pair(t.nodes@[lo.0 + 2 * j], if 2 * j + 1 < lo.1 { t.nodes@[lo.0 + 2 * j + 1] } else { spec_empty_root(k) }));
    assert(t.pos(index, k + 1) == j);
    if ik % 2 == 0 {
        assert(2 * j == ik);
    } else {
        assert(2 * j + 1 == ik);
    }
}

// THEOREM part 1: following the created proof from the leaf hash re-derives every ancestor and finally the root
pub proof fn lemma_created_proof_derives_root(t: MerkleTree, index: nat, p: Seq<Hash>, k: nat)
    requires t.wf(), index < t.num_leaves(), t.is_proof_for(index, p), k <= t.spec_height(),
    ensures spec_derive(t.node_at(index, k), t.pos(index, k), p.skip(k as int)) == t.spec_root(),
    decreases t.spec_height() - k,
{
    let hgt = t.spec_height();
    if k == hgt {
        lemma_pos_in_level(t, index, k);
        assert(p.skip(k as int).len() == 0);
        assert(t.pos(index, k) == 0);
    } else {
        let q = p.skip(k as int);
        assert(q[0] == p[k as int]);
        assert(p[k as int] == t.sib(index, k));
        assert(q.skip(1) =~= p.skip(k as int + 1));
        lemma_pos_step(index, k);
        lemma_step_up(t, index, k);
        lemma_created_proof_derives_root(t, index, p, k + 1);
    }
}

// THEOREM part 2: for the last leaf every right sibling on the way up is the canonical empty root
pub proof fn lemma_created_proof_last(t: MerkleTree, index: nat, p: Seq<Hash>, k: nat)
    requires t.wf(), index == t.num_leaves() - 1, t.is_proof_for(index, p), k <= t.spec_height(),
    ensures spec_right_siblings_empty(t.pos(index, k), p.skip(k as int), k),
    decreases t.spec_height() - k,
{
    if k < t.spec_height() {
        let q = p.skip(k as int);
        assert(q[0] == p[k as int]);
        assert(q.skip(1) =~= p.skip(k as int + 1));
        lemma_pos_step(index, k);
        lemma_pos_in_level(t, index, k);
        lemma_created_proof_last(t, index, p, k + 1);
    }
}

// the leaf index fits the proof length
pub proof fn lemma_index_in_width(t: MerkleTree, index: nat)
    requires t.wf(), index < t.num_leaves(),
    ensures index < pow2(t.spec_height()),
{
    lemma_pos_in_level(t, index, t.spec_height());
    lemma_pow2_pos(t.spec_height());
    assert(index / pow2(t.spec_height()) == 0);
    assert(index < pow2(t.spec_height())) by (nonlinear_arith)
        requires index / pow2(t.spec_height()) == 0, pow2(t.spec_height()) > 0;
}

pub proof fn lemma_xor_one(i: usize)
    requires i < usize::MAX,
    ensures (i ^ 1) == (if i % 2 == 0 { (i + 1) as usize } else { (i - 1) as usize }),
{
    assert((i ^ 1usize) == (if i % 2 == 0 { (i + 1) as usize } else { (i - 1) as usize })) by (bit_vector) requires i < usize::MAX;
}



// what create_proof has collected is accepted (bridges level 0 to the statement of the theorem)
pub proof fn lemma_final(t: MerkleTree, index: nat, p: Seq<Hash>)
    requires t.wf(), index < t.num_leaves(), t.is_proof_for(index, p),
    ensures
        spec_derive(t.nodes@[index as int], index, p) == t.spec_root(),
        index == t.num_leaves() - 1 ==> spec_right_siblings_empty(index, p, 0),
{
    lemma_pos_zero(index);
    assert(t.pos(index, 0) == index);
    assert(t.node_at(index, 0) == t.nodes@[index as int]);
    assert(p.skip(0) =~= p);
    lemma_created_proof_derives_root(t, index, p, 0);
    if index == t.num_leaves() - 1 { lemma_created_proof_last(t, index, p, 0); }
}

pub mod code {
use super::*;

impl MerkleTree {
    #[verifier::external_body]
    pub fn hash_pair(left: &Hash, right: &Hash) -> (r: Hash)
        ensures r == spec_hash_pair(*left, *right)
    { unimplemented!() }

/*@ extract src/crypto/merkle.rs :: impl MerkleTree<Leaf, Root, Proof>/fn height
props C15
ret r
requires
        self.levels@.len() >= 1,
ensures
        r == self.levels@.len() - 1,
@*/

/*@ extract src/crypto/merkle.rs :: impl MerkleTree<Leaf, Root, Proof>/fn get_root
props C15
ret r
rewrite[R6] `root_hash.into()` => `root_hash`
requires
        self.nodes@.len() >= 1,
ensures
        r == self.spec_root(),
@*/
}

impl MerkleTree {
/*@ extract src/crypto/merkle.rs :: impl MerkleTree<Leaf, Root, Proof>/fn new
props C15
ret r
prefix #[verifier::rlimit(40)]
sig `new<'a>(data: impl IntoIterator<Item = &'a Leaf>) -> Self where Leaf: 'a,` => `new(data: &Vec<Vec<u8>>) -> Self`
rewrite[R8] `let mut nodes = data .into_iter() .map(|leaf| Self::hash_leaf(leaf)) .collect::<Vec<Hash>>();` => `let mut nodes = verif_hash_leaves(data);`
rewrite[R8] `let mut num_inner_nodes = 1; for i in 1..=nodes.len().ilog2() { num_inner_nodes += nodes.len().div_ceil(1 << i); } nodes.reserve(num_inner_nodes);` => `verif_reserve_inner_nodes(&mut nodes);`
rewrite[R10] `let mut levels = SmallVec::new();` => `let mut levels: Vec<(u32, u32)> = Vec::new();`
rewrite[R8] `nodes.len().try_into().expect("too many leaves")` => `verif_to_u32(nodes.len())`
rewrite[R4] `for i in (left..right).step_by(2) {` => `let mut verif_i = left; while verif_i < right { let i = verif_i; verif_i += 2;`
rewrite[R6] `_type: PhantomData,` => ``
requires
        // machine arithmetic: level offsets are stored as u32 (and the leaf count is converted with an `expect`)
        1 <= data@.len() <= 0x4000_0000,
ensures
        // [C15.built_tree_is_the_pairwise_hash_tree_of_the_leaves]
        r.wf(),
        r.num_leaves() == data@.len(),
        forall|i: int| 0 <= i < data@.len() ==> #[trigger] r.nodes@[i] == spec_hash_leaf(data@[i]@),
before `while len > 1 {`
        let ghost n = nodes@.len();
        proof { lemma_pow2_30(); }
loop 0
        invariant
            n == data@.len(), 1 <= n <= 0x4000_0000,
            levels@.len() == h + 1, h <= 30,
            levels@[0] == (0u32, n as u32),
            forall|k: int| 0 <= k < levels@.len() - 1 ==> #[trigger] lvl_ok(nodes@, levels@, k),
            levels@[h as int] == (left as u32, len as u32),
            levels_inside(nodes@, levels@),
            right == left + len, right == nodes@.len(), len >= 1,
            left + 2 * len <= 2 * n + h,
            len <= pow2((30 - h) as nat),
            forall|i: int| 0 <= i < n ==> #[trigger] nodes@[i] == spec_hash_leaf(data@[i]@),
        decreases len
before `let mut verif_i = left;`
        let ghost nodes0 = nodes@;
        let ghost levels0 = levels@;
        proof {
            if h >= 30 { assert(pow2(0) == 1); }
            assert(pow2((30 - h) as nat) == 2 * pow2((29 - h) as nat));
        }
loop 1
        invariant
            left <= verif_i <= right + 1, (verif_i - left) % 2 == 0,
            right == left + len, len >= 2, h < 30, right == nodes0.len(),
            nodes@.len() == right + (verif_i - left) / 2,
            right <= 0x8000_0100,
            forall|x: int| 0 <= x < right ==> nodes@[x] == nodes0[x],
            forall|j: int| 0 <= j < (verif_i - left) / 2 ==> #[trigger] nodes@[right + j] == spec_hash_pair(nodes0[left + 2 * j],
                if 2 * j + 1 < len { nodes0[left + 2 * j + 1] } else { spec_empty_root(h as nat) }),
        ensures verif_i >= right
        decreases right + 1 - verif_i
before `len = len`
        proof {
            assert forall|i: int| 0 <= i < n implies #[trigger] nodes@[i] == spec_hash_leaf(data@[i]@) by { assert(nodes@[i] == nodes0[i]); }
        }
        let ghost lo = (left as u32, len as u32);
        let ghost left0 = left;
        let ghost len0 = len;
        let ghost cnt = (verif_i - left) / 2;
        proof {
            assert(verif_i >= right);
            assert(cnt == (if len0 % 2 == 0 { len0 as int / 2 } else { len0 as int / 2 + 1 }));
        }
after `levels.push((left as u32, len as u32));`
        proof {
            let hi = (left as u32, len as u32);
            assert(len == cnt);
            assert(hi.0 == lo.0 + lo.1);
            assert(hi.1 == (lo.1 + 1) / 2);
            assert forall|j: int| 0 <= j < hi.1 implies #[trigger] nodes@[hi.0 + j] == spec_hash_pair(nodes@[lo.0 + 2 * j],
                    if 2 * j + 1 < lo.1 { nodes@[lo.0 + 2 * j + 1] } else { spec_empty_root((h - 1) as nat) }) by {
                assert(nodes@[left + j] == spec_hash_pair(nodes0[left0 + 2 * j],
                    if 2 * j + 1 < len0 { nodes0[left0 + 2 * j + 1] } else { spec_empty_root((h - 1) as nat) }));
                assert(nodes@[left0 + 2 * j] == nodes0[left0 + 2 * j]);
                if 2 * j + 1 < len0 { assert(nodes@[left0 + 2 * j + 1] == nodes0[left0 + 2 * j + 1]); }
            }
            assert(level_ok(nodes@, lo, hi, (h - 1) as nat));
            assert forall|k: int| 0 <= k < levels@.len() - 1 implies #[trigger] lvl_ok(nodes@, levels@, k) by {
                if k < h - 1 {
                    assert(levels@[k] == levels0[k] && levels@[k + 1] == levels0[k + 1]);
                    assert(lvl_ok(nodes0, levels0, k));
                    lemma_level_ok_extend(nodes0, nodes@, levels0, k);
                } else {
                    assert(levels@[k] == lo && levels@[k + 1] == hi);
                }
            }
        }
@*/

/*@ extract src/crypto/merkle.rs :: impl MerkleTree<Leaf, Root, Proof>/fn create_proof
props C15
ret r
sig `-> Proof` => `-> Vec<Hash>`
rewrite[R10] `let mut proof = Vec::with_capacity(self.height());` => `let mut proof: Vec<Hash> = Vec::with_capacity(self.height());`
rewrite[R4] `for (h, (offset, len)) in self.levels.iter().enumerate().take(self.height()) {` => `let verif_ht = self.height(); let mut verif_h: usize = 0; while verif_h < verif_ht { let h = verif_h; let (offset, len) = &self.levels[verif_h]; verif_h += 1;`
rewrite[R6] `proof.into()` => `proof { lemma_final(*self, index as nat, proof@); } proof`
requires
        self.wf(),
        // the two assert!s of create_proof: the second is this precondition, the first follows from it
        index < self.num_leaves(),
ensures
        self.is_proof_for(index as nat, r@),
        // [C15.created_proof_verifies_at_its_position] exactly the acceptance condition of check_hash_proof (unit merkle):
        // length within the supported height, index within the width, and the re-derived root is the tree's root
        r@.len() <= 31,
        (index as nat) < pow2(r@.len()),
        spec_derive(self.nodes@[index as int], index as nat, r@) == self.spec_root(),
        // [C15.created_proof_of_the_last_leaf_verifies_as_last] ... and of check_hash_proof_last for the last leaf
        index == self.num_leaves() - 1 ==> spec_right_siblings_empty(index as nat, r@, 0),
before `vassert(index < 1 << self.height());`
        proof {
            lemma_index_in_width(*self, index as nat);
            lemma_one_shl_is_pow2((self.levels@.len() - 1) as usize);
        }
before `let verif_ht = self.height();`
        proof { assert(pow2(0) == 1); }
loop 0
        invariant
            self.wf(), index < self.num_leaves(), verif_ht == self.spec_height(), verif_h <= verif_ht,
            i == self.pos(index as nat, verif_h as nat),
            proof@.len() == verif_h,
            forall|k: int| 0 <= k < verif_h ==> #[trigger] proof@[k] == self.sib(index as nat, k as nat),
        decreases verif_ht - verif_h
after `verif_h += 1;`
        proof {
            lemma_pos_in_level(*self, index as nat, h as nat);
            lemma_xor_one(i);
            lemma_pos_step(index as nat, h as nat);
        }
@*/
}

// the verifying side: contracts PROVED in unit `merkle` on the real bodies
pub type Root = Hash;
pub type Proof = Vec<Hash>;
impl MerkleTree {
/*@ stub units/merkle/unit.rs :: src/crypto/merkle.rs :: impl MerkleTree<Leaf, Root, Proof>/fn check_hash_proof @*/
/*@ stub units/merkle/unit.rs :: src/crypto/merkle.rs :: impl MerkleTree<Leaf, Root, Proof>/fn check_hash_proof_last @*/
}

// THEOREM [C15.honest_proofs_verify] as a verified client of the contracts: for a tree built by MerkleTree::new over any
// non-empty list of leaves, the proof create_proof makes for leaf i is accepted by check_hash_proof for (leaf hash i, i, root),
// and for the last leaf also by check_hash_proof_last.  Together with the soundness theorems of unit `merkle` (an accepted
// proof pins leaf AND position) this is "verify exactly for the leaf at the stated position".
pub fn theorem_honest_proofs_verify(data: &Vec<Vec<u8>>, i: usize)
    requires 1 <= data@.len() <= 0x4000_0000, i < data@.len(),
{
    let tree = MerkleTree::new(data);
    let root = tree.get_root();
    let proof = tree.create_proof(i);
    proof { lemma_offsets(tree, 0); }
    let leaf_hash = tree.nodes[i].clone();
    assert(leaf_hash == spec_hash_leaf(data@[i as int]@));
    let ok = MerkleTree::check_hash_proof(leaf_hash, i, &root, &proof);
    assert(ok);
    if i == data.len() - 1 {
        let leaf_hash2 = tree.nodes[i].clone();
        let ok_last = MerkleTree::check_hash_proof_last(leaf_hash2, i, &root, &proof);
        assert(ok_last);
    }
}

impl MerkleTree {
// Canary: get_root under a false contract (claims the root is the first leaf hash); MUST fail.
/*@ extract src/crypto/merkle.rs :: impl MerkleTree<Leaf, Root, Proof>/fn get_root
as canary_get_root
expect-fail
ret r
rewrite[R6] `root_hash.into()` => `root_hash`
requires
        self.nodes@.len() >= 2,
ensures
        r == self.nodes@[0],
@*/
}

} // mod code

} // verus!
fn main() {}
