// Unit U7 `validated`: admission of votes and certificates (src/consensus/validated_vote.rs,
// validated_cert.rs, vote.rs check_sig/payload, cert.rs check_sig).  Serves C09 (and the receiver side of C03).
use vstd::prelude::*;

verus! {

/*@ include units/common/base_types.rs @*/
/*@ include units/common/quorum_core.rs @*/
/*@ include units/common/vote_types.rs @*/
/*@ include units/common/sums.rs @*/

/*@ extract src/consensus/vote.rs :: enum VotePayload
derive
traits Clone
@*/

// ---------------------------------------------------------------- idealised signature schemes (ASSUMED)
// "sig is pk's signature over exactly this payload" / "agg verifies for exactly the validators marked
// as signers over exactly this payload".  Unforgeability of BLS (blst) is not a program property.
pub uninterp spec fn sig_ok(sig: IndividualSignature, payload: VotePayload, pk: PublicKey) -> bool;
pub uninterp spec fn agg_ok(agg: AggregateSignature, payload: VotePayload, pks: Seq<PublicKey>) -> bool;

#[verifier::external_body]
pub struct AggregateSignature { _p: () }
impl AggregateSignature {
    pub uninterp spec fn signers(&self) -> ISet<int>;
    pub uninterp spec fn bitmask_len(&self) -> nat;

    // ASSUMED contract of AggregateSignature::verify (BLS fast_aggregate_verify over the marked keys);
    // the length guard is the first statement of verify_bytes.
    // ASSUMED contract of AggregateSignature::is_signer (a bitmask lookup; bitvec is out of reach of both back ends)
    #[verifier::external_body]
    pub fn is_signer(&self, v: ValidatorIndex) -> (r: bool)
        ensures r == self.signers().contains(v.0 as int)
    { unimplemented!() }
    #[verifier::external_body]
    pub fn verify(&self, msg: &VotePayload, pks: &[PublicKey]) -> (r: bool)
        ensures
            r == agg_ok(*self, *msg, pks@),
            self.bitmask_len() != pks@.len() ==> !r,
    { unimplemented!() }
}
impl IndividualSignature {
    // ASSUMED contract of IndividualSignature::verify (BLS verify of msg.bytes_to_sign())
    #[verifier::external_body]
    pub fn verify(&self, msg: &VotePayload, pk: &PublicKey) -> (r: bool)
        ensures r == sig_ok(*self, *msg, *pk)
    { unimplemented!() }
}

// ---------------------------------------------------------------- C09 specification (from the statement)
// the payload a vote of this kind, slot and block hash must be signed over
pub open spec fn spec_payload(v: Vote) -> VotePayload {
    match v {
        Vote::Notar(x) => VotePayload::Notar(x.slot, x.block_hash),
        Vote::NotarFallback(x) => VotePayload::NotarFallback(x.slot, x.block_hash),
        Vote::Skip(x) => VotePayload::Skip(x.slot),
        Vote::SkipFallback(x) => VotePayload::SkipFallback(x.slot),
        Vote::Final(x) => VotePayload::Final(x.slot),
    }
}
pub open spec fn spec_sig(v: Vote) -> IndividualSignature {
    match v {
        Vote::Notar(x) => x.sig,
        Vote::NotarFallback(x) => x.sig,
        Vote::Skip(x) => x.sig,
        Vote::SkipFallback(x) => x.sig,
        Vote::Final(x) => x.sig,
    }
}
// domain separation: different kind, slot or hash => different payload
pub proof fn lemma_payload_binds_kind_slot_hash(a: Vote, b: Vote)
    ensures
        // [C09.payload_binds_kind_slot_hash]
        spec_payload(a) == spec_payload(b) ==> (a.spec_kind() == b.spec_kind() && a.spec_slot() == b.spec_slot()),
{
}

/*@ extract src/consensus/validated_vote.rs :: enum VoteValidationError
derive Clone, Copy
@*/
/*@ extract src/consensus/validated_vote.rs :: struct ValidatedVote
derive
@*/
/*@ extract src/consensus/validated_cert.rs :: enum CertValidationError
derive Clone, Copy
@*/
/*@ extract src/consensus/validated_cert.rs :: struct ValidatedCert
derive
@*/
/*@ extract src/consensus/cert.rs :: struct NotarCert
derive
@*/
/*@ extract src/consensus/cert.rs :: struct NotarFallbackCert
derive
@*/
/*@ extract src/consensus/cert.rs :: struct SkipCert
derive
@*/
/*@ extract src/consensus/cert.rs :: struct FastFinalCert
derive
@*/
/*@ extract src/consensus/cert.rs :: struct FinalCert
derive
@*/
/*@ extract src/consensus/cert.rs :: enum Cert
derive
@*/

pub open spec fn opt_signers(a: Option<AggregateSignature>) -> ISet<int> {
    match a { Some(x) => x.signers(), None => ISet::<int>::empty() }
}
pub open spec fn opt_agg_ok(a: Option<AggregateSignature>, payload: VotePayload, pks: Seq<PublicKey>) -> bool {
    match a { Some(x) => agg_ok(x, payload, pks), None => true }
}
pub open spec fn spec_pks(vals: Seq<ValidatorInfo>) -> Seq<PublicKey> {
    Seq::new(vals.len(), |i: int| vals[i].voting_pubkey)
}
pub open spec fn spec_stakes(vals: Seq<ValidatorInfo>) -> Seq<int> {
    Seq::new(vals.len(), |i: int| vals[i].stake.0 as int)
}
// distinct stake of the validators of this epoch marked as signers (in either half), regardless of
// the stake figure the certificate declares
pub open spec fn signer_stake(vals: Seq<ValidatorInfo>, s: ISet<int>) -> int {
    sum_where(spec_stakes(vals), vals.len() as int, |v: int| s.contains(v))
}

// what EpochInfo::new establishes (it asserts id == index and sums the stakes): ASSUMED as the type invariant of EpochInfo
pub open spec fn epoch_ok(ei: &EpochInfo) -> bool {
    &&& forall|i: int| 0 <= i < ei.validators@.len() ==> (#[trigger] ei.validators@[i]).id.0 == i
    &&& sum_where(spec_stakes(ei.validators@), ei.validators@.len() as int, all_true()) == ei.total_stake.0
}
// a partial sum over a prefix and a sub-predicate never exceeds the total
pub proof fn lemma_partial_sum_le_total(stakes: Seq<int>, i: int, p: spec_fn(int) -> bool)
    requires forall|k: int| 0 <= k < stakes.len() ==> stakes[k] >= 0, 0 <= i <= stakes.len(),
    ensures sum_where(stakes, i, p) <= sum_where(stakes, stakes.len() as int, all_true())
    decreases stakes.len() - i
{
    lemma_sum_mono(stakes, i, p, all_true());
    if i < stakes.len() {
        lemma_partial_sum_le_total(stakes, i + 1, all_true());
        lemma_sum_nonneg(stakes, i, all_true());
    }
}

impl Cert {
    pub open spec fn spec_signers(&self) -> ISet<int> {
        match *self {
            Cert::Notar(c) => c.agg_sig.signers(),
            Cert::NotarFallback(c) => opt_signers(c.agg_sig_notar).union(opt_signers(c.agg_sig_notar_fallback)),
            Cert::Skip(c) => opt_signers(c.agg_sig_skip).union(opt_signers(c.agg_sig_skip_fallback)),
            Cert::FastFinal(c) => c.agg_sig.signers(),
            Cert::Final(c) => c.agg_sig.signers(),
        }
    }
    // "their distinct stake meets that certificate type's threshold"
    pub open spec fn spec_threshold_ok(&self, ei: &EpochInfo) -> bool {
        at_least_pct(signer_stake(ei.validators@, self.spec_signers()), ei.total_stake.0 as int,
            if *self is FastFinal { 80 } else { 60 })
    }
    // "its aggregate signature verifies for exactly the validators marked as signers over exactly its
    // kind, slot and block hash" (mixed certificates: each half over its own kind)
    pub open spec fn spec_sig_ok(&self, vals: Seq<ValidatorInfo>) -> bool {
        let pks = spec_pks(vals);
        match *self {
            Cert::Notar(c) => agg_ok(c.agg_sig, VotePayload::Notar(c.slot, c.block_hash), pks),
            Cert::NotarFallback(c) => opt_agg_ok(c.agg_sig_notar, VotePayload::Notar(c.slot, c.block_hash), pks)
                && opt_agg_ok(c.agg_sig_notar_fallback, VotePayload::NotarFallback(c.slot, c.block_hash), pks),
            Cert::Skip(c) => opt_agg_ok(c.agg_sig_skip, VotePayload::Skip(c.slot), pks)
                && opt_agg_ok(c.agg_sig_skip_fallback, VotePayload::SkipFallback(c.slot), pks),
            Cert::FastFinal(c) => agg_ok(c.agg_sig, VotePayload::Notar(c.slot, c.block_hash), pks),
            Cert::Final(c) => agg_ok(c.agg_sig, VotePayload::Final(c.slot), pks),
        }
    }
}

pub mod code {
use super::*;

/*@ include units/common/std_specs.rs @*/

pub assume_specification<T, F: FnOnce(T) -> bool>[ Option::<T>::is_none_or ](o: Option<T>, f: F) -> (r: bool)
    requires
        o is Some ==> f.requires((o->0,)),
    ensures
        o is None ==> r,
        o is Some ==> f.ensures((o->0,), r);

// Rewrite R8: `validators.iter().map(|v| v.voting_pubkey).collect()` (iterator chain) is named through
// this TRUSTED wrapper: the voting keys in validator order.
#[verifier::external_body]
pub fn verif_collect_voting_pubkeys(validators: &[ValidatorInfo]) -> (r: Vec<PublicKey>)
    ensures r@ == spec_pks(validators@)
{ unimplemented!() }

impl NotarVote {
/*@ extract src/consensus/vote.rs :: impl NotarVote/fn payload
props C09
ret r
ensures
        // [C09.payload_binds_kind_slot_hash]
        r == VotePayload::Notar(self.slot, self.block_hash),
@*/
/*@ extract src/consensus/vote.rs :: impl NotarVote/fn check_sig
props C09
ret r
ensures
        // [C09.vote_signature_over_exact_payload]
        r == sig_ok(self.sig, VotePayload::Notar(self.slot, self.block_hash), *pk),
@*/
}
impl NotarFallbackVote {
/*@ extract src/consensus/vote.rs :: impl NotarFallbackVote/fn payload
props C09
ret r
ensures
        // [C09.payload_binds_kind_slot_hash]
        r == VotePayload::NotarFallback(self.slot, self.block_hash),
@*/
/*@ extract src/consensus/vote.rs :: impl NotarFallbackVote/fn check_sig
props C09
ret r
ensures
        // [C09.vote_signature_over_exact_payload]
        r == sig_ok(self.sig, VotePayload::NotarFallback(self.slot, self.block_hash), *pk),
@*/
}
impl SkipVote {
/*@ extract src/consensus/vote.rs :: impl SkipVote/fn payload
props C09
ret r
ensures
        // [C09.payload_binds_kind_slot_hash]
        r == VotePayload::Skip(self.slot),
@*/
/*@ extract src/consensus/vote.rs :: impl SkipVote/fn check_sig
props C09
ret r
ensures
        // [C09.vote_signature_over_exact_payload]
        r == sig_ok(self.sig, VotePayload::Skip(self.slot), *pk),
@*/
}
impl SkipFallbackVote {
/*@ extract src/consensus/vote.rs :: impl SkipFallbackVote/fn payload
props C09
ret r
ensures
        // [C09.payload_binds_kind_slot_hash]
        r == VotePayload::SkipFallback(self.slot),
@*/
/*@ extract src/consensus/vote.rs :: impl SkipFallbackVote/fn check_sig
props C09
ret r
ensures
        // [C09.vote_signature_over_exact_payload]
        r == sig_ok(self.sig, VotePayload::SkipFallback(self.slot), *pk),
@*/
}
impl FinalVote {
/*@ extract src/consensus/vote.rs :: impl FinalVote/fn payload
props C09
ret r
ensures
        // [C09.payload_binds_kind_slot_hash]
        r == VotePayload::Final(self.slot),
@*/
/*@ extract src/consensus/vote.rs :: impl FinalVote/fn check_sig
props C09
ret r
ensures
        // [C09.vote_signature_over_exact_payload]
        r == sig_ok(self.sig, VotePayload::Final(self.slot), *pk),
@*/
}
impl Vote {
/*@ extract src/consensus/vote.rs :: impl Vote/fn check_sig
props C09
ret r
ensures
        // [C09.vote_signature_over_exact_payload]
        r == sig_ok(spec_sig(*self), spec_payload(*self), *pk),
@*/
}

impl ValidatedVote {
/*@ extract src/consensus/validated_vote.rs :: impl ValidatedVote/fn try_new
props C09 C10
ret r
ensures
        // [C09.vote_admitted_only_if_member_and_signed]
        r matches Ok(v) ==> v.vote == vote && (vote.spec_signer().0 as int) < epoch_info.validators@.len()
            && sig_ok(spec_sig(vote), spec_payload(vote), epoch_info.validators@[vote.spec_signer().0 as int].voting_pubkey),
        // [C09.altered_vote_rejected_with_error]
        (vote.spec_signer().0 as int) >= epoch_info.validators@.len() ==> r == Err::<ValidatedVote, VoteValidationError>(VoteValidationError::UnknownSigner),
        ((vote.spec_signer().0 as int) < epoch_info.validators@.len()
            && !sig_ok(spec_sig(vote), spec_payload(vote), epoch_info.validators@[vote.spec_signer().0 as int].voting_pubkey))
            ==> r == Err::<ValidatedVote, VoteValidationError>(VoteValidationError::InvalidSignature),
@*/
}

impl NotarCert {
/*@ extract src/consensus/cert.rs :: impl NotarCert/fn check_threshold
props C09 C03
ret r
rewrite[R4] `let stake: Stake = epoch_info .validators() .iter() .filter(|v|` => `let mut stake: Stake = Stake::new(0); let verif_vals = epoch_info.validators(); let mut verif_i: usize = 0; while verif_i < verif_vals.len() { let v = &verif_vals[verif_i]; verif_i += 1; let verif_keep: bool = (`
rewrite[R4] `) .map(|v| v.stake) .sum();` => `); if verif_keep { stake += v.stake; } }`
requires
        epoch_ok(epoch_info),
ensures
        // [C09.threshold_recomputed_from_signers C03.threshold_recomputed_from_signers]
        r == Cert::Notar(*self).spec_threshold_ok(epoch_info),
before `let mut stake: Stake = Stake::new(0);`
        let ghost stakes = spec_stakes(epoch_info.validators@);
        let ghost pred = |v: int| self.agg_sig.signers().contains(v);
        proof { assert forall|k: int| 0 <= k < stakes.len() implies stakes[k] >= 0 by {} }
loop 0
        invariant
            epoch_ok(epoch_info) && verif_vals@ == epoch_info.validators@ && stakes == spec_stakes(epoch_info.validators@),
            pred == (|v: int| self.agg_sig.signers().contains(v)),
            forall|k: int| 0 <= k < stakes.len() ==> stakes[k] >= 0,
            verif_i <= verif_vals@.len(),
            stake.0 == sum_where(stakes, verif_i as int, pred),
        decreases verif_vals@.len() - verif_i,
before `if verif_keep { stake += v.stake; }`
        proof {
            lemma_partial_sum_le_total(stakes, verif_i as int, pred);
            assert(verif_keep == pred(verif_i - 1));
            assert(stakes[verif_i - 1] == v.stake.0);
        }
@*/
/*@ extract src/consensus/cert.rs :: impl NotarCert/fn check_sig
props C09
ret r
rewrite[R8] `let pks: Vec<_> = validators.iter().map(|v| v.voting_pubkey).collect();` => `let pks: Vec<_> = verif_collect_voting_pubkeys(validators);`
ensures
        // [C09.cert_signature_over_exact_kind_slot_hash]
        r == Cert::Notar(*self).spec_sig_ok(validators@),
@*/
}
impl FastFinalCert {
/*@ extract src/consensus/cert.rs :: impl FastFinalCert/fn check_threshold
props C09 C03
ret r
rewrite[R4] `let stake: Stake = epoch_info .validators() .iter() .filter(|v|` => `let mut stake: Stake = Stake::new(0); let verif_vals = epoch_info.validators(); let mut verif_i: usize = 0; while verif_i < verif_vals.len() { let v = &verif_vals[verif_i]; verif_i += 1; let verif_keep: bool = (`
rewrite[R4] `) .map(|v| v.stake) .sum();` => `); if verif_keep { stake += v.stake; } }`
requires
        epoch_ok(epoch_info),
ensures
        // [C09.threshold_recomputed_from_signers C03.threshold_recomputed_from_signers]
        r == Cert::FastFinal(*self).spec_threshold_ok(epoch_info),
before `let mut stake: Stake = Stake::new(0);`
        let ghost stakes = spec_stakes(epoch_info.validators@);
        let ghost pred = |v: int| self.agg_sig.signers().contains(v);
        proof { assert forall|k: int| 0 <= k < stakes.len() implies stakes[k] >= 0 by {} }
loop 0
        invariant
            epoch_ok(epoch_info) && verif_vals@ == epoch_info.validators@ && stakes == spec_stakes(epoch_info.validators@),
            pred == (|v: int| self.agg_sig.signers().contains(v)),
            forall|k: int| 0 <= k < stakes.len() ==> stakes[k] >= 0,
            verif_i <= verif_vals@.len(),
            stake.0 == sum_where(stakes, verif_i as int, pred),
        decreases verif_vals@.len() - verif_i,
before `if verif_keep { stake += v.stake; }`
        proof {
            lemma_partial_sum_le_total(stakes, verif_i as int, pred);
            assert(verif_keep == pred(verif_i - 1));
            assert(stakes[verif_i - 1] == v.stake.0);
        }
@*/
/*@ extract src/consensus/cert.rs :: impl FastFinalCert/fn check_sig
props C09
ret r
rewrite[R8] `let pks: Vec<_> = validators.iter().map(|v| v.voting_pubkey).collect();` => `let pks: Vec<_> = verif_collect_voting_pubkeys(validators);`
ensures
        // [C09.cert_signature_over_exact_kind_slot_hash]
        r == Cert::FastFinal(*self).spec_sig_ok(validators@),
@*/
}
impl FinalCert {
/*@ extract src/consensus/cert.rs :: impl FinalCert/fn check_threshold
props C09 C03
ret r
rewrite[R4] `let stake: Stake = epoch_info .validators() .iter() .filter(|v|` => `let mut stake: Stake = Stake::new(0); let verif_vals = epoch_info.validators(); let mut verif_i: usize = 0; while verif_i < verif_vals.len() { let v = &verif_vals[verif_i]; verif_i += 1; let verif_keep: bool = (`
rewrite[R4] `) .map(|v| v.stake) .sum();` => `); if verif_keep { stake += v.stake; } }`
requires
        epoch_ok(epoch_info),
ensures
        // [C09.threshold_recomputed_from_signers C03.threshold_recomputed_from_signers]
        r == Cert::Final(*self).spec_threshold_ok(epoch_info),
before `let mut stake: Stake = Stake::new(0);`
        let ghost stakes = spec_stakes(epoch_info.validators@);
        let ghost pred = |v: int| self.agg_sig.signers().contains(v);
        proof { assert forall|k: int| 0 <= k < stakes.len() implies stakes[k] >= 0 by {} }
loop 0
        invariant
            epoch_ok(epoch_info) && verif_vals@ == epoch_info.validators@ && stakes == spec_stakes(epoch_info.validators@),
            pred == (|v: int| self.agg_sig.signers().contains(v)),
            forall|k: int| 0 <= k < stakes.len() ==> stakes[k] >= 0,
            verif_i <= verif_vals@.len(),
            stake.0 == sum_where(stakes, verif_i as int, pred),
        decreases verif_vals@.len() - verif_i,
before `if verif_keep { stake += v.stake; }`
        proof {
            lemma_partial_sum_le_total(stakes, verif_i as int, pred);
            assert(verif_keep == pred(verif_i - 1));
            assert(stakes[verif_i - 1] == v.stake.0);
        }
@*/
/*@ extract src/consensus/cert.rs :: impl FinalCert/fn check_sig
props C09
ret r
rewrite[R8] `let pks: Vec<_> = validators.iter().map(|v| v.voting_pubkey).collect();` => `let pks: Vec<_> = verif_collect_voting_pubkeys(validators);`
ensures
        // [C09.cert_signature_over_exact_kind_slot_hash]
        r == Cert::Final(*self).spec_sig_ok(validators@),
@*/
}
impl NotarFallbackCert {
/*@ extract src/consensus/cert.rs :: impl NotarFallbackCert/fn check_threshold
props C09 C03
ret r
rewrite[R4] `let stake: Stake = epoch_info .validators() .iter() .filter(|v|` => `let mut stake: Stake = Stake::new(0); let verif_vals = epoch_info.validators(); let mut verif_i: usize = 0; while verif_i < verif_vals.len() { let v = &verif_vals[verif_i]; verif_i += 1; let verif_keep: bool = (`
rewrite[R4] `) .map(|v| v.stake) .sum();` => `); if verif_keep { stake += v.stake; } }`
requires
        epoch_ok(epoch_info),
ensures
        // [C09.threshold_recomputed_from_signers C03.threshold_recomputed_from_signers]
        r == Cert::NotarFallback(*self).spec_threshold_ok(epoch_info),
before `let mut stake: Stake = Stake::new(0);`
        let ghost stakes = spec_stakes(epoch_info.validators@);
        let ghost pred = |v: int| opt_signers(self.agg_sig_notar).union(opt_signers(self.agg_sig_notar_fallback)).contains(v);
        proof { assert forall|k: int| 0 <= k < stakes.len() implies stakes[k] >= 0 by {} }
loop 0
        invariant
            epoch_ok(epoch_info) && verif_vals@ == epoch_info.validators@ && stakes == spec_stakes(epoch_info.validators@),
            pred == (|v: int| opt_signers(self.agg_sig_notar).union(opt_signers(self.agg_sig_notar_fallback)).contains(v)),
            forall|k: int| 0 <= k < stakes.len() ==> stakes[k] >= 0,
            verif_i <= verif_vals@.len(),
            stake.0 == sum_where(stakes, verif_i as int, pred),
        decreases verif_vals@.len() - verif_i,
before `if verif_keep { stake += v.stake; }`
        proof {
            lemma_partial_sum_le_total(stakes, verif_i as int, pred);
            assert(verif_keep == pred(verif_i - 1));
            assert(stakes[verif_i - 1] == v.stake.0);
        }
closure *
        params s: &AggregateSignature
        ret b: bool
        ensures b == s.signers().contains(v.id.0 as int)
@*/
/*@ extract src/consensus/cert.rs :: impl NotarFallbackCert/fn check_sig
props C09
ret r
rewrite[R8] `let pks: Vec<_> = validators.iter().map(|v| v.voting_pubkey).collect();` => `let pks: Vec<_> = verif_collect_voting_pubkeys(validators);`
ensures
        // [C09.cert_signature_over_exact_kind_slot_hash C09.halves_checked_over_their_own_kind]
        r == Cert::NotarFallback(*self).spec_sig_ok(validators@),
closure 0
        params s: &AggregateSignature
        ret b: bool
        ensures b == agg_ok(*s, notar, pks@)
closure 1
        params s: &AggregateSignature
        ret b: bool
        ensures b == agg_ok(*s, notar_fallback, pks@)
@*/
}
impl SkipCert {
/*@ extract src/consensus/cert.rs :: impl SkipCert/fn check_threshold
props C09 C03
ret r
rewrite[R4] `let stake: Stake = epoch_info .validators() .iter() .filter(|v|` => `let mut stake: Stake = Stake::new(0); let verif_vals = epoch_info.validators(); let mut verif_i: usize = 0; while verif_i < verif_vals.len() { let v = &verif_vals[verif_i]; verif_i += 1; let verif_keep: bool = (`
rewrite[R4] `) .map(|v| v.stake) .sum();` => `); if verif_keep { stake += v.stake; } }`
requires
        epoch_ok(epoch_info),
ensures
        // [C09.threshold_recomputed_from_signers C03.threshold_recomputed_from_signers]
        r == Cert::Skip(*self).spec_threshold_ok(epoch_info),
before `let mut stake: Stake = Stake::new(0);`
        let ghost stakes = spec_stakes(epoch_info.validators@);
        let ghost pred = |v: int| opt_signers(self.agg_sig_skip).union(opt_signers(self.agg_sig_skip_fallback)).contains(v);
        proof { assert forall|k: int| 0 <= k < stakes.len() implies stakes[k] >= 0 by {} }
loop 0
        invariant
            epoch_ok(epoch_info) && verif_vals@ == epoch_info.validators@ && stakes == spec_stakes(epoch_info.validators@),
            pred == (|v: int| opt_signers(self.agg_sig_skip).union(opt_signers(self.agg_sig_skip_fallback)).contains(v)),
            forall|k: int| 0 <= k < stakes.len() ==> stakes[k] >= 0,
            verif_i <= verif_vals@.len(),
            stake.0 == sum_where(stakes, verif_i as int, pred),
        decreases verif_vals@.len() - verif_i,
before `if verif_keep { stake += v.stake; }`
        proof {
            lemma_partial_sum_le_total(stakes, verif_i as int, pred);
            assert(verif_keep == pred(verif_i - 1));
            assert(stakes[verif_i - 1] == v.stake.0);
        }
closure *
        params s: &AggregateSignature
        ret b: bool
        ensures b == s.signers().contains(v.id.0 as int)
@*/
/*@ extract src/consensus/cert.rs :: impl SkipCert/fn check_sig
props C09
ret r
rewrite[R8] `let pks: Vec<_> = validators.iter().map(|v| v.voting_pubkey).collect();` => `let pks: Vec<_> = verif_collect_voting_pubkeys(validators);`
ensures
        // [C09.cert_signature_over_exact_kind_slot_hash C09.halves_checked_over_their_own_kind]
        r == Cert::Skip(*self).spec_sig_ok(validators@),
closure 0
        params s: &AggregateSignature
        ret b: bool
        ensures b == agg_ok(*s, skip, pks@)
closure 1
        params s: &AggregateSignature
        ret b: bool
        ensures b == agg_ok(*s, skip_fallback, pks@)
@*/
}

impl Cert {
/*@ extract src/consensus/cert.rs :: impl Cert/fn check_threshold
props C09
ret r
requires
        epoch_ok(epoch_info),
ensures
        // [C09.threshold_recomputed_from_signers]
        r == self.spec_threshold_ok(epoch_info),
@*/
/*@ extract src/consensus/cert.rs :: impl Cert/fn check_sig
props C09
ret r
ensures
        // [C09.cert_signature_over_exact_kind_slot_hash]
        r == self.spec_sig_ok(validators@),
@*/
}

impl ValidatedCert {
/*@ extract src/consensus/validated_cert.rs :: impl ValidatedCert/fn try_new
props C09 C03
ret r
requires
        // type invariant of EpochInfo (EpochInfo::new asserts id == index and sums the stakes)
        epoch_ok(epoch_info),
ensures
        // [C09.cert_admitted_only_if_backed_and_signed C03.cert_admitted_only_if_backed_and_signed]
        r matches Ok(v) ==> v.cert == cert && cert.spec_threshold_ok(epoch_info) && cert.spec_sig_ok(epoch_info.validators@),
        // [C09.altered_cert_rejected_with_error]
        !cert.spec_threshold_ok(epoch_info) ==> r == Err::<ValidatedCert, CertValidationError>(CertValidationError::InsufficientStake),
        (cert.spec_threshold_ok(epoch_info) && !cert.spec_sig_ok(epoch_info.validators@)) ==> r == Err::<ValidatedCert, CertValidationError>(CertValidationError::InvalidSignature),
@*/

// Canary: MUST fail (claims every certificate is admitted).
/*@ extract src/consensus/validated_cert.rs :: impl ValidatedCert/fn try_new
as canary_try_new
expect-fail
ret r
requires
        epoch_ok(epoch_info),
ensures
        r is Ok,
@*/
}

} // mod code

} // verus!

fn main() {}
