// cfg(kani) helpers for src/crypto/aggsig.rs (module `crypto::aggsig::verif_kani`).
//
// CBMC cannot handle `bitvec::BitVec` (a 4-bit mask took > 50 GB), so the certificate harnesses replace
// `AggregateSignature::is_signer` by a stub that reads the signer bits from a small symbolic table.
// The table entry is selected by a tag stored in the (otherwise unused) BLS point bytes.
// ASSUMED and NOT checked by any harness: the real `is_signer` answers "bit set and index in range"
// and never panics.
use super::*;

pub(crate) const MAXL: usize = 3;
pub(crate) static mut TAB_BITS: [[bool; MAXL]; 2] = [[false; MAXL]; 2];
pub(crate) static mut TAB_LEN: [usize; 2] = [0; 2];

/// An aggregate signature value carrying `tag` (0 or 1); its signer set is TAB_BITS[tag][..TAB_LEN[tag]].
pub(crate) fn make_tagged_aggsig(tag: u8) -> AggregateSignature {
    // SAFETY: BlstSignature is a plain C struct of integer arrays; any bit pattern is valid.
    let mut sig: BlstSignature = unsafe { std::mem::zeroed() };
    // SAFETY: writes the first byte of the struct
    unsafe { *(&mut sig as *mut BlstSignature as *mut u8) = tag };
    AggregateSignature { sig, bitmask: BitVec::EMPTY }
}

pub(crate) fn stub_is_signer(agg: &AggregateSignature, validator_index: ValidatorIndex) -> bool {
    // SAFETY: reads the first byte of the struct written by make_tagged_aggsig
    let tag = unsafe { *(&agg.sig as *const BlstSignature as *const u8) } as usize;
    let i = validator_index.as_usize();
    // SAFETY: single-threaded harness
    unsafe { tag < 2 && i < TAB_LEN[tag] && i < MAXL && TAB_BITS[tag][i] }
}
