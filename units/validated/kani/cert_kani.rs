// Kani harnesses for src/consensus/cert.rs (module `consensus::cert::verif_kani`), bounded stand-ins
// for the ASSUMED contracts of the five `check_threshold` functions (iterator chains, out of Verus' reach):
//   check_threshold == is_(strong_)quorum( sum of stake(v) over validators v < n whose bit is set in
//   either half ), each validator once, independent of the declared `stake` field, for every bitmask
//   length (shorter, equal, longer than n) - and no panic.
use super::*;
use crate::crypto::aggsig::verif_kani::{make_tagged_aggsig, stub_is_signer, TAB_BITS, TAB_LEN};
use crate::crypto::merkle::GENESIS_BLOCK_HASH;
use std::net::SocketAddr;

const N: usize = 2; // validators
const L: usize = crate::crypto::aggsig::verif_kani::MAXL; // max bitmask length

fn epoch(stakes: &[u64; N], n: usize) -> EpochInfo {
    let addr = SocketAddr::from(([0, 0, 0, 0], 0));
    let mut v = Vec::new();
    for i in 0..n {
        v.push(ValidatorInfo {
            id: ValidatorIndex::new(i as u64),
            stake: Stake::new(stakes[i]),
            // SAFETY: key material is never used by check_threshold; all-zero bytes are a valid bit pattern
            pubkey: unsafe { std::mem::zeroed() },
            voting_pubkey: unsafe { std::mem::zeroed() },
            all2all_address: addr,
            disseminator_address: addr,
            repair_requester_address: addr,
            repair_responder_address: addr,
        });
    }
    EpochInfo::new(v)
}

fn setup() -> (EpochInfo, [u64; N], usize) {
    let n: usize = kani::any();
    kani::assume(1 <= n && n <= N);
    let stakes: [u64; N] = kani::any();
    for i in 0..N {
        kani::assume(stakes[i] <= 1 << 20);
    }
    (epoch(&stakes, n), stakes, n)
}

fn any_mask(tag: u8) -> ([bool; L], usize) {
    let len: usize = kani::any();
    kani::assume(len <= L);
    let bits: [bool; L] = kani::any();
    // SAFETY: single-threaded harness
    unsafe {
        TAB_BITS[tag as usize] = bits;
        TAB_LEN[tag as usize] = len;
    }
    (bits, len)
}

fn reference(stakes: &[u64; N], n: usize, a: Option<(&[bool; L], usize)>, b: Option<(&[bool; L], usize)>) -> (u64, u64) {
    let mut total = 0u64;
    let mut signed = 0u64;
    for v in 0..n {
        total += stakes[v];
        let in_a = a.is_some_and(|(bits, len)| v < len && bits[v]);
        let in_b = b.is_some_and(|(bits, len)| v < len && bits[v]);
        if in_a || in_b {
            signed += stakes[v];
        }
    }
    (signed, total)
}

#[kani::proof]
#[kani::unwind(5)]
#[kani::stub(crate::crypto::aggsig::AggregateSignature::is_signer, stub_is_signer)]
fn kani_notar_cert_threshold() {
    let (ei, stakes, n) = setup();
    let (bits, len) = any_mask(0);
    kani::assume(ei.total_stake().inner() > 0);
    let cert = NotarCert { slot: Slot::new(kani::any()), block_hash: GENESIS_BLOCK_HASH, agg_sig: make_tagged_aggsig(0), stake: Stake::new(kani::any()) };
    let (signed, total) = reference(&stakes, n, Some((&bits, len)), None);
    assert!(cert.check_threshold(&ei) == (signed as u128 * 5 >= total as u128 * 3));
}

#[kani::proof]
#[kani::unwind(5)]
#[kani::stub(crate::crypto::aggsig::AggregateSignature::is_signer, stub_is_signer)]
fn kani_fast_final_cert_threshold() {
    let (ei, stakes, n) = setup();
    let (bits, len) = any_mask(0);
    kani::assume(ei.total_stake().inner() > 0);
    let cert = FastFinalCert { slot: Slot::new(kani::any()), block_hash: GENESIS_BLOCK_HASH, agg_sig: make_tagged_aggsig(0), stake: Stake::new(kani::any()) };
    let (signed, total) = reference(&stakes, n, Some((&bits, len)), None);
    assert!(cert.check_threshold(&ei) == (signed as u128 * 5 >= total as u128 * 4));
}

#[kani::proof]
#[kani::unwind(5)]
#[kani::stub(crate::crypto::aggsig::AggregateSignature::is_signer, stub_is_signer)]
fn kani_final_cert_threshold() {
    let (ei, stakes, n) = setup();
    let (bits, len) = any_mask(0);
    kani::assume(ei.total_stake().inner() > 0);
    let cert = FinalCert { slot: Slot::new(kani::any()), agg_sig: make_tagged_aggsig(0), stake: Stake::new(kani::any()) };
    let (signed, total) = reference(&stakes, n, Some((&bits, len)), None);
    assert!(cert.check_threshold(&ei) == (signed as u128 * 5 >= total as u128 * 3));
}

#[kani::proof]
#[kani::unwind(5)]
#[kani::stub(crate::crypto::aggsig::AggregateSignature::is_signer, stub_is_signer)]
fn kani_skip_cert_threshold() {
    let (ei, stakes, n) = setup();
    let (bits1, len1) = any_mask(0);
    let (bits2, len2) = any_mask(1);
    let has1: bool = kani::any();
    let has2: bool = kani::any();
    kani::assume(ei.total_stake().inner() > 0);
    let cert = SkipCert {
        slot: Slot::new(kani::any()),
        agg_sig_skip: if has1 { Some(make_tagged_aggsig(0)) } else { None },
        agg_sig_skip_fallback: if has2 { Some(make_tagged_aggsig(1)) } else { None },
        stake: Stake::new(kani::any()),
    };
    let a = if has1 { Some((&bits1, len1)) } else { None };
    let b = if has2 { Some((&bits2, len2)) } else { None };
    let (signed, total) = reference(&stakes, n, a, b);
    assert!(cert.check_threshold(&ei) == (signed as u128 * 5 >= total as u128 * 3));
}

#[kani::proof]
#[kani::unwind(5)]
#[kani::stub(crate::crypto::aggsig::AggregateSignature::is_signer, stub_is_signer)]
fn kani_notar_fallback_cert_threshold() {
    let (ei, stakes, n) = setup();
    let (bits1, len1) = any_mask(0);
    let (bits2, len2) = any_mask(1);
    let has1: bool = kani::any();
    let has2: bool = kani::any();
    kani::assume(ei.total_stake().inner() > 0);
    let cert = NotarFallbackCert {
        slot: Slot::new(kani::any()),
        block_hash: GENESIS_BLOCK_HASH,
        agg_sig_notar: if has1 { Some(make_tagged_aggsig(0)) } else { None },
        agg_sig_notar_fallback: if has2 { Some(make_tagged_aggsig(1)) } else { None },
        stake: Stake::new(kani::any()),
    };
    let a = if has1 { Some((&bits1, len1)) } else { None };
    let b = if has2 { Some((&bits2, len2)) } else { None };
    let (signed, total) = reference(&stakes, n, a, b);
    assert!(cert.check_threshold(&ei) == (signed as u128 * 5 >= total as u128 * 3));
}
