// Unit `lthash`: the lattice-hash commitment over the account state (src/execution/commitment.rs).
// Serves C20: "the incrementally maintained lattice-hash commitment always equals the commitment recomputed from the
// state's contents (so it is order-independent)".
#![allow(unused)]
use vstd::prelude::*;
use std::ops::{AddAssign, SubAssign};

verus! {

pub type Address = [u8; 32];      // src/execution/state.rs

/*@ extract src/execution/commitment.rs :: const NUM_LANES
@*/
/*@ extract src/execution/commitment.rs :: struct LtHash
derive
@*/

// ---------------------------------------------------------------- lane algebra (Z_{2^16})^NUM_LANES
pub open spec fn wadd(a: u16, b: u16) -> u16 { ((a as int + b as int) % 65536) as u16 }
pub open spec fn wsub(a: u16, b: u16) -> u16 { ((a as int - b as int) % 65536) as u16 }

pub open spec fn is_vec(a: Seq<u16>) -> bool { a.len() == NUM_LANES }
pub open spec fn vzero() -> Seq<u16> { Seq::new(NUM_LANES as nat, |i: int| 0u16) }
pub open spec fn vadd(a: Seq<u16>, b: Seq<u16>) -> Seq<u16> { Seq::new(NUM_LANES as nat, |i: int| wadd(a[i], b[i])) }
pub open spec fn vsub(a: Seq<u16>, b: Seq<u16>) -> Seq<u16> { Seq::new(NUM_LANES as nat, |i: int| wsub(a[i], b[i])) }

// the lattice hash of one entry: SHA-256 of key || value expanded in counter mode (hash_entry); uninterpreted - all that
// matters here is that it is a function of the entry
pub uninterp spec fn spec_entry_hash(key: Address, value: Seq<u8>) -> Seq<u16>;
#[verifier::external_body]
pub broadcast proof fn axiom_entry_hash_len(key: Address, value: Seq<u8>)
    ensures #[trigger] spec_entry_hash(key, value).len() == NUM_LANES,
{}

pub proof fn lemma_vadd_comm(a: Seq<u16>, b: Seq<u16>)
    ensures vadd(a, b) == vadd(b, a),
{
    assert(vadd(a, b) =~= vadd(b, a));
}
pub proof fn lemma_vadd_assoc(a: Seq<u16>, b: Seq<u16>, c: Seq<u16>)
    requires is_vec(a), is_vec(b), is_vec(c),
    ensures vadd(vadd(a, b), c) == vadd(a, vadd(b, c)),
{
    assert(vadd(vadd(a, b), c) =~= vadd(a, vadd(b, c)));
}
pub proof fn lemma_vadd_zero(a: Seq<u16>)
    requires is_vec(a),
    ensures vadd(a, vzero()) == a, vadd(vzero(), a) == a,
{
    assert(vadd(a, vzero()) =~= a);
    assert(vadd(vzero(), a) =~= a);
}
pub proof fn lemma_vsub_vadd(a: Seq<u16>, b: Seq<u16>)
    requires is_vec(a), is_vec(b),
    ensures vsub(vadd(a, b), b) == a, vadd(vsub(a, b), b) == a,
{
    assert(vsub(vadd(a, b), b) =~= a);
    assert(vadd(vsub(a, b), b) =~= a);
}

// ---------------------------------------------------------------- the commitment recomputed from the contents
// sum of the entry hashes over a finite map (the recomputation: fold add_entry over the entries, in ANY order)
pub open spec fn commit(m: Map<Address, Seq<u8>>) -> Seq<u16>
    decreases m.dom().len()
{
    if m.dom().len() == 0 {
        vzero()
    } else {
        let k = m.dom().choose();
        vadd(commit(m.remove(k)), spec_entry_hash(k, m[k]))
    }
}

pub proof fn lemma_commit_len(m: Map<Address, Seq<u8>>)
    ensures is_vec(commit(m)),
    decreases m.dom().len(),
{
    if m.dom().len() != 0 {
        let k = m.dom().choose();
        lemma_commit_len(m.remove(k));
    }
}

// the recomputation may take the entries in any order: any entry can be split off last
pub proof fn lemma_commit_split(m: Map<Address, Seq<u8>>, k: Address)
    requires m.dom().contains(k),
    ensures commit(m) == vadd(commit(m.remove(k)), spec_entry_hash(k, m[k])),
    decreases m.dom().len(),
{
    broadcast use axiom_entry_hash_len;
    let c = m.dom().choose();
    if c != k {
        let mc = m.remove(c);
        let mk = m.remove(k);
        lemma_commit_split(mc, k);
        lemma_commit_split(mk, c);
        assert(mc.remove(k) =~= mk.remove(c));
        let rest = commit(mc.remove(k));
        lemma_commit_len(mc.remove(k));
        let hk = spec_entry_hash(k, m[k]);
        let hc = spec_entry_hash(c, m[c]);
        lemma_vadd_assoc(rest, hk, hc);
        lemma_vadd_assoc(rest, hc, hk);
        lemma_vadd_comm(hk, hc);
    }
}

// what LtHash::observe computes from the commitment c for a write (old value -> new value) under key k
pub open spec fn observe_spec(c: Seq<u16>, k: Address, old: Option<Seq<u8>>, new: Option<Seq<u8>>) -> Seq<u16> {
    let c1 = match old { Some(o) => vsub(c, spec_entry_hash(k, o)), None => c };
    match new { Some(n) => vadd(c1, spec_entry_hash(k, n)), None => c1 }
}

// THEOREM [C20.incremental_commitment_equals_recomputed]: if c commits to the contents m, then after a map insert
// (whose returned previous value is m.get(k), see unit `trie`) observe yields the commitment recomputed from the new contents
pub proof fn theorem_observe_insert(m: Map<Address, Seq<u8>>, k: Address, v: Seq<u8>)
    ensures
        observe_spec(commit(m), k, if m.dom().contains(k) { Some(m[k]) } else { None }, Some(v)) == commit(m.insert(k, v)),
{
    broadcast use axiom_entry_hash_len;
    let m2 = m.insert(k, v);
    lemma_commit_split(m2, k);
    lemma_commit_len(m);
    if m.dom().contains(k) {
        assert(m2.remove(k) =~= m.remove(k));
        lemma_commit_split(m, k);
        lemma_commit_len(m.remove(k));
        lemma_vsub_vadd(commit(m.remove(k)), spec_entry_hash(k, m[k]));
    } else {
        assert(m2.remove(k) =~= m);
    }
}

// ... and the same for a removal
pub proof fn theorem_observe_remove(m: Map<Address, Seq<u8>>, k: Address)
    ensures
        observe_spec(commit(m), k, if m.dom().contains(k) { Some(m[k]) } else { None }, None) == commit(m.remove(k)),
{
    broadcast use axiom_entry_hash_len;
    if m.dom().contains(k) {
        lemma_commit_split(m, k);
        lemma_commit_len(m.remove(k));
        lemma_vsub_vadd(commit(m.remove(k)), spec_entry_hash(k, m[k]));
    } else {
        assert(m.remove(k) =~= m);
    }
}

// the commitment to the empty contents is the identity
pub proof fn theorem_commit_empty()
    ensures commit(Map::<Address, Seq<u8>>::empty()) == vzero(),
{
}

impl LtHash {
    pub open spec fn vec(&self) -> Seq<u16> { self.lanes@ }
    // hash_entry: SHA-256 of key || value expanded over the lanes in counter mode (chunks_exact_mut / iter_mut zip loops over
    // hash_all); TRUSTED to be a deterministic function of (key, value) - the only thing the algebra needs
    #[verifier::external_body]
    pub fn hash_entry(key: &Address, value: &[u8]) -> (r: Self)
        ensures r.vec() == spec_entry_hash(*key, value@)
    { unimplemented!() }
}

// the std operator traits: the contract is stated on the impl functions below
impl vstd::std_specs::ops::AddAssignSpecImpl<&LtHash> for LtHash {
    open spec fn obeys_add_assign_spec() -> bool { false }
    open spec fn add_assign_req(&self, rhs: &LtHash) -> bool { true }
    uninterp spec fn add_assign_spec(&self, rhs: &LtHash) -> &LtHash;
}
impl vstd::std_specs::ops::SubAssignSpecImpl<&LtHash> for LtHash {
    open spec fn obeys_sub_assign_spec() -> bool { false }
    open spec fn sub_assign_req(&self, rhs: &LtHash) -> bool { true }
    uninterp spec fn sub_assign_spec(&self, rhs: &LtHash) -> &LtHash;
}

pub mod code {
use super::*;

// documented behaviour of Option::filter (TRUSTED; not used by the code as it stands - a change that filters the observed values
// is then verified against the contract instead of being rejected as unsupported)
pub assume_specification<T, P: FnOnce(&T) -> bool>[ Option::<T>::filter ](o: Option<T>, predicate: P) -> (r: Option<T>)
    requires o matches Some(v) ==> predicate.requires((&v,)),
    ensures
        o is None ==> r is None,
        o matches Some(v) ==> (predicate.ensures((&v,), true) ==> r == o) && (predicate.ensures((&v,), false) ==> r is None);

impl AddAssign<&Self> for LtHash {
/*@ extract src/execution/commitment.rs :: impl AddAssign<&Self> for LtHash/fn add_assign
props C20
nopub
rewrite[R4] `for (lane, other) in self.lanes.iter_mut().zip(&rhs.lanes) {` => `let mut verif_i: usize = 0; while verif_i < NUM_LANES { let lane = &mut self.lanes[verif_i]; let other = &rhs.lanes[verif_i]; verif_i += 1;`
ensures
        // [C20.add_assign_is_the_lanewise_wrapping_sum]
        final(self).vec() == vadd(old(self).vec(), rhs.vec()),
loop 0
        invariant
            verif_i <= NUM_LANES,
            forall|j: int| 0 <= j < verif_i ==> #[trigger] self.lanes@[j] == wadd(old(self).lanes@[j], rhs.lanes@[j]),
            forall|j: int| verif_i <= j < NUM_LANES ==> #[trigger] self.lanes@[j] == old(self).lanes@[j],
        decreases NUM_LANES - verif_i
blockend `while verif_i < NUM_LANES`
        proof { assert(self.vec() =~= vadd(old(self).vec(), rhs.vec())); }
@*/
}

impl SubAssign<&Self> for LtHash {
/*@ extract src/execution/commitment.rs :: impl SubAssign<&Self> for LtHash/fn sub_assign
props C20
nopub
rewrite[R4] `for (lane, other) in self.lanes.iter_mut().zip(&rhs.lanes) {` => `let mut verif_i: usize = 0; while verif_i < NUM_LANES { let lane = &mut self.lanes[verif_i]; let other = &rhs.lanes[verif_i]; verif_i += 1;`
ensures
        // [C20.sub_assign_is_the_lanewise_wrapping_difference]
        final(self).vec() == vsub(old(self).vec(), rhs.vec()),
loop 0
        invariant
            verif_i <= NUM_LANES,
            forall|j: int| 0 <= j < verif_i ==> #[trigger] self.lanes@[j] == wsub(old(self).lanes@[j], rhs.lanes@[j]),
            forall|j: int| verif_i <= j < NUM_LANES ==> #[trigger] self.lanes@[j] == old(self).lanes@[j],
        decreases NUM_LANES - verif_i
blockend `while verif_i < NUM_LANES`
        proof { assert(self.vec() =~= vsub(old(self).vec(), rhs.vec())); }
@*/
}

impl LtHash {
/*@ extract src/execution/commitment.rs :: impl LtHash/fn identity
props C20
ret r
ensures
        // [C20.identity_commits_to_the_empty_state]
        r.vec() == vzero(),
        r.vec() == commit(Map::<Address, Seq<u8>>::empty()),
@*/

/*@ extract src/execution/commitment.rs :: impl LtHash/fn add_entry
props C20
ensures
        final(self).vec() == vadd(old(self).vec(), spec_entry_hash(*key, value@)),
@*/

/*@ extract src/execution/commitment.rs :: impl LtHash/fn remove_entry
props C20
ensures
        final(self).vec() == vsub(old(self).vec(), spec_entry_hash(*key, value@)),
@*/

/*@ extract src/execution/commitment.rs :: impl LtHash/fn observe
props C20
sig `old: Option<&[u8]>` => `verif_old: Option<&[u8]>`
rewrite*[rename-param] `old` => `verif_old`
ensures
        // [C20.observe_folds_exactly_the_write] remove the old entry if there was one, add the new one if there is one
        // (the parameter `old` is renamed throughout the body: the name shadows Verus's old(self))
        final(self).vec() == observe_spec(old(self).vec(), *key,
            match verif_old { Some(o) => Some(o@), None => None }, match new { Some(n) => Some(n@), None => None }),
@*/

// Canary: observe under a false contract (claims the old entry is never subtracted); MUST fail.
/*@ extract src/execution/commitment.rs :: impl LtHash/fn observe
as canary_observe
expect-fail
sig `old: Option<&[u8]>` => `verif_old: Option<&[u8]>`
rewrite*[rename-param] `old` => `verif_old`
ensures
        final(self).vec() == observe_spec(old(self).vec(), *key, None, match new { Some(n) => Some(n@), None => None }),
@*/
}

} // mod code

} // verus!
fn main() {}
