// Unit U4 `finality`: per-node finality tracking and pruning watermark
// (src/consensus/pool/finality_tracker.rs).  Serves C08 (and the add_parent panic site of C10).
use vstd::prelude::*;
use std::collections::BTreeMap;

verus! {

/*@ include units/common/base_types.rs @*/

// TRUSTED: the tuple order on BlockId = (Slot, BlockHash) is a lawful total order (std derives it
// lexicographically from the two lawful component orders).
#[verifier::external_body]
pub broadcast proof fn axiom_block_id_obeys_cmp_laws()
    ensures #[trigger] vstd::laws_cmp::obeys_cmp::<(Slot, DoubleMerkleRoot)>()
{}

impl Slot {
/*@ extract src/types/slot.rs :: impl Slot/fn genesis
ret r
ensures
        r.0 == 0,
@*/
/*@ extract src/types/slot.rs :: impl Slot/fn next
ret r
requires
        // [C08.slot_next_no_overflow C10.slot_next_no_overflow]
        self.0 < u64::MAX,
ensures
        r.0 == self.0 + 1,
@*/
}

/*@ extract src/consensus/pool/finality_tracker.rs :: struct FinalityTracker
@*/
/*@ extract src/consensus/pool/finality_tracker.rs :: enum FinalizationStatus
derive
traits Clone Eq
@*/
/*@ extract src/consensus/pool/finality_tracker.rs :: struct FinalizationEvent
derive
@*/

// #[derive(Default)] on FinalizationEvent: TRUSTED to be (None, [], []).
impl Default for FinalizationEvent {
    #[verifier::external_body]
    fn default() -> (r: FinalizationEvent)
        ensures r.finalized is None, r.implicitly_finalized@.len() == 0, r.implicitly_skipped@.len() == 0
    { unimplemented!() }
}

/*@ include units/finality/spec.rs @*/

pub proof fn lemma_prefix_contains<T>(a: Seq<T>, b: Seq<T>, x: T)
    requires a.is_prefix_of(b), a.contains(x),
    ensures b.contains(x),
{
    let i = choose|i: int| 0 <= i < a.len() && a[i] == x;
    assert(b[i] == x);
}

pub mod code {
use super::*;
broadcast use super::axiom_Slot_obeys_cmp_laws, super::axiom_block_id_obeys_cmp_laws;

/*@ include units/common/std_specs.rs @*/

// TRUSTED wrappers naming two std calls that have no vstd specification (rewrite R8):
//   m.split_off(&root)                 keeps keys >= root in the result
//   m.retain(|(slot, _), _| *slot >= root)
// Rewrite R9: `.clone()` on the tuple type BlockId = (Slot, BlockHash) is a compiler built-in impl
// Verus cannot see; it is named through this TRUSTED wrapper (clone of a tuple == the tuple).
#[verifier::external_body]
pub fn verif_clone_block_id(b: &BlockId) -> (r: BlockId)
    ensures r == *b
{ unimplemented!() }

// `==` on the tuple type BlockId (built-in PartialEq impl for tuples): TRUSTED to be equality.
#[verifier::external_body]
pub fn verif_block_id_eq(a: &BlockId, b: &BlockId) -> (r: bool)
    ensures r == (*a == *b)
{ unimplemented!() }

#[verifier::external_body]
pub fn verif_cloned_block_id(o: Option<&BlockId>) -> (r: Option<BlockId>)
    ensures
        o is None ==> r is None,
        o matches Some(x) ==> r == Some(*x),
{ unimplemented!() }

#[verifier::external_body]
pub fn verif_split_off_status(m: &mut BTreeMap<Slot, FinalizationStatus>, root: &Slot) -> (r: BTreeMap<Slot, FinalizationStatus>)
    ensures
        forall|s: Slot| #[trigger] r@.contains_key(s) <==> (old(m)@.contains_key(s) && s.0 >= root.0),
        forall|s: Slot| r@.contains_key(s) ==> r@[s] == old(m)@[s],
{ unimplemented!() }

#[verifier::external_body]
pub fn verif_retain_parents(m: &mut BTreeMap<BlockId, BlockId>, root: Slot)
    ensures
        forall|b: BlockId| #[trigger] final(m)@.contains_key(b) <==> (old(m)@.contains_key(b) && b.0.0 >= root.0),
        forall|b: BlockId| final(m)@.contains_key(b) ==> final(m)@[b] == old(m)@[b],
{ unimplemented!() }

impl FinalityTracker {
/*@ extract src/consensus/pool/finality_tracker.rs :: impl FinalityTracker/fn highest_finalized_slot
ret r
ensures
        r == self.highest_finalized_slot,
@*/
/*@ extract src/consensus/pool/finality_tracker.rs :: impl FinalityTracker/fn first_unpruned_slot
ret r
ensures
        r == self.first_unpruned_slot,
@*/

/*@ extract src/consensus/pool/finality_tracker.rs :: impl FinalityTracker/fn prune
props C08
rewrite[R8] `self.status = self.status.split_off(&root);` => `self.status = verif_split_off_status(&mut self.status, &root);`
rewrite[R8] `self.parents.retain(|(slot, _), _| *slot >= root);` => `verif_retain_parents(&mut self.parents, root);`
requires
        old(self).wf_base(),
ensures
        // [C08.watermark_only_over_decided_prefix]
        final(self).first_unpruned_slot.0 >= old(self).first_unpruned_slot.0,
        forall|s: Slot| old(self).first_unpruned_slot.0 < s.0 <= final(self).first_unpruned_slot.0 ==> decided(#[trigger] old(self).st(s)),
        // [C08.nothing_undecided_is_dropped]
        forall|s: Slot| s.0 >= final(self).first_unpruned_slot.0 ==> #[trigger] final(self).st(s) == old(self).st(s),
        forall|b: BlockId| b.0.0 >= final(self).first_unpruned_slot.0 ==> (#[trigger] final(self).parents@.contains_key(b) <==> old(self).parents@.contains_key(b)),
        forall|b: BlockId| final(self).parents@.contains_key(b) ==> final(self).parents@[b] == old(self).parents@[b],
        // [C08.nothing_older_is_retained]
        final(self).wf(),
        final(self).highest_finalized_slot == old(self).highest_finalized_slot,
closure 0
        params status: &FinalizationStatus
        ret b: bool
        ensures b == (*status is Finalized || *status is ImplicitlyFinalized || *status is ImplicitlySkipped)
loop 0
        invariant
            self.status@ == old(self).status@,
            self.parents@ == old(self).parents@,
            self.highest_finalized_slot == old(self).highest_finalized_slot,
            old(self).first_unpruned_slot.0 <= self.first_unpruned_slot.0 <= self.highest_finalized_slot.0,
            self.highest_finalized_slot.0 < u64::MAX,
            next.0 == self.first_unpruned_slot.0 + 1,
            forall|s: Slot| old(self).first_unpruned_slot.0 < s.0 <= self.first_unpruned_slot.0 ==> decided(#[trigger] old(self).st(s)),
            old(self).wf_base(),
        decreases u64::MAX - next.0,
before `self.first_unpruned_slot = next;`
        proof { assert(decided(old(self).st(next))); }
after `verif_retain_parents(&mut self.parents, root);`
        proof {
            assert forall|s: Slot| #[trigger] self.st(s) == (if s.0 >= root.0 { old(self).st(s) } else { None }) by {}
            assert(self.wf_base());
            assert(!decided(old(self).st(next)));
            assert(next.0 == root.0 + 1);
            assert(next == Slot((root.0 + 1) as u64));
        }
@*/

/*@ extract src/consensus/pool/finality_tracker.rs :: impl FinalityTracker/fn handle_implicitly_finalized
props C08
rewrite*[R9] `implicitly_finalized.clone()` => `verif_clone_block_id(&implicitly_finalized)`
rewrite[R9] `self.parents.get(&implicitly_finalized).cloned()` => `verif_cloned_block_id(self.parents.get(&implicitly_finalized))`
rewrite[R4] `for slot in implicitly_finalized.0.future_slots() {` => `let mut verif_slot_it = implicitly_finalized.0; loop { verif_slot_it = verif_slot_it.next(); let slot = verif_slot_it;`
requires
        old(self).wf_base(),
        // [C08.parent_in_earlier_slot C10.parent_in_earlier_slot]
        source_slot.0 > implicitly_finalized.0.0,
        source_slot.0 <= old(self).highest_finalized_slot.0,
ensures
        final(self).wf_base(),
        final(self).parents@ == old(self).parents@,
        final(self).highest_finalized_slot == old(self).highest_finalized_slot,
        final(self).first_unpruned_slot == old(self).first_unpruned_slot,
        // [C08.no_downgrade]
        forall|s: Slot| keeps_decision(#[trigger] old(self).st(s), final(self).st(s)),
        forall|s: Slot| !decided(final(self).st(s)) ==> final(self).st(s) == #[trigger] old(self).st(s),
        forall|s: Slot| decided(final(self).st(s)) && !decided(#[trigger] old(self).st(s)) ==> s.0 < source_slot.0,
        // [C08.ancestors_decided_as_soon_as_link_known C07.finalization_decides_every_slot_between]
        implicitly_finalized.0.0 >= old(self).first_unpruned_slot.0 ==>
            ((exists|t: Slot| implicitly_finalized.0.0 < t.0 < source_slot.0 && #[trigger] old(self).st(t) == Some(FinalizationStatus::ImplicitlySkipped))
             || (fin_hash(final(self).st(implicitly_finalized.0)) == Some(implicitly_finalized.1)
                 && forall|t: Slot| implicitly_finalized.0.0 < t.0 < source_slot.0 ==> decided(#[trigger] final(self).st(t)))),
        // a decided slot is not touched at all by the ancestor walk
        forall|s: Slot| decided(#[trigger] old(self).st(s)) ==> final(self).st(s) == old(self).st(s),
        // [C07.finalization_consequences_are_reported C08.newly_decided_slots_are_reported]
        forall|s: Slot| decided(final(self).st(s)) && !decided(#[trigger] old(self).st(s)) ==> reported_in(*final(event), s, final(self).st(s)),
        // [C08.implicit_events_reported_once]
        final(event).finalized == old(event).finalized,
        old(event).implicitly_skipped@.is_prefix_of(final(event).implicitly_skipped@),
        old(event).implicitly_finalized@.is_prefix_of(final(event).implicitly_finalized@),
        forall|i: int| old(event).implicitly_skipped@.len() <= i < final(event).implicitly_skipped@.len() ==>
            !decided(old(self).st(#[trigger] final(event).implicitly_skipped@[i])) && final(self).st(final(event).implicitly_skipped@[i]) == Some(FinalizationStatus::ImplicitlySkipped),
        forall|i: int| old(event).implicitly_finalized@.len() <= i < final(event).implicitly_finalized@.len() ==>
            fin_hash(old(self).st((#[trigger] final(event).implicitly_finalized@[i]).0)) is None
            && fin_hash(final(self).st(final(event).implicitly_finalized@[i].0)) == Some(final(event).implicitly_finalized@[i].1),
decreases source_slot.0
loop 0
        invariant_except_break
            verif_slot_it.0 < source_slot.0,
        invariant
            pre == *old(self), pre_ev == *old(event),
            self.wf_base(),
            self.parents@ == old(self).parents@,
            self.highest_finalized_slot == old(self).highest_finalized_slot,
            self.first_unpruned_slot == old(self).first_unpruned_slot,
            implicitly_finalized.0.0 >= self.first_unpruned_slot.0,
            implicitly_finalized.0.0 <= verif_slot_it.0 <= source_slot.0,
            source_slot.0 <= self.highest_finalized_slot.0,
            forall|s: Slot| keeps_decision(#[trigger] old(self).st(s), self.st(s)),
            forall|s: Slot| decided(#[trigger] old(self).st(s)) ==> self.st(s) == old(self).st(s),
            forall|s: Slot| decided(self.st(s)) && !decided(#[trigger] old(self).st(s)) ==> reported_in(*event, s, self.st(s)),
            forall|s: Slot| !decided(self.st(s)) ==> self.st(s) == #[trigger] old(self).st(s),
            forall|s: Slot| decided(self.st(s)) && !decided(#[trigger] old(self).st(s)) ==> implicitly_finalized.0.0 < s.0 <= verif_slot_it.0 && s.0 < source_slot.0,
            forall|t: Slot| implicitly_finalized.0.0 < t.0 <= verif_slot_it.0 && t.0 < source_slot.0 ==> decided(#[trigger] self.st(t)),
            forall|t: Slot| verif_slot_it.0 < t.0 ==> self.st(t) == #[trigger] old(self).st(t),
            event.finalized == old(event).finalized,
            event.implicitly_finalized@ == old(event).implicitly_finalized@,
            old(event).implicitly_skipped@.is_prefix_of(event.implicitly_skipped@),
            forall|i: int| old(event).implicitly_skipped@.len() <= i < event.implicitly_skipped@.len() ==>
                !decided(old(self).st(#[trigger] event.implicitly_skipped@[i])) && self.st(event.implicitly_skipped@[i]) == Some(FinalizationStatus::ImplicitlySkipped)
                && implicitly_finalized.0.0 < event.implicitly_skipped@[i].0 <= verif_slot_it.0 && event.implicitly_skipped@[i].0 < source_slot.0,
        ensures
            verif_slot_it.0 == source_slot.0,
        decreases source_slot.0 - verif_slot_it.0,
before `vassert(source_slot > implicitly_finalized.0);`
        let ghost pre = *self;
        let ghost pre_ev = *event;
before `let old = self .status .insert(slot, FinalizationStatus::ImplicitlySkipped);`
        let ghost g1 = *self;
        let ghost evp = *event;

after `let old = self .status .insert(slot, FinalizationStatus::ImplicitlySkipped);`
        proof {
            assert forall|s: Slot| #[trigger] self.st(s) == (if s == slot { Some(FinalizationStatus::ImplicitlySkipped) } else { g1.st(s) }) by {}
            assert(old == g1.st(slot));
        }
before `let (slot, block_hash) = verif_clone_block_id(&implicitly_finalized);`
        let ghost g2 = *self;
        let ghost ev2 = *event;
after `FinalizationStatus::ImplicitlyFinalized(block_hash.clone()), );`
        proof {
            assert forall|s: Slot| #[trigger] self.st(s) == (if s == slot { Some(FinalizationStatus::ImplicitlyFinalized(block_hash)) } else { g2.st(s) }) by {}
            assert(old == g2.st(slot));
        }
after `self.status.insert(slot, status);`
        proof {
            assert forall|s: Slot| #[trigger] self.st(s) == g2.st(s) by {}
            assert(self.status@ =~= g2.status@);
            assert forall|t: Slot| implicitly_finalized.0.0 < t.0 < source_slot.0 implies decided(#[trigger] self.st(t)) by { let _ = g2.st(t); }
        }
before `return;#1`
        proof { assert(old == Some(FinalizationStatus::ImplicitlySkipped)); assert(g1.st(slot) == old); assert(g1.st(slot) == pre.st(slot)); assert(pre.st(slot) == Some(FinalizationStatus::ImplicitlySkipped)); }
before `if let Some(parent) = verif_cloned_block_id(self.parents.get(&implicitly_finalized))`
        let ghost g3 = *self;
        let ghost ev3 = *event;
        proof {
            assert(g3.wf_base());
            assert forall|s: Slot| keeps_decision(#[trigger] pre.st(s), g3.st(s)) by { let _ = g2.st(s); }
            assert forall|s: Slot| !decided(g3.st(s)) implies g3.st(s) == #[trigger] pre.st(s) by { let _ = g2.st(s); }
            assert forall|s: Slot| decided(g3.st(s)) && !decided(#[trigger] pre.st(s)) implies s.0 < source_slot.0 by { let _ = g2.st(s); }
            assert(ev3.implicitly_finalized@ == pre_ev.implicitly_finalized@.push(implicitly_finalized));
            assert(fin_hash(pre.st(implicitly_finalized.0)) is None);
            assert(g3.st(implicitly_finalized.0) == Some(FinalizationStatus::ImplicitlyFinalized(implicitly_finalized.1)));
            assert forall|t: Slot| implicitly_finalized.0.0 < t.0 < source_slot.0 implies decided(#[trigger] g3.st(t)) by { let _ = g2.st(t); }
            assert(ev3.implicitly_finalized@[pre_ev.implicitly_finalized@.len() as int] == implicitly_finalized);
            assert(ev3.implicitly_skipped@ == ev2.implicitly_skipped@);
            assert forall|s: Slot| decided(g3.st(s)) && !decided(#[trigger] pre.st(s)) implies reported_in(ev3, s, g3.st(s)) by {
                if s != implicitly_finalized.0 {
                    let _ = g2.st(s);
                    assert(reported_in(ev2, s, g2.st(s)));
                    assert(g3.st(s) == g2.st(s));
                    match g2.st(s) {
                        Some(FinalizationStatus::ImplicitlyFinalized(h)) => { lemma_prefix_contains(ev2.implicitly_finalized@, ev3.implicitly_finalized@, (s, h)); }
                        _ => {}
                    }
                }
            }
            assert forall|s: Slot| decided(#[trigger] pre.st(s)) implies g3.st(s) == pre.st(s) by { let _ = g2.st(s); }
        }
after `self.handle_implicitly_finalized(implicitly_finalized.0, parent, event);`
        proof {
            assert forall|s: Slot| decided(#[trigger] pre.st(s)) implies self.st(s) == pre.st(s) by { let _ = g3.st(s); }
            assert forall|s: Slot| decided(self.st(s)) && !decided(#[trigger] pre.st(s)) implies reported_in(*event, s, self.st(s)) by {
                if decided(g3.st(s)) {
                    assert(self.st(s) == g3.st(s));
                    assert(reported_in(ev3, s, g3.st(s)));
                    match g3.st(s) {
                        Some(FinalizationStatus::ImplicitlySkipped) => { lemma_prefix_contains(ev3.implicitly_skipped@, event.implicitly_skipped@, s); }
                        Some(FinalizationStatus::ImplicitlyFinalized(h)) => { lemma_prefix_contains(ev3.implicitly_finalized@, event.implicitly_finalized@, (s, h)); }
                        _ => {}
                    }
                }
            }
            assert forall|s: Slot| keeps_decision(#[trigger] pre.st(s), self.st(s)) by { let _ = g3.st(s); }
            assert forall|t: Slot| implicitly_finalized.0.0 < t.0 < source_slot.0 implies decided(#[trigger] self.st(t)) by { let _ = g3.st(t); }
            assert(fin_hash(self.st(implicitly_finalized.0)) == Some(implicitly_finalized.1)) by { let _ = g3.st(implicitly_finalized.0); }
            assert forall|s: Slot| !decided(self.st(s)) implies self.st(s) == #[trigger] pre.st(s) by { let _ = g3.st(s); }
            assert forall|s: Slot| decided(self.st(s)) && !decided(#[trigger] pre.st(s)) implies s.0 < source_slot.0 by { let _ = g3.st(s); }
            assert forall|i: int| pre_ev.implicitly_finalized@.len() <= i < event.implicitly_finalized@.len() implies
                fin_hash(pre.st((#[trigger] event.implicitly_finalized@[i]).0)) is None
                && fin_hash(self.st(event.implicitly_finalized@[i].0)) == Some(event.implicitly_finalized@[i].1) by {
                let e = event.implicitly_finalized@[i];
                let _ = g3.st(e.0);
                if i < ev3.implicitly_finalized@.len() {
                    assert(event.implicitly_finalized@[i] == ev3.implicitly_finalized@[i]);
                }
            }
            assert forall|i: int| pre_ev.implicitly_skipped@.len() <= i < event.implicitly_skipped@.len() implies
                !decided(pre.st(#[trigger] event.implicitly_skipped@[i])) && self.st(event.implicitly_skipped@[i]) == Some(FinalizationStatus::ImplicitlySkipped) by {
                let e = event.implicitly_skipped@[i];
                let _ = g3.st(e);
                if i < ev3.implicitly_skipped@.len() {
                    assert(event.implicitly_skipped@[i] == ev3.implicitly_skipped@[i]);
                }
            }
        }
blockend `let old = self .status .insert(slot, FinalizationStatus::ImplicitlySkipped);`
        proof {
            // [C07.implicitly_skipped_slot_is_listed C08.implicitly_skipped_slot_is_listed]
            assert(event.implicitly_skipped@ == evp.implicitly_skipped@.push(slot));
            assert(event.implicitly_skipped@[evp.implicitly_skipped@.len() as int] == slot);
            assert forall|x: Slot| evp.implicitly_skipped@.contains(x) implies event.implicitly_skipped@.contains(x) by {
                lemma_prefix_contains(evp.implicitly_skipped@, event.implicitly_skipped@, x);
            }
            assert forall|s: Slot| decided(self.st(s)) && !decided(#[trigger] pre.st(s)) implies reported_in(*event, s, self.st(s)) by {
                if s != slot { let _ = g1.st(s); assert(reported_in(evp, s, g1.st(s))); }
            }
        }
@*/

// ---------------------------------------------------------------- finding F24: a notarized block that is never finalized
// The same two bodies once more with their "consensus safety violation" assertions as proof OBLIGATIONS (everywhere else
// they are assumptions, see base_types.rs), on the states that are NO violation: below the finalized descendant the node
// knows nothing but notarization certificates - of whatever block of the slot.  A notarized block that is never finalized
// can have a notar-fallback sibling from which the finalized chain continues (an equivocating leader and a 60/40 split of
// the notar votes suffice, Byzantine stake stays below 20%), so the ancestors must be finalized without tripping over it.
/*@ extract src/consensus/pool/finality_tracker.rs :: impl FinalityTracker/fn handle_implicitly_finalized
as handle_implicitly_finalized_past_notarized_siblings
props C08 C07
safety-asserts obligations
rewrite*[R9] `implicitly_finalized.clone()` => `verif_clone_block_id(&implicitly_finalized)`
rewrite[R9] `self.parents.get(&implicitly_finalized).cloned()` => `verif_cloned_block_id(self.parents.get(&implicitly_finalized))`
rewrite[R4] `for slot in implicitly_finalized.0.future_slots() {` => `let mut verif_slot_it = implicitly_finalized.0; loop { verif_slot_it = verif_slot_it.next(); let slot = verif_slot_it;`
rewrite[R2] `self.handle_implicitly_finalized(implicitly_finalized.0, parent, event);` => `self.handle_implicitly_finalized_past_notarized_siblings(implicitly_finalized.0, parent, event);`
requires
        old(self).wf_base(),
        source_slot.0 > implicitly_finalized.0.0,
        source_slot.0 <= old(self).highest_finalized_slot.0,
        forall|s: Slot| s.0 < source_slot.0 ==> ((#[trigger] old(self).st(s)) is None || (old(self).st(s) matches Some(FinalizationStatus::Notarized(_)))),
ensures
        final(self).wf_base(),
        final(self).parents@ == old(self).parents@,
        final(self).highest_finalized_slot == old(self).highest_finalized_slot,
        final(self).first_unpruned_slot == old(self).first_unpruned_slot,
        forall|s: Slot| s.0 >= source_slot.0 ==> final(self).st(s) == #[trigger] old(self).st(s),
        // [C08.notarized_sibling_of_the_finalized_chain_is_no_safety_violation C07.notarized_sibling_of_the_finalized_chain_is_no_safety_violation]
        // no assertion fires (each is an obligation here) and the ancestor becomes finalized whatever block of its slot was notarized
        implicitly_finalized.0.0 >= old(self).first_unpruned_slot.0 ==> fin_hash(final(self).st(implicitly_finalized.0)) == Some(implicitly_finalized.1),
decreases source_slot.0
loop 0
        invariant_except_break
            verif_slot_it.0 < source_slot.0,
        invariant
            pre == *old(self),
            source_slot.0 > implicitly_finalized.0.0,
            forall|s: Slot| s.0 < source_slot.0 ==> ((#[trigger] old(self).st(s)) is None || (old(self).st(s) matches Some(FinalizationStatus::Notarized(_)))),
            self.wf_base(),
            self.parents@ == old(self).parents@,
            self.highest_finalized_slot == old(self).highest_finalized_slot,
            self.first_unpruned_slot == old(self).first_unpruned_slot,
            implicitly_finalized.0.0 >= self.first_unpruned_slot.0,
            implicitly_finalized.0.0 <= verif_slot_it.0 <= source_slot.0,
            source_slot.0 <= self.highest_finalized_slot.0,
            forall|s: Slot| s.0 <= implicitly_finalized.0.0 || s.0 > verif_slot_it.0 || s.0 >= source_slot.0 ==> self.st(s) == #[trigger] old(self).st(s),
        ensures
            verif_slot_it.0 == source_slot.0,
        decreases source_slot.0 - verif_slot_it.0,
before `vassert(source_slot > implicitly_finalized.0);`
        let ghost pre = *self;
before `let old = self .status .insert(slot, FinalizationStatus::ImplicitlySkipped);`
        let ghost g1 = *self;
after `let old = self .status .insert(slot, FinalizationStatus::ImplicitlySkipped);`
        proof {
            assert forall|s: Slot| #[trigger] self.st(s) == (if s == slot { Some(FinalizationStatus::ImplicitlySkipped) } else { g1.st(s) }) by {}
            assert(old == g1.st(slot));
            assert(g1.st(slot) == pre.st(slot));
        }
before `let (slot, block_hash) = verif_clone_block_id(&implicitly_finalized);`
        let ghost g2 = *self;
after `FinalizationStatus::ImplicitlyFinalized(block_hash.clone()), );`
        proof {
            assert forall|s: Slot| #[trigger] self.st(s) == (if s == slot { Some(FinalizationStatus::ImplicitlyFinalized(block_hash)) } else { g2.st(s) }) by {}
            assert(old == g2.st(slot));
            assert(g2.st(slot) == pre.st(slot));
        }
before `if let Some(parent) = verif_cloned_block_id(self.parents.get(&implicitly_finalized))`
        let ghost g3 = *self;
        proof {
            assert(g3.wf_base());
            assert forall|s: Slot| s.0 < implicitly_finalized.0.0 implies #[trigger] g3.st(s) == pre.st(s) by { let _ = g2.st(s); let _ = pre.st(s); }
            assert forall|s: Slot| s.0 >= source_slot.0 implies #[trigger] g3.st(s) == pre.st(s) by { let _ = g2.st(s); let _ = pre.st(s); }
        }
after `self.handle_implicitly_finalized_past_notarized_siblings(implicitly_finalized.0, parent, event);`
        proof {
            assert forall|s: Slot| s.0 >= source_slot.0 implies self.st(s) == #[trigger] pre.st(s) by { let _ = g3.st(s); }
            assert(fin_hash(self.st(implicitly_finalized.0)) == Some(implicitly_finalized.1)) by { let _ = g3.st(implicitly_finalized.0); }
        }
@*/

/*@ extract src/consensus/pool/finality_tracker.rs :: impl FinalityTracker/fn mark_notarized
as mark_notarized_beside_an_implicitly_finalized_sibling
props C08
safety-asserts obligations
ret r
requires
        old(self).wf(),
        block.0.0 < u64::MAX,
        block.0.0 >= old(self).first_unpruned_slot.0,
        old(self).st(block.0) matches Some(FinalizationStatus::ImplicitlyFinalized(_)),
ensures
        // [C08.notarized_sibling_of_the_finalized_chain_is_no_safety_violation] the late notarization certificate of a sibling of
        // an implicitly finalized block is no violation either: no assertion fires, the slot keeps its decision
        final(self).st(block.0) == old(self).st(block.0),
        event_is_default(r),
before `let old = self .status .insert(*slot, FinalizationStatus::Notarized(block_hash.clone()));`
        let ghost pre = *self;
after `let old = self .status .insert(*slot, FinalizationStatus::Notarized(block_hash.clone()));`
        proof {
            assert forall|s: Slot| #[trigger] self.st(s) == (if s == *slot { Some(FinalizationStatus::Notarized(*block_hash)) } else { pre.st(s) }) by {}
            assert(old == pre.st(*slot));
        }
@*/

/*@ extract src/consensus/pool/finality_tracker.rs :: impl FinalityTracker/fn handle_finalized_block
props C08
rewrite*[R9] `finalized.clone()` => `verif_clone_block_id(&finalized)`
rewrite[R9] `self.parents.get(&finalized).cloned()` => `verif_cloned_block_id(self.parents.get(&finalized))`
requires
        old(self).wf_base_exc(finalized.0),
        finalized.0.0 < u64::MAX,
        old(self).st(finalized.0) == Some(FinalizationStatus::Finalized(finalized.1)),
        event_is_default(*old(event)),
ensures
        final(self).wf(),
        // [C08.finalized_reported_with_its_block]
        final(event).finalized == Some(finalized),
        // [C08.highest_finalized_never_decreases]
        final(self).highest_finalized_slot.0 == (if finalized.0.0 >= old(self).highest_finalized_slot.0 { finalized.0.0 } else { old(self).highest_finalized_slot.0 }),
        final(self).first_unpruned_slot.0 >= old(self).first_unpruned_slot.0,
        // [C08.no_downgrade]
        forall|s: Slot| s.0 >= final(self).first_unpruned_slot.0 ==> keeps_decision(#[trigger] old(self).st(s), final(self).st(s)),
        forall|s: Slot| s.0 >= final(self).first_unpruned_slot.0 && !decided(final(self).st(s)) ==> final(self).st(s) == #[trigger] old(self).st(s),
        // [C08.nothing_undecided_is_dropped]
        forall|b: BlockId| b.0.0 >= final(self).first_unpruned_slot.0 ==> (#[trigger] final(self).parents@.contains_key(b) <==> old(self).parents@.contains_key(b)),
        // [C07.finalization_consequences_are_reported C08.newly_decided_slots_are_reported] every slot above the old watermark that
        // this finalization decides (whether it is then pruned or kept) is listed in the event
        forall|s: Slot| s.0 > old(self).first_unpruned_slot.0 && !decided(#[trigger] old(self).st(s))
            && (s.0 < final(self).first_unpruned_slot.0 || decided(final(self).st(s))) ==> reported_any(*final(event), s),
        // [C08.implicit_events_reported_once]
        forall|i: int| 0 <= i < final(event).implicitly_skipped@.len() ==> !decided(old(self).st(#[trigger] final(event).implicitly_skipped@[i])),
        forall|i: int| 0 <= i < final(event).implicitly_finalized@.len() ==> fin_hash(old(self).st((#[trigger] final(event).implicitly_finalized@[i]).0)) is None,
after `self.highest_finalized_slot = slot.max(self.highest_finalized_slot);`
        let ghost g1 = *self;
        proof {
            assert forall|s: Slot| #[trigger] self.st(s) == old(self).st(s) by {}
            assert(self.wf_base());
        }
before `self.prune();`
        let ghost g2 = *self;
        let ghost ev2 = *event;
        proof {
            assert forall|s: Slot| decided(g2.st(s)) && !decided(#[trigger] old(self).st(s)) implies reported_any(ev2, s) by {
                let _ = g1.st(s);
                assert(reported_in(ev2, s, g2.st(s)));
            }
            assert forall|s: Slot| keeps_decision(#[trigger] old(self).st(s), g2.st(s)) by { let _ = g1.st(s); }
            assert forall|s: Slot| !decided(g2.st(s)) implies g2.st(s) == #[trigger] old(self).st(s) by { let _ = g1.st(s); }
        }
after `self.prune();`
        proof {
            assert forall|s: Slot| s.0 > old(self).first_unpruned_slot.0 && !decided(#[trigger] old(self).st(s))
                && (s.0 < self.first_unpruned_slot.0 || decided(self.st(s))) implies reported_any(*event, s) by {
                if s.0 < self.first_unpruned_slot.0 { assert(decided(g2.st(s))); } else { assert(self.st(s) == g2.st(s)); }
            }
        }
@*/

/*@ extract src/consensus/pool/finality_tracker.rs :: impl FinalityTracker/fn mark_fast_finalized
props C08
ret r
requires
        old(self).wf(),
        block.0.0 < u64::MAX,
ensures
        // [C07.finalization_consequences_are_reported C08.newly_decided_slots_are_reported]
        forall|s: Slot| s.0 > old(self).first_unpruned_slot.0 && !decided(#[trigger] old(self).st(s))
            && (s.0 < final(self).first_unpruned_slot.0 || decided(final(self).st(s)))
            ==> (r.finalized matches Some(f) && f.0 == s) || reported_any(r, s),
        final(self).wf(),
        // [C08.below_watermark_is_a_noop]
        block.0.0 < old(self).first_unpruned_slot.0 ==> final(self).same_as(old(self)) && event_is_default(r),
        // [C08.finalized_exactly_when_certificates_justify]
        r.finalized is Some <==> (block.0.0 >= old(self).first_unpruned_slot.0 && fin_hash(old(self).st(block.0)) is None),
        r.finalized is Some ==> r.finalized == Some(block),
        block.0.0 >= final(self).first_unpruned_slot.0 ==> final(self).st(block.0) == Some(FinalizationStatus::Finalized(block.1)),
        // [C18.marks_stand_for_certificates C08.marks_stand_for_certificates]
        forall|s: Slot| mark_of(#[trigger] final(self).st(s)) ==> final(self).st(s) == old(self).st(s),
        hi_step(old(self), final(self), r),
        // [C08.highest_finalized_never_decreases]
        final(self).highest_finalized_slot.0 >= old(self).highest_finalized_slot.0,
        r.finalized is Some ==> final(self).highest_finalized_slot.0 >= block.0.0,
        r.finalized is None ==> final(self).highest_finalized_slot == old(self).highest_finalized_slot,
        final(self).first_unpruned_slot.0 >= old(self).first_unpruned_slot.0,
        // [C08.no_downgrade]
        forall|s: Slot| s.0 >= final(self).first_unpruned_slot.0 ==> keeps_decision(#[trigger] old(self).st(s), final(self).st(s)),
        // [C08.implicit_events_reported_once]
        forall|i: int| 0 <= i < r.implicitly_skipped@.len() ==> !decided(old(self).st(#[trigger] r.implicitly_skipped@[i])),
        forall|i: int| 0 <= i < r.implicitly_finalized@.len() ==> fin_hash(old(self).st((#[trigger] r.implicitly_finalized@[i]).0)) is None,
before `let old = self .status .insert(*slot, FinalizationStatus::Finalized(block_hash.clone()));`
        let ghost pre = *self;
after `let old = self .status .insert(*slot, FinalizationStatus::Finalized(block_hash.clone()));`
        proof {
            assert forall|s: Slot| #[trigger] self.st(s) == (if s == *slot { Some(FinalizationStatus::Finalized(*block_hash)) } else { pre.st(s) }) by {}
            assert(old == pre.st(*slot));
        }
before `self.handle_finalized_block(block, &mut event);`
        let ghost g = *self;
after `self.handle_finalized_block(block, &mut event);`
        proof {
            assert forall|s: Slot| mark_of(#[trigger] self.st(s)) implies self.st(s) == pre.st(s) by {
                let _ = g.st(s);
                assert(self.status@.contains_key(s));
            }
            assert forall|s: Slot| s.0 >= self.first_unpruned_slot.0 implies keeps_decision(#[trigger] pre.st(s), self.st(s)) by { let _ = g.st(s); }
            assert forall|s: Slot| s.0 > pre.first_unpruned_slot.0 && !decided(#[trigger] pre.st(s))
                && (s.0 < self.first_unpruned_slot.0 || decided(self.st(s))) implies (event.finalized matches Some(f) && f.0 == s) || reported_any(event, s) by { let _ = g.st(s); }
        }
@*/

/*@ extract src/consensus/pool/finality_tracker.rs :: impl FinalityTracker/fn mark_notarized
props C08
ret r
requires
        old(self).wf(),
        block.0.0 < u64::MAX,
ensures
        // [C07.finalization_consequences_are_reported C08.newly_decided_slots_are_reported]
        forall|s: Slot| s.0 > old(self).first_unpruned_slot.0 && !decided(#[trigger] old(self).st(s))
            && (s.0 < final(self).first_unpruned_slot.0 || decided(final(self).st(s)))
            ==> (r.finalized matches Some(f) && f.0 == s) || reported_any(r, s),
        final(self).wf(),
        // [C08.below_watermark_is_a_noop]
        block.0.0 < old(self).first_unpruned_slot.0 ==> final(self).same_as(old(self)) && event_is_default(r),
        // [C08.finalized_exactly_when_certificates_justify]
        r.finalized is Some <==> (block.0.0 >= old(self).first_unpruned_slot.0 && old(self).st(block.0) == Some(FinalizationStatus::FinalPendingNotar)),
        r.finalized is Some ==> r.finalized == Some(block),
        (block.0.0 >= old(self).first_unpruned_slot.0 && old(self).st(block.0) is None) ==> final(self).st(block.0) == Some(FinalizationStatus::Notarized(block.1)),
        // [C18.marks_stand_for_certificates C08.marks_stand_for_certificates] the only slot that can newly carry the status that stands
        // for a stored certificate is this block's, and the highest finalized slot moves only to the slot reported finalized
        forall|s: Slot| s != block.0 && mark_of(#[trigger] final(self).st(s)) ==> final(self).st(s) == old(self).st(s),
        final(self).st(block.0) == Some(FinalizationStatus::FinalPendingNotar) ==> false,
        hi_step(old(self), final(self), r),
        // [C08.highest_finalized_never_decreases]
        final(self).highest_finalized_slot.0 >= old(self).highest_finalized_slot.0,
        r.finalized is Some ==> final(self).highest_finalized_slot.0 >= block.0.0,
        r.finalized is None ==> final(self).highest_finalized_slot == old(self).highest_finalized_slot,
        final(self).first_unpruned_slot.0 >= old(self).first_unpruned_slot.0,
        // [C08.no_downgrade]
        forall|s: Slot| s.0 >= final(self).first_unpruned_slot.0 ==> keeps_decision(#[trigger] old(self).st(s), final(self).st(s)),
        // [C08.implicit_events_reported_once]
        forall|i: int| 0 <= i < r.implicitly_skipped@.len() ==> !decided(old(self).st(#[trigger] r.implicitly_skipped@[i])),
        forall|i: int| 0 <= i < r.implicitly_finalized@.len() ==> fin_hash(old(self).st((#[trigger] r.implicitly_finalized@[i]).0)) is None,
before `let old = self .status .insert(*slot, FinalizationStatus::Notarized(block_hash.clone()));`
        let ghost pre = *self;
after `let old = self .status .insert(*slot, FinalizationStatus::Notarized(block_hash.clone()));`
        proof {
            assert forall|s: Slot| #[trigger] self.st(s) == (if s == *slot { Some(FinalizationStatus::Notarized(*block_hash)) } else { pre.st(s) }) by {}
            assert(old == pre.st(*slot));
        }
after `self.status .insert(*slot, FinalizationStatus::Finalized(block_hash.clone()));`
        proof {
            assert forall|s: Slot| #[trigger] self.st(s) == (if s == *slot { Some(FinalizationStatus::Finalized(*block_hash)) } else { pre.st(s) }) by {}
        }
after `self.status.insert(*slot, status);#0`
        proof { assert forall|s: Slot| #[trigger] self.st(s) == pre.st(s) by {} assert(self.status@ =~= pre.status@); }
after `self.status.insert(*slot, status);#1`
        proof { assert forall|s: Slot| #[trigger] self.st(s) == pre.st(s) by {} assert(self.status@ =~= pre.status@); }
before `self.handle_finalized_block(block, &mut event);`
        let ghost g = *self;
after `self.handle_finalized_block(block, &mut event);`
        proof {
            assert forall|s: Slot| s != block.0 && mark_of(#[trigger] self.st(s)) implies self.st(s) == pre.st(s) by {
                let _ = g.st(s);
                assert(self.status@.contains_key(s));
            }
            assert forall|s: Slot| s.0 >= self.first_unpruned_slot.0 implies keeps_decision(#[trigger] pre.st(s), self.st(s)) by { let _ = g.st(s); }
            assert forall|s: Slot| s.0 > pre.first_unpruned_slot.0 && !decided(#[trigger] pre.st(s))
                && (s.0 < self.first_unpruned_slot.0 || decided(self.st(s))) implies (event.finalized matches Some(f) && f.0 == s) || reported_any(event, s) by { let _ = g.st(s); }
        }
@*/

/*@ extract src/consensus/pool/finality_tracker.rs :: impl FinalityTracker/fn mark_finalized
props C08
ret r
requires
        old(self).wf(),
        slot.0 < u64::MAX,
ensures
        // [C07.finalization_consequences_are_reported C08.newly_decided_slots_are_reported]
        forall|s: Slot| s.0 > old(self).first_unpruned_slot.0 && !decided(#[trigger] old(self).st(s))
            && (s.0 < final(self).first_unpruned_slot.0 || decided(final(self).st(s)))
            ==> (r.finalized matches Some(f) && f.0 == s) || reported_any(r, s),
        final(self).wf(),
        // [C08.below_watermark_is_a_noop]
        slot.0 < old(self).first_unpruned_slot.0 ==> final(self).same_as(old(self)) && event_is_default(r),
        // [C08.finalized_exactly_when_certificates_justify]
        r.finalized is Some <==> (slot.0 >= old(self).first_unpruned_slot.0 && old(self).st(slot) matches Some(FinalizationStatus::Notarized(_))),
        r.finalized matches Some(b) ==> b.0 == slot && old(self).st(slot) == Some(FinalizationStatus::Notarized(b.1)),
        (slot.0 >= old(self).first_unpruned_slot.0 && old(self).st(slot) is None) ==> final(self).st(slot) == Some(FinalizationStatus::FinalPendingNotar),
        // [C18.marks_stand_for_certificates C08.marks_stand_for_certificates]
        forall|s: Slot| s != slot && mark_of(#[trigger] final(self).st(s)) ==> final(self).st(s) == old(self).st(s),
        final(self).st(slot) is Some && final(self).st(slot)->0 is Notarized ==> old(self).st(slot) == final(self).st(slot),
        hi_step(old(self), final(self), r),
        // [C08.highest_finalized_never_decreases]
        final(self).highest_finalized_slot.0 >= old(self).highest_finalized_slot.0,
        r.finalized is Some ==> final(self).highest_finalized_slot.0 >= slot.0,
        r.finalized is None ==> final(self).highest_finalized_slot == old(self).highest_finalized_slot,
        final(self).first_unpruned_slot.0 >= old(self).first_unpruned_slot.0,
        // [C08.no_downgrade]
        forall|s: Slot| s.0 >= final(self).first_unpruned_slot.0 ==> keeps_decision(#[trigger] old(self).st(s), final(self).st(s)),
        // [C08.implicit_events_reported_once]
        forall|i: int| 0 <= i < r.implicitly_skipped@.len() ==> !decided(old(self).st(#[trigger] r.implicitly_skipped@[i])),
        forall|i: int| 0 <= i < r.implicitly_finalized@.len() ==> fin_hash(old(self).st((#[trigger] r.implicitly_finalized@[i]).0)) is None,
before `let old = self .status .insert(slot, FinalizationStatus::FinalPendingNotar);`
        let ghost pre = *self;
after `let old = self .status .insert(slot, FinalizationStatus::FinalPendingNotar);`
        proof {
            assert forall|s: Slot| #[trigger] self.st(s) == (if s == slot { Some(FinalizationStatus::FinalPendingNotar) } else { pre.st(s) }) by {}
            assert(old == pre.st(slot));
        }
after `self.status .insert(slot, FinalizationStatus::Finalized(block_hash.clone()));`
        proof {
            assert forall|s: Slot| #[trigger] self.st(s) == (if s == slot { Some(FinalizationStatus::Finalized(block_hash)) } else { pre.st(s) }) by {}
        }
after `self.status.insert(slot, status);`
        proof { assert forall|s: Slot| #[trigger] self.st(s) == pre.st(s) by {} assert(self.status@ =~= pre.status@); }
before `self.handle_finalized_block((slot, block_hash), &mut event);`
        let ghost g = *self;
after `self.handle_finalized_block((slot, block_hash), &mut event);`
        proof {
            assert forall|s: Slot| s != slot && mark_of(#[trigger] self.st(s)) implies self.st(s) == pre.st(s) by {
                let _ = g.st(s);
                assert(self.status@.contains_key(s));
            }
            assert forall|s: Slot| s.0 >= self.first_unpruned_slot.0 implies keeps_decision(#[trigger] pre.st(s), self.st(s)) by { let _ = g.st(s); }
            assert forall|s: Slot| s.0 > pre.first_unpruned_slot.0 && !decided(#[trigger] pre.st(s))
                && (s.0 < self.first_unpruned_slot.0 || decided(self.st(s))) implies (event.finalized matches Some(f) && f.0 == s) || reported_any(event, s) by { let _ = g.st(s); }
        }
@*/

/*@ extract src/consensus/pool/finality_tracker.rs :: impl FinalityTracker/fn add_parent
props C08 C10
ret r
rewrite*[R9] `block.clone()` => `verif_clone_block_id(&block)`
rewrite*[R9] `parent.clone()` => `verif_clone_block_id(&parent)`
rewrite[R5] `match self.parents.entry(verif_clone_block_id(&block)) { Entry::Occupied(e) => { vassert(e.get() == &parent); return FinalizationEvent::default(); } Entry::Vacant(e) => { e.insert(verif_clone_block_id(&parent)); } }` => `match self.parents.get(&block) { Some(existing) => { vassert(verif_block_id_eq(existing, &parent)); return FinalizationEvent::default(); } None => { self.parents.insert(verif_clone_block_id(&block), verif_clone_block_id(&parent)); } }`
requires
        old(self).wf(),
        // [C10.parent_in_earlier_slot C08.parent_in_earlier_slot]
        block.0.0 > parent.0.0,
        // [C10.one_parent_per_block]
        old(self).parents@.contains_key(block) ==> old(self).parents@[block] == parent,
        block.0.0 < u64::MAX,
ensures
        // [C07.finalization_consequences_are_reported C08.newly_decided_slots_are_reported]
        forall|s: Slot| s.0 > old(self).first_unpruned_slot.0 && !decided(#[trigger] old(self).st(s))
            && (s.0 < final(self).first_unpruned_slot.0 || decided(final(self).st(s)))
            ==> (r.finalized matches Some(f) && f.0 == s) || reported_any(r, s),
        final(self).wf(),
        // [C08.below_watermark_is_a_noop]
        block.0.0 < old(self).first_unpruned_slot.0 ==> final(self).same_as(old(self)) && event_is_default(r),
        // [C08.parent_link_recorded]
        block.0.0 >= final(self).first_unpruned_slot.0 ==> final(self).parents@.contains_key(block) && final(self).parents@[block] == parent,
        // [C18.marks_stand_for_certificates C08.marks_stand_for_certificates]
        forall|s: Slot| mark_of(#[trigger] final(self).st(s)) ==> final(self).st(s) == old(self).st(s),
        // [C08.finalized_exactly_when_certificates_justify]
        r.finalized is None,
        final(self).highest_finalized_slot == old(self).highest_finalized_slot,
        final(self).first_unpruned_slot.0 >= old(self).first_unpruned_slot.0,
        // [C08.no_downgrade]
        forall|s: Slot| s.0 >= final(self).first_unpruned_slot.0 ==> keeps_decision(#[trigger] old(self).st(s), final(self).st(s)),
        // [C08.implicit_events_reported_once]
        forall|i: int| 0 <= i < r.implicitly_skipped@.len() ==> !decided(old(self).st(#[trigger] r.implicitly_skipped@[i])),
        forall|i: int| 0 <= i < r.implicitly_finalized@.len() ==> fin_hash(old(self).st((#[trigger] r.implicitly_finalized@[i]).0)) is None,
before `let (slot, block_hash) = block;`
        let ghost g0 = *self;
        proof {
            assert forall|s: Slot| #[trigger] self.st(s) == old(self).st(s) by {}
            assert(self.wf());
        }
before `self.handle_implicitly_finalized(slot, parent, &mut event);`
        proof { assert(decided(self.st(slot))); }
before `self.prune();`
        let ghost g2 = *self;
        let ghost ev2 = event;
        proof {
            assert forall|s: Slot| keeps_decision(#[trigger] old(self).st(s), g2.st(s)) by { let _ = g0.st(s); }
            assert forall|s: Slot| decided(g2.st(s)) && !decided(#[trigger] old(self).st(s)) implies reported_any(ev2, s) by {
                let _ = g0.st(s);
                assert(reported_in(ev2, s, g2.st(s)));
            }
        }
after `self.prune();`
        proof {
            assert forall|s: Slot| mark_of(#[trigger] self.st(s)) implies self.st(s) == old(self).st(s) by {
                let _ = g2.st(s); let _ = g0.st(s);
                assert(self.status@.contains_key(s));
            }
            assert forall|s: Slot| s.0 > old(self).first_unpruned_slot.0 && !decided(#[trigger] old(self).st(s))
                && (s.0 < self.first_unpruned_slot.0 || decided(self.st(s))) implies reported_any(event, s) by {
                if s.0 < self.first_unpruned_slot.0 { assert(decided(g2.st(s))); } else { assert(self.st(s) == g2.st(s)); }
            }
        }
@*/

// Canary: the real mark_finalized under a deliberately false contract; it MUST fail to verify.
/*@ extract src/consensus/pool/finality_tracker.rs :: impl FinalityTracker/fn mark_finalized
as canary_mark_finalized
expect-fail
ret r
requires
        old(self).wf(),
        slot.0 < u64::MAX,
ensures
        r.finalized is None,
@*/
}

/*@ extract src/crypto/merkle.rs :: const GENESIS_BLOCK_HASH
ensures
        true,
@*/
impl Default for FinalityTracker {
/*@ extract src/consensus/pool/finality_tracker.rs :: impl Default for FinalityTracker/fn default
props C08
nopub
ret r
ensures
        // [C08.initial_state_well_formed]
        r.wf(),
        r.highest_finalized_slot.0 == 0 && r.first_unpruned_slot.0 == 0,
        r.st(Slot(0)) matches Some(FinalizationStatus::Notarized(_)),
        forall|s: Slot| s.0 != 0 ==> r.st(s) is None,
@*/
}

} // mod code

} // verus!

fn main() {}
