// =============================================================== C08 specification (from the statement)
pub open spec fn decided(st: Option<FinalizationStatus>) -> bool {
    st matches Some(s) && (s is Finalized || s is ImplicitlyFinalized || s is ImplicitlySkipped)
}
// the block a slot is finalized with, directly or through a finalized descendant
pub open spec fn fin_hash(st: Option<FinalizationStatus>) -> Option<BlockHash> {
    match st {
        Some(FinalizationStatus::Finalized(h)) => Some(h),
        Some(FinalizationStatus::ImplicitlyFinalized(h)) => Some(h),
        _ => None,
    }
}
// "Discarding old state never changes these answers" / no downgrade: a decided slot keeps its
// decision (the only change allowed is the upgrade ImplicitlyFinalized(h) -> Finalized(h)).
pub open spec fn keeps_decision(old_st: Option<FinalizationStatus>, new_st: Option<FinalizationStatus>) -> bool {
    decided(old_st) ==> (decided(new_st) && fin_hash(new_st) == fin_hash(old_st)
        && (old_st matches Some(FinalizationStatus::Finalized(_)) ==> new_st == old_st))
}

impl FinalityTracker {
    pub open spec fn st(&self, s: Slot) -> Option<FinalizationStatus> {
        if self.status@.contains_key(s) { Some(self.status@[s]) } else { None }
    }
    // representation invariant (holds between operations)
    pub open spec fn wf_base(&self) -> bool {
        // nothing older than the watermark is retained
        &&& forall|s: Slot| #[trigger] self.status@.contains_key(s) ==> s.0 >= self.first_unpruned_slot.0
        &&& forall|b: BlockId| #[trigger] self.parents@.contains_key(b) ==> b.0.0 >= self.first_unpruned_slot.0
        // parent links point to earlier slots
        &&& forall|b: BlockId| #[trigger] self.parents@.contains_key(b) ==> self.parents@[b].0.0 < b.0.0
        &&& self.first_unpruned_slot.0 <= self.highest_finalized_slot.0 < u64::MAX
        // decided slots lie at or below the highest finalized slot
        &&& forall|s: Slot| decided(#[trigger] self.st(s)) ==> s.0 <= self.highest_finalized_slot.0
    }
    // the same, in the window where slot `exc` has just been marked Finalized and the highest
    // finalized slot is about to be raised
    pub open spec fn wf_base_exc(&self, exc: Slot) -> bool {
        &&& forall|s: Slot| #[trigger] self.status@.contains_key(s) ==> s.0 >= self.first_unpruned_slot.0
        &&& forall|b: BlockId| #[trigger] self.parents@.contains_key(b) ==> b.0.0 >= self.first_unpruned_slot.0
        &&& forall|b: BlockId| #[trigger] self.parents@.contains_key(b) ==> self.parents@[b].0.0 < b.0.0
        &&& self.first_unpruned_slot.0 <= self.highest_finalized_slot.0 < u64::MAX
        &&& forall|s: Slot| decided(#[trigger] self.st(s)) && s != exc ==> s.0 <= self.highest_finalized_slot.0
    }
    pub open spec fn wf(&self) -> bool {
        &&& self.wf_base()
        // the watermark is maximal: the slot after it is not decided
        &&& !decided(self.st(Slot((self.first_unpruned_slot.0 + 1) as u64)))
    }
    // the whole observable state, unchanged
    pub open spec fn same_as(&self, o: &FinalityTracker) -> bool {
        self.status@ == o.status@ && self.parents@ == o.parents@
            && self.highest_finalized_slot == o.highest_finalized_slot && self.first_unpruned_slot == o.first_unpruned_slot
    }
}

pub open spec fn event_is_default(e: FinalizationEvent) -> bool {
    e.finalized is None && e.implicitly_finalized@.len() == 0 && e.implicitly_skipped@.len() == 0
}

// a slot decided implicitly is listed in the finalization event (what the parent-ready tracker acts upon)
pub open spec fn reported_in(ev: FinalizationEvent, s: Slot, st: Option<FinalizationStatus>) -> bool {
    match st {
        Some(FinalizationStatus::ImplicitlySkipped) => ev.implicitly_skipped@.contains(s),
        Some(FinalizationStatus::ImplicitlyFinalized(h)) => ev.implicitly_finalized@.contains((s, h)),
        _ => false,
    }
}
pub open spec fn reported_any(ev: FinalizationEvent, s: Slot) -> bool {
    ev.implicitly_skipped@.contains(s) || exists|h: BlockHash| #[trigger] ev.implicitly_finalized@.contains((s, h))
}
// -- what the pool relies on for standstill recovery (C18): the statuses that stand for a stored certificate - Notarized for a
// notarization certificate, FinalPendingNotar for a finalization certificate - appear only where the call put them, and the
// highest finalized slot moves only to the slot this very call reports as finalized
pub open spec fn mark_of(st: Option<FinalizationStatus>) -> bool {
    st matches Some(s) && (s is Notarized || s is FinalPendingNotar)
}
pub open spec fn hi_step(o: &FinalityTracker, n: &FinalityTracker, r: FinalizationEvent) -> bool {
    n.highest_finalized_slot == o.highest_finalized_slot || (r.finalized matches Some(f) && n.highest_finalized_slot == f.0)
}
