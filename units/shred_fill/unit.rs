// Unit `shred_fill`: how the shreds a node did not receive are regenerated after a slice was decoded, and how a leader
// assembles its own shreds (src/shredder.rs fill_missing_shreds, assemble_output_shreds, build_merkle_tree,
// check_merkle_tree; ValidatedShred::new_validated).  Serves C13 ("can afterwards serve every shred ... and proof of it"),
// C12 (position binding of regenerated shreds) and C11.
use vstd::prelude::*;

verus! {

/*@ include units/common/base_types.rs @*/

/*@ include units/common/merkle_spec.rs @*/

/*@ include units/common/merkle_tree_spec.rs @*/

pub type SliceRoot = Hash;          // R6: the newtypes over Hash / Vec<Hash> are field projections (see unit merkle)
pub type SliceProof = Vec<Hash>;
pub type SliceMerkleTree = MerkleTree;

pub const TOTAL_SHREDS: usize = 64;
/*@ extract src/shredder/shred_index.rs :: struct ShredIndex
derive Clone, Copy
@*/
impl ShredIndex {
/*@ extract src/shredder/shred_index.rs :: impl ShredIndex/fn new
ret r
ensures
        r is Some <==> index < TOTAL_SHREDS,
        r matches Some(i) ==> i.0 == index,
@*/
}
// opaque, copyable parts of a shred
#[verifier::external_body] #[derive(Clone, Copy)] pub struct SliceHeader { _p: () }
#[verifier::external_body] #[derive(Clone, Copy)] pub struct Signature { _p: () }

/*@ extract src/shredder.rs :: enum DeshredError
derive Clone, Copy
@*/
/*@ extract src/shredder/reed_solomon.rs :: struct RawShreds
derive
@*/
/*@ extract src/shredder.rs :: struct ShredPayload
derive
@*/
/*@ extract src/shredder.rs :: enum ShredPayloadType
derive
@*/
/*@ extract src/shredder.rs :: struct Shred
derive
@*/
/*@ extract src/shredder/validated_shred.rs :: struct ValidatedShred
derive
@*/

impl Shred {
/*@ extract src/shredder.rs :: impl Shred/fn payload
ret r
ensures
        *r == self.spec_payload(),
@*/
    pub open spec fn spec_payload(&self) -> ShredPayload {
        match self.payload_type { ShredPayloadType::Coding(p) => p, ShredPayloadType::Data(p) => p }
    }
    // the slice root this shred's Merkle path leads to (Shred::slice_root = SliceMerkleTree::derive_root, see unit merkle)
    pub open spec fn spec_slice_root(&self) -> Hash {
        spec_derive(spec_hash_leaf(self.spec_payload().data@), self.spec_payload().shred_index.0 as nat, self.merkle_path@)
    }
}

// the raw shreds in output order: all data shreds, then all coding shreds
pub open spec fn raw_seq(r: RawShreds) -> Seq<Vec<u8>> { r.data@ + r.coding@ }
// the tree is the Merkle tree over exactly these raw shreds
pub open spec fn tree_of(t: MerkleTree, r: RawShreds) -> bool {
    t.wf() && t.num_leaves() == raw_seq(r).len()
        && forall|i: int| 0 <= i < raw_seq(r).len() ==> #[trigger] t.nodes@[i] == spec_hash_leaf(raw_seq(r)[i]@)
}
// a regenerated (or freshly assembled) shred for position i of the slice
pub open spec fn shred_ok(v: ValidatedShred, i: int, header: SliceHeader, sig: Signature, r: RawShreds, root: Hash) -> bool {
    &&& v.slice_root == root
    &&& v.shred.spec_slice_root() == root                          // its own Merkle path proves it under the slice root
    &&& v.shred.merkle_path@.len() <= 31 && (i as nat) < pow2(v.shred.merkle_path@.len())   // .. within the width check_proof demands
    &&& v.shred.slice_sig == sig
    &&& v.shred.spec_payload().header == header
    &&& v.shred.spec_payload().shred_index.0 == i
    &&& v.shred.spec_payload().data@ == raw_seq(r)[i]@
    &&& (v.shred.payload_type is Data <==> i < r.data@.len())      // data shreds in data positions, coding in coding positions
}

// `[const { None }; TOTAL_SHREDS]` (R10: inline const array repeat) and `shreds.map(|s| s.expect(..))` (R8; the expect is a
// proof obligation: every entry is filled)
#[verifier::external_body]
pub fn verif_none_array() -> (r: [Option<ValidatedShred>; TOTAL_SHREDS])
    ensures forall|i: int| 0 <= i < TOTAL_SHREDS ==> (#[trigger] r@[i]) is None
{ unimplemented!() }
#[verifier::external_body]
pub fn verif_unwrap_all(a: [Option<ValidatedShred>; TOTAL_SHREDS]) -> (r: [ValidatedShred; TOTAL_SHREDS])
    requires forall|i: int| 0 <= i < TOTAL_SHREDS ==> (#[trigger] a@[i]) is Some
    ensures forall|i: int| 0 <= i < TOTAL_SHREDS ==> Some(#[trigger] r@[i]) == a@[i]
{ unimplemented!() }
// the leader's signing key and `sk.sign_bytes(SliceCommitment::new(&header, &slice_root).as_ref())` (R8): a signature over the
// commitment to (header, slice root) - what ValidatedShred::try_new checks (unit shred_auth)
#[verifier::external_body] pub struct SecretKey { _p: () }
pub uninterp spec fn spec_signs(sig: Signature, sk: SecretKey, header: SliceHeader, root: Hash) -> bool;
#[verifier::external_body]
pub fn verif_sign_commitment(sk: &SecretKey, header: &SliceHeader, root: &Hash) -> (r: Signature)
    ensures spec_signs(r, *sk, *header, *root)
{ unimplemented!() }
// R8 iterator wrappers (TRUSTED): `a.into_iter().chain(b)` collected / `a.iter().chain(&b)` as the concatenation
#[verifier::external_body]
pub fn verif_chain(a: Vec<Vec<u8>>, b: Vec<Vec<u8>>) -> (r: Vec<Vec<u8>>)
    ensures r@ == a@ + b@
{ unimplemented!() }
#[verifier::external_body]
pub fn verif_chain_ref(a: &Vec<Vec<u8>>, b: &Vec<Vec<u8>>) -> (r: Vec<Vec<u8>>)
    ensures r@ == a@ + b@
{ unimplemented!() }
// the element the zipped iterator hands out at position i (moved out of the chained sequence)
#[verifier::external_body]
pub fn verif_take(v: &mut Vec<Vec<u8>>, i: usize) -> (r: Vec<u8>)
    requires i < old(v)@.len()
    ensures r@ == old(v)@[i as int]@, final(v)@.len() == old(v)@.len(),
        forall|j: int| 0 <= j < old(v)@.len() && j != i ==> final(v)@[j] == old(v)@[j],
{ unimplemented!() }

pub mod code {
use super::*;

// contracts PROVED in unit `merkle_build` on the real bodies
impl MerkleTree {
/*@ stub units/merkle_build/unit.rs :: src/crypto/merkle.rs :: impl MerkleTree<Leaf, Root, Proof>/fn new @*/
/*@ stub units/merkle_build/unit.rs :: src/crypto/merkle.rs :: impl MerkleTree<Leaf, Root, Proof>/fn get_root @*/
/*@ stub units/merkle_build/unit.rs :: src/crypto/merkle.rs :: impl MerkleTree<Leaf, Root, Proof>/fn create_proof @*/
}

impl ValidatedShred {
/*@ extract src/shredder/validated_shred.rs :: impl ValidatedShred/fn new_validated
props C12 C13
ret r
requires
        // [C12.regenerated_shred_proves_its_own_position C13.regenerated_shred_proves_its_own_position] the debug_assert of
        // new_validated, as an obligation at every call site: the wrapped shred's own Merkle path leads to the cached root
        shred.spec_slice_root() == slice_root,
ensures
        r.shred == shred && r.slice_root == slice_root,
@*/
}

/*@ extract src/shredder.rs :: fn build_merkle_tree
props C13
ret r
rewrite[R8] `let leaves = raw_shreds.data.iter().chain(&raw_shreds.coding); MerkleTree::new(leaves)` => `let leaves = verif_chain_ref(&raw_shreds.data, &raw_shreds.coding); MerkleTree::new(&leaves)`
requires
        1 <= raw_seq(*raw_shreds).len() <= 0x4000_0000,
ensures
        tree_of(r, *raw_shreds),
@*/

/*@ extract src/shredder.rs :: fn check_merkle_tree
props C13 C12
ret r
requires
        1 <= raw_seq(*raw_shreds).len() <= 0x4000_0000,
ensures
        // [C13.decoded_slice_must_rehash_to_the_signed_root] the tree over the re-encoded shreds is handed on only if its
        // root is the root the received shreds were signed under
        r matches Ok(t) ==> tree_of(t, *raw_shreds) && t.spec_root() == *expected_root,
        r is Err ==> exists|t: MerkleTree| tree_of(t, *raw_shreds) && t.spec_root() != *expected_root,
@*/

/*@ extract src/shredder.rs :: fn fill_missing_shreds
props C13 C12 C11
rewrite[R4] `let raw = raw_shreds.data.into_iter().chain(raw_shreds.coding); for ((index, data), shred) in raw.enumerate().zip(shreds.iter_mut()) {` => `let mut verif_raw = verif_chain(raw_shreds.data, raw_shreds.coding); let mut verif_i: usize = 0; while verif_i < TOTAL_SHREDS && verif_i < verif_raw.len() { let index = verif_i; let data = verif_take(&mut verif_raw, verif_i); let shred = &mut shreds[verif_i]; verif_i += 1;`
requires
        // callers: the decoder returns all 64 raw shreds (the assert_eq! below is this obligation) and `tree` is the tree
        // over exactly them (check_merkle_tree / build_merkle_tree)
        raw_shreds.data@.len() + raw_shreds.coding@.len() == TOTAL_SHREDS,
        tree_of(*tree, raw_shreds),
ensures
        // [C11.present_shreds_are_kept C13.present_shreds_are_kept] positions that hold a shred are left as they are
        forall|i: int| 0 <= i < TOTAL_SHREDS && (#[trigger] old(shreds)@[i]) is Some ==> final(shreds)@[i] == old(shreds)@[i],
        // [C13.every_missing_shred_is_regenerated_valid C12.every_missing_shred_is_regenerated_valid] every empty position i
        // gets a shred carrying the i-th raw shred, index i, the slice header and signature, data / coding tag by position, and
        // a Merkle path that proves it at position i under the tree's root - i.e. a shred every receiver accepts and can
        // be served to others
        forall|i: int| 0 <= i < TOTAL_SHREDS && (#[trigger] old(shreds)@[i]) is None ==>
            final(shreds)@[i] is Some && shred_ok(final(shreds)@[i]->0, i, header, slice_sig, raw_shreds, tree.spec_root()),
before `let root = tree.get_root();`
        let ghost raw0 = raw_shreds;
        let ghost shreds0 = *shreds;
after `let mut verif_i: usize = 0;`
        proof { assert(verif_raw@ =~= raw_seq(raw0)); }
loop 0
        invariant
            verif_i <= TOTAL_SHREDS, verif_raw@.len() == TOTAL_SHREDS, num_data == raw0.data@.len(), num_data <= TOTAL_SHREDS,
            raw_seq(raw0).len() == TOTAL_SHREDS,
            tree_of(*tree, raw0), root == tree.spec_root(),
            forall|j: int| verif_i <= j < TOTAL_SHREDS ==> #[trigger] verif_raw@[j] == raw_seq(raw0)[j],
            forall|j: int| verif_i <= j < TOTAL_SHREDS ==> #[trigger] shreds@[j] == shreds0@[j],
            forall|j: int| 0 <= j < verif_i && (#[trigger] shreds0@[j]) is Some ==> shreds@[j] == shreds0@[j],
            forall|j: int| 0 <= j < verif_i && (#[trigger] shreds0@[j]) is None ==>
                shreds@[j] is Some && shred_ok(shreds@[j]->0, j, header, slice_sig, raw0, tree.spec_root()),
        decreases TOTAL_SHREDS - verif_i
@*/

/*@ extract src/shredder.rs :: fn assemble_output_shreds
props C13 C12
ret r
rewrite[R10] `let mut shreds = [const { None }; TOTAL_SHREDS];` => `let mut shreds: [Option<ValidatedShred>; TOTAL_SHREDS] = verif_none_array();`
rewrite[R8] `shreds.map(|shred| shred.expect("fill_missing_shreds fills all empty entries"))` => `verif_unwrap_all(shreds)`
requires
        raw_shreds.data@.len() + raw_shreds.coding@.len() == TOTAL_SHREDS,
        tree_of(*tree, raw_shreds),
ensures
        // [C13.leader_shreds_are_valid_for_their_positions]
        forall|i: int| 0 <= i < TOTAL_SHREDS ==> shred_ok(#[trigger] r@[i], i, header, slice_sig, raw_shreds, tree.spec_root()),
before `fill_missing_shreds(`
        let ghost s0 = shreds;
        let ghost raw0 = raw_shreds;
before `verif_unwrap_all(shreds)`
        proof {
            assert forall|i: int| 0 <= i < TOTAL_SHREDS implies (#[trigger] shreds@[i]) is Some
                && shred_ok(shreds@[i]->0, i, header, slice_sig, raw0, tree.spec_root()) by {
                assert(s0@[i] is None);
            }
        }
@*/

/*@ extract src/shredder.rs :: fn data_and_coding_to_output_shreds
props C13 C12
ret r
rewrite[R8] `sk.sign_bytes(SliceCommitment::new(&header, &slice_root).as_ref())` => `verif_sign_commitment(sk, &header, &slice_root)`
requires
        raw_shreds.data@.len() + raw_shreds.coding@.len() == TOTAL_SHREDS,
ensures
        // [C13.leader_shreds_are_valid_for_their_positions C12.leader_shreds_are_valid_for_their_positions] what a leader sends out:
        // 64 shreds, the i-th at position i with the i-th raw shred, all under ONE root and one signature over (header, that root)
        exists|root: Hash, sig: Signature| spec_signs(sig, *sk, header, root)
            && forall|i: int| 0 <= i < TOTAL_SHREDS ==> shred_ok(#[trigger] r@[i], i, header, sig, raw_shreds, root),
before `assemble_output_shreds(`
        let ghost raw0 = raw_shreds;
@*/

// Canary: fill_missing_shreds under a false contract (claims present shreds are overwritten too); MUST fail.
/*@ extract src/shredder.rs :: fn fill_missing_shreds
as canary_fill_missing_shreds
expect-fail
rewrite[R4] `let raw = raw_shreds.data.into_iter().chain(raw_shreds.coding); for ((index, data), shred) in raw.enumerate().zip(shreds.iter_mut()) {` => `let mut verif_raw = verif_chain(raw_shreds.data, raw_shreds.coding); let mut verif_i: usize = 0; while verif_i < TOTAL_SHREDS && verif_i < verif_raw.len() { let index = verif_i; let data = verif_take(&mut verif_raw, verif_i); let shred = &mut shreds[verif_i]; verif_i += 1;`
requires
        raw_shreds.data@.len() + raw_shreds.coding@.len() == TOTAL_SHREDS,
        tree_of(*tree, raw_shreds),
ensures
        forall|i: int| 0 <= i < TOTAL_SHREDS ==> (#[trigger] final(shreds)@[i]) is Some && (final(shreds)@[i]->0).shred.slice_sig == slice_sig,
loop 0
        invariant
            verif_i <= TOTAL_SHREDS, verif_raw@.len() == TOTAL_SHREDS, num_data <= TOTAL_SHREDS,
            tree.wf() && tree.num_leaves() == TOTAL_SHREDS,
        decreases TOTAL_SHREDS - verif_i
@*/

} // mod code

} // verus!
fn main() {}
