// Unit U11 `routing`: who relays which shred (src/disseminator/rotor.rs, turbine.rs).  Serves C16.
use vstd::prelude::*;
use std::sync::Arc;

verus! {

/*@ include units/common/base_types.rs @*/
/*@ include units/common/quorum_core.rs @*/

/*@ extract src/shredder.rs :: const TOTAL_SHREDS
@*/
/*@ extract src/disseminator/rotor.rs :: const MAX_CACHED_COMMITTEES
@*/

// ---------------------------------------------------------------- TRUSTED stand-ins
pub trait Network {}
pub trait ShredNetwork: Network + ShredNet {}

// rand::rngs::StdRng: a deterministic generator whose whole future is a function of its 32-byte seed
#[verifier::external_body]
pub struct StdRng { _p: () }
impl StdRng {
    pub uninterp spec fn spec_state(&self) -> Seq<u8>;
    #[verifier::external_body]
    pub fn from_seed(seed: [u8; 32]) -> (r: StdRng)
        ensures r.spec_state() == seed@
    { unimplemented!() }
}

// the sampling-strategy interface (src/disseminator/rotor/sampling_strategy.rs), instantiated for StdRng:
// ASSUMED (this is the determinism half of C17): the committee is a function of the sampler and the
// generator state only.
pub trait QuorumSamplingStrategy: Sized {
    spec fn spec_quorum(&self, rng_state: Seq<u8>) -> Seq<ValidatorIndex>;
    fn sample_quorum(&self, rng: &mut StdRng) -> (r: Vec<ValidatorIndex>)
        ensures r@ == self.spec_quorum(old(rng).spec_state());
}

// quick_cache::sync::Cache: a bounded concurrent map.  Modelled as an immutable partial map for the
// duration of a call (an insert may or may not be retained); what may be inserted is constrained by the
// precondition of the wrapper `verif_cache_insert` below.
#[verifier::external_body]
#[verifier::reject_recursive_types(K)]
#[verifier::reject_recursive_types(V)]
pub struct Cache<K, V> { _p: std::marker::PhantomData<(K, V)> }
impl<K, V> Cache<K, V> {
    pub uninterp spec fn content(&self) -> Map<K, V>;
    #[verifier::external_body]
    pub fn new(capacity: usize) -> (r: Self)
        ensures r.content() == Map::<K, V>::empty()
    { unimplemented!() }
    #[verifier::external_body]
    pub fn get(&self, key: &K) -> (r: Option<V>)
        ensures r matches Some(v) ==> self.content().contains_key(*key) && self.content()[*key] == v
    { unimplemented!() }
}

// Arc<[ValidatorIndex]> built from a Vec (`.into()`), cloned, indexed: TRUSTED wrappers
#[verifier::external_body]
pub struct RelayList { _p: () }
impl RelayList {
    pub uninterp spec fn view(&self) -> Seq<ValidatorIndex>;
}

/*@ extract src/disseminator/rotor.rs :: struct Rotor
rewrite[R8] `Arc<[ValidatorIndex]>` => `RelayList`
@*/


// ---------------------------------------------------------------- shreds, addresses and the network as a ghost log (for send / forward)
/*@ extract src/types/slice_index.rs :: struct SliceIndex
derive Clone, Copy
traits Eq
@*/
/*@ extract src/shredder/shred_index.rs :: struct ShredIndex
derive Clone, Copy
traits Eq
@*/
// `impl Deref for ShredIndex` (src/shredder/shred_index.rs): the index as a usize
impl std::ops::Deref for ShredIndex {
    type Target = usize;
    fn deref(&self) -> (r: &usize) ensures *r == self.0 { &self.0 }
}
pub struct SliceHeader { pub slot: Slot, pub slice_index: SliceIndex, pub is_last: bool }
pub struct ShredPayload { pub header: SliceHeader, pub shred_index: ShredIndex }
#[verifier::external_body] pub struct Shred { _p: () }
impl Shred {
    pub uninterp spec fn spec_payload(&self) -> ShredPayload;
    #[verifier::external_body]
    pub fn payload(&self) -> (r: &ShredPayload) ensures *r == self.spec_payload() { unimplemented!() }
}
#[verifier::external_body] #[derive(Clone, Copy)] pub struct SocketAddr { _p: () }
#[verifier::external_body] #[derive(Debug)] pub struct IoError { _p: () }
// `v.disseminator_address` (R8; the field is not part of the ValidatorInfo stand-in): an injective function of the validator
pub uninterp spec fn spec_addr(v: ValidatorInfo) -> SocketAddr;
#[verifier::external_body]
pub fn verif_addr(v: &ValidatorInfo) -> (r: SocketAddr) ensures r == spec_addr(*v) { unimplemented!() }
// what was handed to the network layer: (shred, recipients) per call
pub struct SendRecord { pub shred: Shred, pub to: Seq<SocketAddr> }
pub trait ShredNet: Sized {
    spec fn sent(&self) -> Seq<SendRecord>;
    fn verif_send(&mut self, shred: &Shred, to: SocketAddr) -> (r: Result<(), IoError>)
        ensures final(self).sent() == old(self).sent().push(SendRecord { shred: *shred, to: Seq::<SocketAddr>::empty().push(to) });
    fn verif_send_to_many(&mut self, shred: &Shred, to: Vec<SocketAddr>) -> (r: Result<(), IoError>)
        ensures final(self).sent() == old(self).sent().push(SendRecord { shred: *shred, to: to@ });
}
// the recipients of a relay broadcast: every validator except the relay itself and the slot's leader, in index order
pub open spec fn spec_recipients(vals: Seq<ValidatorInfo>, n: int, relay: int, leader: int) -> Seq<SocketAddr>
    decreases n
{
    if n <= 0 { Seq::<SocketAddr>::empty() }
    else if n - 1 != relay && n - 1 != leader { spec_recipients(vals, n - 1, relay, leader).push(spec_addr(vals[n - 1])) }
    else { spec_recipients(vals, n - 1, relay, leader) }
}
pub open spec fn spec_leader_index(ei: &EpochInfo, slot: Slot) -> int { (slot.0 / SLOTS_PER_WINDOW) as int % (ei.validators@.len() as int) }

// ---------------------------------------------------------------- C16 specification
pub uninterp spec fn spec_be64(x: u64) -> Seq<u8>;
// "as a function of slot and slice only": seed = be(slot) ++ be(slice) ++ 0^16
pub open spec fn spec_rotor_seed(slot: Slot, slice: usize) -> Seq<u8> {
    spec_be64(slot.0) + spec_be64(slice as u64) + Seq::new(16, |i: int| 0u8)
}
impl<N: Network, S: QuorumSamplingStrategy> Rotor<N, S> {
    // the relay committee every node computes for (slot, slice)
    pub open spec fn spec_relays(&self, slot: Slot, slice: usize) -> Seq<ValidatorIndex> {
        self.sampler.spec_quorum(spec_rotor_seed(slot, slice))
    }
    // caching is pure memoisation: every cached committee is the computed one
    pub open spec fn cache_ok(&self) -> bool {
        forall|k: (Slot, usize)| #[trigger] self.relay_cache.content().contains_key(k) ==> self.relay_cache.content()[k]@ == self.spec_relays(k.0, k.1)
    }
}

// ---------------------------------------------------------------- Turbine tree positions (pure arithmetic, PROVED)
// children of position q are q*f+1 ..= q*f+f ; the parent of p >= 1 is (p-1)/f
pub open spec fn is_child_of(p: int, q: int, f: int) -> bool { q * f + 1 <= p <= q * f + f }

// [C16.turbine_positions_form_a_tree]  every non-root position has exactly one parent, and it is closer to
// the root: the forwarding relation is a tree covering every position, so in a loss-free run every
// validator receives a shred exactly once, for every validator count and every fanout >= 1.
pub proof fn theorem_turbine_tree(p: int, f: int)
    requires p >= 1, f >= 1,
    ensures
        is_child_of(p, (p - 1) / f, f),
        0 <= (p - 1) / f < p,
        forall|q: int| q >= 0 && #[trigger] is_child_of(p, q, f) ==> q == (p - 1) / f,
{
    let q0 = (p - 1) / f;
    assert(q0 * f <= p - 1 < q0 * f + f) by (nonlinear_arith) requires q0 == (p - 1) / f, f >= 1, p >= 1;
    assert(0 <= q0 < p) by (nonlinear_arith) requires q0 == (p - 1) / f, f >= 1, p >= 1, q0 * f <= p - 1;
    assert forall|q: int| q >= 0 && #[trigger] is_child_of(p, q, f) implies q == q0 by {
        assert(q == q0) by (nonlinear_arith) requires q * f + 1 <= p, p <= q * f + f, q0 * f <= p - 1, p - 1 < q0 * f + f, f >= 1, q >= 0, q0 >= 0;
    }
}

pub mod code {
use super::*;
broadcast use super::axiom_Slot_obeys_cmp_laws;

impl Slot {
/*@ extract src/types/slot.rs :: impl Slot/fn inner
ret r
ensures
        r == self.0,
@*/
}

// Rewrite R8 wrappers: byte-level seed assembly, Arc<[T]> conversions, cache insert (TRUSTED, documented behaviour)
#[verifier::external_body]
pub fn verif_rotor_seed_bytes(slot_be: [u8; 8], slice_be: [u8; 8]) -> (r: [u8; 32])
    // [a, b, [0; 8], [0; 8]].concat().try_into().expect(..)
    ensures r@ == slot_be@ + slice_be@ + Seq::new(16, |i: int| 0u8)
{ unimplemented!() }
#[verifier::external_body]
pub fn verif_u64_to_be_bytes(x: u64) -> (r: [u8; 8])
    ensures r@ == spec_be64(x)
{ unimplemented!() }
#[verifier::external_body]
pub fn verif_usize_to_be_bytes(x: usize) -> (r: [u8; 8])
    ensures r@ == spec_be64(x as u64)
{ unimplemented!() }
#[verifier::external_body]
pub fn verif_relays_from_vec(v: Vec<ValidatorIndex>) -> (r: RelayList)
    ensures r@ == v@
{ unimplemented!() }
impl RelayList {
    #[verifier::external_body]
    pub fn clone(&self) -> (r: RelayList) ensures r@ == self@ { unimplemented!() }
    #[verifier::external_body]
    pub fn verif_index(&self, i: usize) -> (r: ValidatorIndex)
        requires i < self@.len()
        ensures r == self@[i as int]
    { unimplemented!() }
}

impl<N: ShredNetwork, S: QuorumSamplingStrategy> Rotor<N, S> {
    // what may be put into the cache: only the committee computed for that key
    #[verifier::external_body]
    pub fn verif_cache_insert(&self, key: (Slot, usize), relays: RelayList)
        requires
            // [C16.cache_is_pure_memoisation]
            relays@ == self.spec_relays(key.0, key.1),
    { unimplemented!() }

/*@ extract src/disseminator/rotor.rs :: impl Rotor<N, S>/fn with_sampler
props C16
ret r
requires
        true,
ensures
        // [C16.new_sampler_starts_with_empty_cache]
        r.sampler == sampler && r.cache_ok(),
        r.epoch_info == self.epoch_info,
@*/

/*@ extract src/disseminator/rotor.rs :: impl Rotor<N, S>/fn sample_relays
props C16
ret r
sig `-> Arc<[ValidatorIndex]>` => `-> RelayList`
rewrite[R8] `let seed = [ slot.inner().to_be_bytes(), slice.to_be_bytes(), [0; 8], [0; 8], ] .concat(); let mut rng = StdRng::from_seed( seed.try_into() .expect("rotor seed should be exactly 32 bytes"), );` => `let seed = verif_rotor_seed_bytes(verif_u64_to_be_bytes(slot.inner()), verif_usize_to_be_bytes(slice)); let mut rng = StdRng::from_seed(seed);`
rewrite[R8] `let relays: Arc<[ValidatorIndex]> = self.sampler.sample_quorum(&mut rng).into();` => `let relays: RelayList = verif_relays_from_vec(self.sampler.sample_quorum(&mut rng));`
rewrite[R8] `self.relay_cache.insert((slot, slice), relays.clone());` => `self.verif_cache_insert((slot, slice), relays.clone());`
requires
        self.cache_ok(),
ensures
        // [C16.relays_are_a_function_of_slot_and_slice_only]
        r@ == self.spec_relays(slot, slice),
@*/

// Canary: MUST fail (claims the committee does not depend on the slice).
/*@ extract src/disseminator/rotor.rs :: impl Rotor<N, S>/fn sample_relays
as canary_sample_relays
expect-fail
ret r
sig `-> Arc<[ValidatorIndex]>` => `-> RelayList`
rewrite[R8] `let seed = [ slot.inner().to_be_bytes(), slice.to_be_bytes(), [0; 8], [0; 8], ] .concat(); let mut rng = StdRng::from_seed( seed.try_into() .expect("rotor seed should be exactly 32 bytes"), );` => `let seed = verif_rotor_seed_bytes(verif_u64_to_be_bytes(slot.inner()), verif_usize_to_be_bytes(slice)); let mut rng = StdRng::from_seed(seed);`
rewrite[R8] `let relays: Arc<[ValidatorIndex]> = self.sampler.sample_quorum(&mut rng).into();` => `let relays: RelayList = verif_relays_from_vec(self.sampler.sample_quorum(&mut rng));`
rewrite[R8] `self.relay_cache.insert((slot, slice), relays.clone());` => `self.verif_cache_insert((slot, slice), relays.clone());`
requires
        self.cache_ok(),
ensures
        r@ == self.spec_relays(slot, 0),
@*/
}

impl SliceIndex {
/*@ extract src/types/slice_index.rs :: impl SliceIndex/fn inner
ret r
ensures
        r == self.0,
@*/
}
impl ShredIndex {
/*@ extract src/shredder/shred_index.rs :: impl ShredIndex/fn inner
ret r
ensures
        r == self.0,
@*/
}
impl EpochInfo {
/*@ extract src/consensus/epoch_info.rs :: impl EpochInfo/fn leader
props C16
ret r
requires
        // an epoch has at least one validator (otherwise `% len` divides by zero)
        self.validators@.len() > 0,
ensures
        // [C16.leader_is_a_function_of_the_window]
        *r == self.validators@[spec_leader_index(self, slot)],
@*/
}

impl<N: ShredNetwork, S: QuorumSamplingStrategy> Rotor<N, S> {
    // what Rotor's constructors configure and C17 states: committees have one seat per shred of a slice, all seats go to members
    pub open spec fn sampler_ok(&self) -> bool {
        forall|st: Seq<u8>| (#[trigger] self.sampler.spec_quorum(st)).len() == TOTAL_SHREDS
            && forall|i: int| 0 <= i < TOTAL_SHREDS ==> (self.sampler.spec_quorum(st)[i].0 as int) < self.epoch_info.epoch.validators@.len()
    }
    pub open spec fn spec_relay(&self, shred: Shred) -> ValidatorIndex {
        self.spec_relays(shred.spec_payload().header.slot, shred.spec_payload().header.slice_index.0)[shred.spec_payload().shred_index.0 as int]
    }

/*@ extract src/disseminator/rotor.rs :: impl Rotor<N, S>/fn sample_relay
props C16
ret r
rewrite[R8] `self.sample_relays(slot, slice)[shred]` => `self.sample_relays(slot, slice).verif_index(shred)`
requires
        self.cache_ok() && self.sampler_ok(),
        shred.spec_payload().shred_index.0 < TOTAL_SHREDS,
ensures
        // [C16.relay_is_a_function_of_slot_slice_and_shred_index_only]
        r == self.spec_relay(*shred),
        (r.0 as int) < self.epoch_info.epoch.validators@.len(),
@*/

/*@ extract src/disseminator/rotor.rs :: impl Rotor<N, S>/fn send_as_leader
props C16
ret r
elide-async
sig `&self` => `&mut self`
sig `std::io::Result<()>` => `Result<(), IoError>`
rewrite[R8] `self.network.send(shred, v.disseminator_address)` => `self.network.verif_send(shred, verif_addr(v))`
requires
        old(self).cache_ok() && old(self).sampler_ok(),
        shred.spec_payload().shred_index.0 < TOTAL_SHREDS,
ensures
        // [C16.leader_sends_each_shred_to_its_one_relay]
        final(self).network.sent() == old(self).network.sent().push(SendRecord { shred: *shred,
            to: Seq::<SocketAddr>::empty().push(spec_addr(old(self).epoch_info.epoch.validators@[old(self).spec_relay(*shred).0 as int])) }),
@*/

/*@ extract src/disseminator/rotor.rs :: impl Rotor<N, S>/fn broadcast_if_relay
props C16
ret r
elide-async
sig `&self` => `&mut self`
sig `std::io::Result<()>` => `Result<(), IoError>`
rewrite[R4] `let to = (0..validators.len()) .filter(move |i|` => `let mut to: Vec<SocketAddr> = Vec::new(); let mut verif_k: usize = 0; while verif_k < validators.len() { let i = &verif_k; if (`
rewrite[R4] `) .map(move |i| validators[i].disseminator_address);` => `) { to.push(verif_addr(&validators[verif_k])); } verif_k += 1; }`
rewrite[R8] `self.network.send_to_many(shred, to)` => `self.network.verif_send_to_many(shred, to)`
requires
        old(self).cache_ok() && old(self).sampler_ok(),
        shred.spec_payload().shred_index.0 < TOTAL_SHREDS,
        old(self).epoch_info.epoch.validators@.len() > 0,
        // type invariant of EpochInfo: validator i has id i
        forall|i: int| 0 <= i < old(self).epoch_info.epoch.validators@.len() ==> (#[trigger] old(self).epoch_info.epoch.validators@[i]).id.0 == i,
ensures
        // [C16.only_the_relay_broadcasts]
        old(self).epoch_info.own_id != old(self).spec_relay(*shred) ==> final(self).network.sent() == old(self).network.sent(),
        // [C16.relay_broadcasts_once_to_everyone_but_itself_and_the_leader]
        old(self).epoch_info.own_id == old(self).spec_relay(*shred) ==> final(self).network.sent() == old(self).network.sent().push(SendRecord { shred: *shred,
            to: spec_recipients(old(self).epoch_info.epoch.validators@, old(self).epoch_info.epoch.validators@.len() as int,
                                old(self).spec_relay(*shred).0 as int, spec_leader_index(&old(self).epoch_info.epoch, shred.spec_payload().header.slot)) }),
loop 0
        invariant
            verif_k <= validators@.len() && validators@ == self.epoch_info.epoch.validators@,
            forall|i: int| 0 <= i < validators@.len() ==> (#[trigger] validators@[i]).id.0 == i,
            leader.0 == spec_leader_index(&self.epoch_info.epoch, shred.spec_payload().header.slot),
            (relay.0 as int) < validators@.len(),
            to@ == spec_recipients(validators@, verif_k as int, relay.0 as int, leader.0 as int),
        decreases validators@.len() - verif_k,
@*/
}


// ---------------------------------------------------------------- Turbine: which tree a shred travels on
/*@ extract src/disseminator/turbine.rs :: const DEFAULT_FANOUT
@*/
/*@ extract src/disseminator/turbine.rs :: const MAX_CACHED_TREES
@*/
/*@ extract src/disseminator/turbine.rs :: struct TurbineTree
derive
@*/
impl Clone for TurbineTree {
    #[verifier::external_body]
    fn clone(&self) -> (r: Self) ensures r == *self { unimplemented!() }
}
/*@ extract src/disseminator/turbine.rs :: struct Turbine
@*/
// the order in which TurbineTree::new lays the validators out for (slot, index of the shred in the slot): a stake-weighted
// shuffle (WeightedShuffle) driven by a StdRng seeded from exactly "ALPENGLOWTURBINE" ++ be(slot) ++ be(shred).
// TRUSTED: it is a function of these inputs only and a permutation of the validator indices.  (The permutation half is no
// longer a bare assumption: unit `wshuffle` proves on the real WeightedShuffle::{new, search, remove} and on the closure of
// `shuffle` that a fresh shuffle has every index 0..n pending exactly once, that every `next()` takes the emitted index off
// the pending ones and that the iterator ends only when none is pending.  What stays trusted here is the glue: that
// `std::iter::from_fn(..).collect()` is the sequence of those `next()` results, and the seeding of the generator.)
pub uninterp spec fn spec_order(validators: Seq<ValidatorInfo>, slot: Slot, shred: usize) -> Seq<ValidatorIndex>;
pub open spec fn is_perm(order: Seq<ValidatorIndex>, n: int) -> bool {
    &&& order.len() == n
    &&& forall|i: int| 0 <= i < n ==> (#[trigger] order[i]).0 < n
    &&& forall|i: int, j: int| 0 <= i < n && 0 <= j < n && i != j ==> (#[trigger] order[i]) != (#[trigger] order[j])
    &&& forall|v: ValidatorIndex| (v.0 as int) < n ==> exists|i: int| 0 <= i < n && #[trigger] order[i] == v
}
#[verifier::external_body]
pub proof fn axiom_order_is_perm(validators: Seq<ValidatorInfo>, slot: Slot, shred: usize)
    ensures is_perm(spec_order(validators, slot, shred), validators.len() as int)
{}
pub open spec fn pos_of(order: Seq<ValidatorIndex>, v: ValidatorIndex) -> int {
    choose|i: int| 0 <= i < order.len() && order[i] == v
}
pub open spec fn clip(x: int, n: int) -> int { if x < n { x } else { n } }
// the view of the tree a validator keeps: the root, its parent and its children by position (children of position q are
// q*f+1 ..= q*f+f, the parent of p >= 1 is (p-1)/f)
pub open spec fn spec_tree(validators: Seq<ValidatorInfo>, fanout: usize, own_id: ValidatorIndex, slot: Slot, shred: usize) -> TurbineTree {
    let order = spec_order(validators, slot, shred);
    let p = pos_of(order, own_id);
    TurbineTree {
        root: order[0],
        parent: if p == 0 { None } else { Some(order[(p - 1) / (fanout as int)]) },
        children: choose|c: Vec<ValidatorIndex>| c@ == order.subrange(clip(p * fanout + 1, order.len() as int), clip(p * fanout + 1 + fanout, order.len() as int)),
    }
}
pub open spec fn same_tree(a: TurbineTree, b: TurbineTree) -> bool { a.root == b.root && a.parent == b.parent && a.children@ == b.children@ }
pub open spec fn tree_members_ok(t: TurbineTree, n: int) -> bool {
    (t.root.0 as int) < n && forall|i: int| 0 <= i < t.children@.len() ==> (#[trigger] t.children@[i]).0 < n
}
// StdRng seeded for Turbine, and the R8 wrappers of TurbineTree::new's iterator / byte plumbing (TRUSTED)
pub uninterp spec fn spec_turbine_seed(slot: Slot, shred: usize) -> Seq<u8>;
#[verifier::external_body]
pub fn verif_turbine_seed(slot: Slot, shred: usize) -> (r: Vec<u8>)      // [b"ALPENGLOWTURBINE", &slot.inner().to_be_bytes()[..], &shred.to_be_bytes()[..]].concat()
    ensures r@ == spec_turbine_seed(slot, shred), r@.len() == 32
{ unimplemented!() }
#[verifier::external_body]
pub fn verif_seed32(seed: Vec<u8>) -> (r: [u8; 32])                       // seed.try_into().expect(..) (length checked by the assert before)
    requires seed@.len() == 32
    ensures r@ == seed@
{ unimplemented!() }
// WeightedShuffle::new(validators.iter().map(|v| v.stake)).shuffle(&mut rng).map(|i| ValidatorIndex::new(i as u64)).collect()
#[verifier::external_body]
pub fn verif_weighted_order(validators: &Vec<ValidatorInfo>, rng: &mut StdRng, Ghost(slot): Ghost<Slot>, Ghost(shred): Ghost<usize>) -> (r: Vec<ValidatorIndex>)
    requires old(rng).spec_state() == spec_turbine_seed(slot, shred)
    ensures r@ == spec_order(validators@, slot, shred)
{ unimplemented!() }
// validator_indices.iter().position(|v| *v == own_id)
#[verifier::external_body]
pub fn verif_position(order: &Vec<ValidatorIndex>, id: ValidatorIndex) -> (r: Option<usize>)
    ensures
        r matches Some(i) ==> i < order@.len() && order@[i as int] == id,
        r is None ==> forall|i: int| 0 <= i < order@.len() ==> order@[i] != id,
{ unimplemented!() }
// validator_indices.iter().skip(offset).take(fanout).copied().collect()
#[verifier::external_body]
pub fn verif_skip_take(order: &Vec<ValidatorIndex>, offset: usize, count: usize) -> (r: Vec<ValidatorIndex>)
    ensures r@ == order@.subrange(clip(offset as int, order@.len() as int), clip(offset as int + count as int, order@.len() as int))
{ unimplemented!() }

// THEOREM [C16.turbine_views_agree]: the views two validators keep of the same tree fit together - v is one of u's
// children exactly when u is v's parent; and everybody has the same root.  With theorem_turbine_tree (every position other
// than 0 has exactly one parent position, closer to the root) every validator receives a shred exactly once.
pub proof fn theorem_turbine_views_agree(validators: Seq<ValidatorInfo>, fanout: usize, u: ValidatorIndex, v: ValidatorIndex, slot: Slot, shred: usize)
    requires
        fanout >= 1, (u.0 as int) < validators.len(), (v.0 as int) < validators.len(),
    ensures
        spec_tree(validators, fanout, u, slot, shred).root == spec_tree(validators, fanout, v, slot, shred).root,
        spec_tree(validators, fanout, u, slot, shred).children@.contains(v)
            <==> spec_tree(validators, fanout, v, slot, shred).parent == Some(u),
{
    let order = spec_order(validators, slot, shred);
    let n = validators.len() as int;
    let f = fanout as int;
    axiom_order_is_perm(validators, slot, shred);
    let pu = pos_of(order, u);
    let pv = pos_of(order, v);
    assert(0 <= pu < n && order[pu] == u);
    assert(0 <= pv < n && order[pv] == v);
    let tu = spec_tree(validators, fanout, u, slot, shred);
    let tv = spec_tree(validators, fanout, v, slot, shred);
    let lo = clip(pu * f + 1, n);
    let hi = clip(pu * f + 1 + f, n);
    assert(pu * f >= 0) by (nonlinear_arith) requires pu >= 0, f >= 1;
    assert(tu.children@ == order.subrange(lo, hi)) by {
        // the chosen Vec exists: any sequence is the view of some Vec
        lemma_vec_exists(order.subrange(lo, hi));
    }
    if tu.children@.contains(v) {
        let i = choose|i: int| 0 <= i < tu.children@.len() && tu.children@[i] == v;
        assert(order[lo + i] == v);
        assert(lo + i == pv);
        assert(is_child_of(pv, pu, f));
        theorem_turbine_tree(pv, f);
        assert(pu == (pv - 1) / f);
    }
    if tv.parent == Some(u) {
        assert(pv != 0);
        theorem_turbine_tree(pv, f);
        let q = (pv - 1) / f;
        assert(order[q] == u);
        assert(q == pu);
        assert(is_child_of(pv, pu, f));
        assert(lo <= pv < hi);
        assert(order.subrange(lo, hi)[pv - lo] == v);
    }
}
pub proof fn lemma_tree_members(validators: Seq<ValidatorInfo>, fanout: usize, own_id: ValidatorIndex, slot: Slot, shred: usize)
    requires fanout >= 1, (own_id.0 as int) < validators.len(),
    ensures tree_members_ok(spec_tree(validators, fanout, own_id, slot, shred), validators.len() as int)
{
    let order = spec_order(validators, slot, shred);
    let n = validators.len() as int;
    axiom_order_is_perm(validators, slot, shred);
    let p = pos_of(order, own_id);
    assert(0 <= p < n && order[p] == own_id);
    let lo = clip(p * fanout + 1, n);
    let hi = clip(p * fanout + 1 + fanout, n);
    assert(p * fanout >= 0) by (nonlinear_arith) requires p >= 0, fanout >= 1;
    lemma_vec_exists(order.subrange(lo, hi));
    let t = spec_tree(validators, fanout, own_id, slot, shred);
    assert(t.children@ == order.subrange(lo, hi));
    assert forall|i: int| 0 <= i < t.children@.len() implies (#[trigger] t.children@[i]).0 < n by {
        assert(t.children@[i] == order[lo + i]);
    }
}
#[verifier::external_body]
pub proof fn lemma_vec_exists(s: Seq<ValidatorIndex>)
    ensures exists|c: Vec<ValidatorIndex>| c@ == s
{}

// the addresses of a list of validators: `children.iter().copied().map(|child| ..validator(child).disseminator_address)` (R8)
pub open spec fn spec_addrs(vals: Seq<ValidatorInfo>, ids: Seq<ValidatorIndex>) -> Seq<SocketAddr> {
    Seq::new(ids.len(), |i: int| spec_addr(vals[ids[i].0 as int]))
}
#[verifier::external_body]
pub fn verif_addrs_of(epoch: &EpochInfo, ids: &Vec<ValidatorIndex>) -> (r: Vec<SocketAddr>)
    requires forall|i: int| 0 <= i < ids@.len() ==> (#[trigger] ids@[i]).0 < epoch.validators@.len(),
    ensures r@ == spec_addrs(epoch.validators@, ids@),
{ unimplemented!() }
impl ShredPayload {
/*@ extract src/shredder.rs :: impl ShredPayload/fn index_in_slot
ret r
requires
        self.header.slice_index.0 < 1024 && self.shred_index.0 < TOTAL_SHREDS,
ensures
        r == self.header.slice_index.0 * TOTAL_SHREDS + self.shred_index.0,
@*/
}
impl<N: ShredNetwork> Turbine<N> {
    pub open spec fn spec_own_tree(&self, slot: Slot, shred: usize) -> TurbineTree {
        spec_tree(self.epoch_info.epoch.validators@, self.fanout, self.epoch_info.own_id, slot, shred)
    }
    // what Turbine's constructors must be given: the node is a validator of the epoch, a positive fanout, positions fit usize
    pub open spec fn config_ok(&self) -> bool {
        self.epoch_info.epoch.validators@.len() >= 1 && (self.epoch_info.own_id.0 as int) < self.epoch_info.epoch.validators@.len()
            && self.fanout >= 1 && self.epoch_info.epoch.validators@.len() * self.fanout + self.fanout < usize::MAX
    }
    // the tree cache is pure memoisation
    pub open spec fn tree_cache_ok(&self) -> bool {
        forall|k: (Slot, usize)| #[trigger] self.tree_cache.content().contains_key(k) ==> same_tree(self.tree_cache.content()[k], self.spec_own_tree(k.0, k.1))
    }
    // `self.tree_cache.insert(key, tree.clone())` (R8): only the computed tree may be cached
    #[verifier::external_body]
    pub fn verif_tree_cache_insert(&self, key: (Slot, usize), tree: TurbineTree)
        requires same_tree(tree, self.spec_own_tree(key.0, key.1)),
    { unimplemented!() }
    pub open spec fn spec_shred_key(shred: Shred) -> usize {
        (shred.spec_payload().header.slice_index.0 * TOTAL_SHREDS + shred.spec_payload().shred_index.0) as usize
    }

}
impl TurbineTree {
/*@ extract src/disseminator/turbine.rs :: impl TurbineTree/fn new
props C16
ret r
sig `validators: &[ValidatorInfo]` => `validators: &Vec<ValidatorInfo>`
rewrite[R8] `let seed = [ b"ALPENGLOWTURBINE", &slot.inner().to_be_bytes()[..], &shred.to_be_bytes()[..], ] .concat();` => `let seed = verif_turbine_seed(slot, shred);`
rewrite[R8] `seed.try_into() .expect("turbine seed should be exactly 32 bytes")` => `verif_seed32(seed)`
rewrite[R8] `let mut weighted_shuffle = WeightedShuffle::new(validators.iter().map(|v| v.stake));` => ``
rewrite[R8] `let validator_indices: Vec<_> = weighted_shuffle .shuffle(&mut rng) .map(|i| ValidatorIndex::new(i as u64)) .collect();` => `let validator_indices: Vec<ValidatorIndex> = verif_weighted_order(validators, &mut rng, Ghost(slot), Ghost(shred));`
rewrite[R8] `validator_indices .iter() .position(|v| *v == own_id)` => `verif_position(&validator_indices, own_id)`
rewrite[R8] `validator_indices .iter() .skip(offset) .take(fanout) .copied() .collect()` => `verif_skip_take(&validator_indices, offset, fanout)`
requires
        validators@.len() >= 1,
        // the node itself is a validator of the epoch (the `expect` on its position)
        (own_id.0 as int) < validators@.len(),
        // a tree needs a positive fanout (`(own_pos - 1) / fanout`), and positions are computed in usize
        fanout >= 1,
        validators@.len() * fanout + fanout < usize::MAX,
ensures
        // [C16.tree_is_a_function_of_slot_and_shred_position_only] the kept view is exactly the specified one
        r.root == spec_tree(validators@, fanout, own_id, slot, shred).root,
        r.parent == spec_tree(validators@, fanout, own_id, slot, shred).parent,
        r.children@ == spec_tree(validators@, fanout, own_id, slot, shred).children@,
        tree_members_ok(r, validators@.len() as int),
before `let root =`
        proof {
            axiom_order_is_perm(validators@, slot, shred);
        }
before `let parent_pos =`
        proof {
            let order = validator_indices@;
            assert(own_pos == pos_of(order, own_id)) by {
                let p = pos_of(order, own_id);
                assert(0 <= p < order.len() && order[p] == own_id);
                if p != own_pos { assert(order[p] != order[own_pos as int]); }
            }
            assert(own_pos * fanout + 1 + fanout <= validators@.len() * fanout + fanout) by (nonlinear_arith)
                requires own_pos < validators@.len(), fanout >= 1;
            if own_pos > 0 { theorem_turbine_tree(own_pos as int, fanout as int); }
            lemma_vec_exists(order.subrange(clip(own_pos * fanout + 1, order.len() as int), clip(own_pos * fanout + 1 + fanout, order.len() as int)));
        }
closure 0
        params p: usize
        ret o: ValidatorIndex
        requires p < validator_indices@.len()
        ensures o == validator_indices@[p as int]
@*/
/*@ extract src/disseminator/turbine.rs :: impl TurbineTree/fn get_root
ret r
ensures
        r == self.root,
@*/
/*@ extract src/disseminator/turbine.rs :: impl TurbineTree/fn get_children
ret r
ensures
        r@ == self.children@,
@*/
}
impl<N: ShredNetwork> Turbine<N> {
/*@ extract src/disseminator/turbine.rs :: impl Turbine<N>/fn get_tree
props C16
ret r
rewrite[R8] `self.tree_cache.insert((slot, shred), tree.clone());` => `self.verif_tree_cache_insert((slot, shred), tree.clone());`
rewrite[R8] `self.epoch_info.epoch_info().validators()` => `&self.epoch_info.epoch.validators`
rewrite[R8] `self.epoch_info.own_id()` => `self.epoch_info.own_id`
requires
        self.tree_cache_ok() && self.config_ok(),
ensures
        // [C16.tree_is_a_function_of_slot_and_shred_position_only] cache hit or not
        same_tree(r, self.spec_own_tree(slot, shred)),
        tree_members_ok(r, self.epoch_info.epoch.validators@.len() as int),
before `if let Some(tree) = self.tree_cache.get(&(slot, shred))`
        proof { lemma_tree_members(self.epoch_info.epoch.validators@, self.fanout, self.epoch_info.own_id, slot, shred); }
@*/

/*@ extract src/disseminator/turbine.rs :: impl Turbine<N>/fn send_shred_to_root
props C16
ret r
elide-async
sig `&self` => `&mut self`
sig `std::io::Result<()>` => `Result<(), IoError>`
rewrite[R8] `self .epoch_info .epoch_info() .validator(root) .disseminator_address` => `verif_addr(self.epoch_info.epoch.validator(root))`
rewrite[R8] `self.network.send(shred, addr)` => `self.network.verif_send(shred, addr)`
requires
        old(self).tree_cache_ok() && old(self).config_ok(),
        shred.spec_payload().header.slice_index.0 < 1024 && shred.spec_payload().shred_index.0 < TOTAL_SHREDS,
ensures
        // [C16.leader_and_forwarders_use_the_same_tree] the leader sends the shred to the root of the tree for
        // (slot, index of the shred in the slot) ...
        final(self).network.sent() == old(self).network.sent().push(SendRecord { shred: *shred,
            to: Seq::<SocketAddr>::empty().push(spec_addr(old(self).epoch_info.epoch.validators@[
                old(self).spec_own_tree(shred.spec_payload().header.slot, Self::spec_shred_key(*shred)).root.0 as int])) }),
@*/

/*@ extract src/disseminator/turbine.rs :: impl Turbine<N>/fn forward_shred
props C16
ret r
elide-async
sig `&self` => `&mut self`
sig `std::io::Result<()>` => `Result<(), IoError>`
rewrite[R8] `tree.get_children().iter().copied().map(|child| { self.epoch_info .epoch_info() .validator(child) .disseminator_address })` => `verif_addrs_of(&self.epoch_info.epoch, &tree.children)`
rewrite[R8] `self.network.send_to_many(shred, addrs)` => `self.network.verif_send_to_many(shred, addrs)`
requires
        old(self).tree_cache_ok() && old(self).config_ok(),
        shred.spec_payload().header.slice_index.0 < 1024 && shred.spec_payload().shred_index.0 < TOTAL_SHREDS,
ensures
        // [C16.leader_and_forwarders_use_the_same_tree] ... and every receiver forwards it to its children in the tree for the
        // SAME key
        final(self).network.sent() == old(self).network.sent().push(SendRecord { shred: *shred,
            to: spec_addrs(old(self).epoch_info.epoch.validators@,
                old(self).spec_own_tree(shred.spec_payload().header.slot, Self::spec_shred_key(*shred)).children@) }),
@*/
}

} // mod code

} // verus!

fn main() {}
