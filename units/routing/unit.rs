// Unit U11 `routing`: who relays which shred (src/disseminator/rotor.rs, turbine.rs).  Serves C16.
use vstd::prelude::*;
use std::sync::Arc;

verus! {

/*@ include units/common/base_types.rs @*/
/*@ include units/common/quorum_core.rs @*/

/*@ extract src/shredder.rs :: const TOTAL_SHREDS
@*/
/*@ extract src/disseminator/rotor.rs :: const MAX_CACHED_COMMITTEES
@*/

// ---------------------------------------------------------------- TRUSTED stand-ins
pub trait Network {}
pub trait ShredNetwork: Network {}

// rand::rngs::StdRng: a deterministic generator whose whole future is a function of its 32-byte seed
#[verifier::external_body]
pub struct StdRng { _p: () }
impl StdRng {
    pub uninterp spec fn spec_state(&self) -> Seq<u8>;
    #[verifier::external_body]
    pub fn from_seed(seed: [u8; 32]) -> (r: StdRng)
        ensures r.spec_state() == seed@
    { unimplemented!() }
}

// the sampling-strategy interface (src/disseminator/rotor/sampling_strategy.rs), instantiated for StdRng:
// ASSUMED (this is the determinism half of C17): the committee is a function of the sampler and the
// generator state only.
pub trait QuorumSamplingStrategy: Sized {
    spec fn spec_quorum(&self, rng_state: Seq<u8>) -> Seq<ValidatorIndex>;
    fn sample_quorum(&self, rng: &mut StdRng) -> (r: Vec<ValidatorIndex>)
        ensures r@ == self.spec_quorum(old(rng).spec_state());
}

// quick_cache::sync::Cache: a bounded concurrent map.  Modelled as an immutable partial map for the
// duration of a call (an insert may or may not be retained); what may be inserted is constrained by the
// precondition of the wrapper `verif_cache_insert` below.
#[verifier::external_body]
#[verifier::reject_recursive_types(K)]
#[verifier::reject_recursive_types(V)]
pub struct Cache<K, V> { _p: std::marker::PhantomData<(K, V)> }
impl<K, V> Cache<K, V> {
    pub uninterp spec fn content(&self) -> Map<K, V>;
    #[verifier::external_body]
    pub fn new(capacity: usize) -> (r: Self)
        ensures r.content() == Map::<K, V>::empty()
    { unimplemented!() }
    #[verifier::external_body]
    pub fn get(&self, key: &K) -> (r: Option<V>)
        ensures r matches Some(v) ==> self.content().contains_key(*key) && self.content()[*key] == v
    { unimplemented!() }
}

// Arc<[ValidatorIndex]> built from a Vec (`.into()`), cloned, indexed: TRUSTED wrappers
#[verifier::external_body]
pub struct RelayList { _p: () }
impl RelayList {
    pub uninterp spec fn view(&self) -> Seq<ValidatorIndex>;
}

/*@ extract src/disseminator/rotor.rs :: struct Rotor
rewrite[R8] `Arc<[ValidatorIndex]>` => `RelayList`
@*/

// ---------------------------------------------------------------- C16 specification
pub uninterp spec fn spec_be64(x: u64) -> Seq<u8>;
// "as a function of slot and slice only": seed = be(slot) ++ be(slice) ++ 0^16
pub open spec fn spec_rotor_seed(slot: Slot, slice: usize) -> Seq<u8> {
    spec_be64(slot.0) + spec_be64(slice as u64) + Seq::new(16, |i: int| 0u8)
}
impl<N: Network, S: QuorumSamplingStrategy> Rotor<N, S> {
    // the relay committee every node computes for (slot, slice)
    pub open spec fn spec_relays(&self, slot: Slot, slice: usize) -> Seq<ValidatorIndex> {
        self.sampler.spec_quorum(spec_rotor_seed(slot, slice))
    }
    // caching is pure memoisation: every cached committee is the computed one
    pub open spec fn cache_ok(&self) -> bool {
        forall|k: (Slot, usize)| #[trigger] self.relay_cache.content().contains_key(k) ==> self.relay_cache.content()[k]@ == self.spec_relays(k.0, k.1)
    }
}

// ---------------------------------------------------------------- Turbine tree positions (pure arithmetic, PROVED)
// children of position q are q*f+1 ..= q*f+f ; the parent of p >= 1 is (p-1)/f
pub open spec fn is_child_of(p: int, q: int, f: int) -> bool { q * f + 1 <= p <= q * f + f }

// [C16.turbine_positions_form_a_tree]  every non-root position has exactly one parent, and it is closer to
// the root: the forwarding relation is a tree covering every position, so in a loss-free run every
// validator receives a shred exactly once, for every validator count and every fanout >= 1.
pub proof fn theorem_turbine_tree(p: int, f: int)
    requires p >= 1, f >= 1,
    ensures
        is_child_of(p, (p - 1) / f, f),
        0 <= (p - 1) / f < p,
        forall|q: int| q >= 0 && #[trigger] is_child_of(p, q, f) ==> q == (p - 1) / f,
{
    let q0 = (p - 1) / f;
    assert(q0 * f <= p - 1 < q0 * f + f) by (nonlinear_arith) requires q0 == (p - 1) / f, f >= 1, p >= 1;
    assert(0 <= q0 < p) by (nonlinear_arith) requires q0 == (p - 1) / f, f >= 1, p >= 1, q0 * f <= p - 1;
    assert forall|q: int| q >= 0 && #[trigger] is_child_of(p, q, f) implies q == q0 by {
        assert(q == q0) by (nonlinear_arith) requires q * f + 1 <= p, p <= q * f + f, q0 * f <= p - 1, p - 1 < q0 * f + f, f >= 1, q >= 0, q0 >= 0;
    }
}

pub mod code {
use super::*;
broadcast use super::axiom_Slot_obeys_cmp_laws;

impl Slot {
/*@ extract src/types/slot.rs :: impl Slot/fn inner
ret r
ensures
        r == self.0,
@*/
}

// Rewrite R8 wrappers: byte-level seed assembly, Arc<[T]> conversions, cache insert (TRUSTED, documented behaviour)
#[verifier::external_body]
pub fn verif_rotor_seed_bytes(slot_be: [u8; 8], slice_be: [u8; 8]) -> (r: [u8; 32])
    // [a, b, [0; 8], [0; 8]].concat().try_into().expect(..)
    ensures r@ == slot_be@ + slice_be@ + Seq::new(16, |i: int| 0u8)
{ unimplemented!() }
#[verifier::external_body]
pub fn verif_u64_to_be_bytes(x: u64) -> (r: [u8; 8])
    ensures r@ == spec_be64(x)
{ unimplemented!() }
#[verifier::external_body]
pub fn verif_usize_to_be_bytes(x: usize) -> (r: [u8; 8])
    ensures r@ == spec_be64(x as u64)
{ unimplemented!() }
#[verifier::external_body]
pub fn verif_relays_from_vec(v: Vec<ValidatorIndex>) -> (r: RelayList)
    ensures r@ == v@
{ unimplemented!() }
impl RelayList {
    #[verifier::external_body]
    pub fn clone(&self) -> (r: RelayList) ensures r@ == self@ { unimplemented!() }
    #[verifier::external_body]
    pub fn verif_index(&self, i: usize) -> (r: ValidatorIndex)
        requires i < self@.len()
        ensures r == self@[i as int]
    { unimplemented!() }
}

impl<N: ShredNetwork, S: QuorumSamplingStrategy> Rotor<N, S> {
    // what may be put into the cache: only the committee computed for that key
    #[verifier::external_body]
    pub fn verif_cache_insert(&self, key: (Slot, usize), relays: RelayList)
        requires
            // [C16.cache_is_pure_memoisation]
            relays@ == self.spec_relays(key.0, key.1),
    { unimplemented!() }

/*@ extract src/disseminator/rotor.rs :: impl Rotor<N, S>/fn with_sampler
props C16
ret r
requires
        true,
ensures
        // [C16.new_sampler_starts_with_empty_cache]
        r.sampler == sampler && r.cache_ok(),
        r.epoch_info == self.epoch_info,
@*/

/*@ extract src/disseminator/rotor.rs :: impl Rotor<N, S>/fn sample_relays
props C16
ret r
sig `-> Arc<[ValidatorIndex]>` => `-> RelayList`
rewrite[R8] `let seed = [ slot.inner().to_be_bytes(), slice.to_be_bytes(), [0; 8], [0; 8], ] .concat(); let mut rng = StdRng::from_seed( seed.try_into() .expect("rotor seed should be exactly 32 bytes"), );` => `let seed = verif_rotor_seed_bytes(verif_u64_to_be_bytes(slot.inner()), verif_usize_to_be_bytes(slice)); let mut rng = StdRng::from_seed(seed);`
rewrite[R8] `let relays: Arc<[ValidatorIndex]> = self.sampler.sample_quorum(&mut rng).into();` => `let relays: RelayList = verif_relays_from_vec(self.sampler.sample_quorum(&mut rng));`
rewrite[R8] `self.relay_cache.insert((slot, slice), relays.clone());` => `self.verif_cache_insert((slot, slice), relays.clone());`
requires
        self.cache_ok(),
ensures
        // [C16.relays_are_a_function_of_slot_and_slice_only]
        r@ == self.spec_relays(slot, slice),
@*/

// Canary: MUST fail (claims the committee does not depend on the slice).
/*@ extract src/disseminator/rotor.rs :: impl Rotor<N, S>/fn sample_relays
as canary_sample_relays
expect-fail
ret r
sig `-> Arc<[ValidatorIndex]>` => `-> RelayList`
rewrite[R8] `let seed = [ slot.inner().to_be_bytes(), slice.to_be_bytes(), [0; 8], [0; 8], ] .concat(); let mut rng = StdRng::from_seed( seed.try_into() .expect("rotor seed should be exactly 32 bytes"), );` => `let seed = verif_rotor_seed_bytes(verif_u64_to_be_bytes(slot.inner()), verif_usize_to_be_bytes(slice)); let mut rng = StdRng::from_seed(seed);`
rewrite[R8] `let relays: Arc<[ValidatorIndex]> = self.sampler.sample_quorum(&mut rng).into();` => `let relays: RelayList = verif_relays_from_vec(self.sampler.sample_quorum(&mut rng));`
rewrite[R8] `self.relay_cache.insert((slot, slice), relays.clone());` => `self.verif_cache_insert((slot, slice), relays.clone());`
requires
        self.cache_ok(),
ensures
        r@ == self.spec_relays(slot, 0),
@*/
}

// The two position expressions of TurbineTree::new (verbatim statements)
/*@ extract-stmts src/disseminator/turbine.rs :: impl TurbineTree/fn new
props C16
from `let parent_pos = match own_pos {`
to `let offset = own_pos * fanout + 1;`
wrap fn turbine_positions(own_pos: usize, fanout: usize) -> (r: (Option<usize>, usize))
tail (parent_pos, offset)
requires
        fanout >= 1,
        own_pos * fanout + 1 <= usize::MAX,
ensures
        // [C16.turbine_parent_and_children_offsets]
        r.1 == own_pos * fanout + 1,
        own_pos == 0 ==> r.0 is None,
        own_pos > 0 ==> r.0 == Some(((own_pos - 1) / (fanout as int)) as usize) && is_child_of(own_pos as int, (own_pos - 1) / (fanout as int), fanout as int),
before `let parent_pos = match own_pos {`
        proof { if own_pos > 0 { theorem_turbine_tree(own_pos as int, fanout as int); } }
@*/

} // mod code

} // verus!

fn main() {}
