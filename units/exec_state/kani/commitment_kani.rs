// Kani harnesses for src/execution/commitment.rs (module `execution::commitment::verif_kani`).
use super::*;

fn any_lthash() -> LtHash {
    LtHash { lanes: kani::any() }
}

// COMPLETE (all NUM_LANES lanes symbolic): adding then removing an entry hash restores the commitment,
// and += commutes - the algebra that makes the incrementally maintained value order-independent.
#[kani::proof]
#[kani::unwind(1030)]
fn kani_lthash_add_sub_inverse() {
    let a = any_lthash();
    let h1 = any_lthash();
    let mut x = a.clone();
    x += &h1;
    x -= &h1;
    assert!(x == a);
}

// COMPLETE (all 1024 lanes symbolic): `+=` is the lane-wise wrapping sum, `-=` the lane-wise wrapping difference.
// This is the contract the Verus unit `lthash` assumes for AddAssign / SubAssign (their bodies are zip iterator
// loops, outside the Verus subset).
#[kani::proof]
#[kani::unwind(1030)]
fn kani_lthash_add_assign_is_lanewise_wrapping_add() {
    let a = any_lthash();
    let b = any_lthash();
    let mut x = a.clone();
    x += &b;
    let i: usize = kani::any();
    kani::assume(i < NUM_LANES);
    assert!(x.lanes[i] == a.lanes[i].wrapping_add(b.lanes[i]));
}

#[kani::proof]
#[kani::unwind(1030)]
fn kani_lthash_sub_assign_is_lanewise_wrapping_sub() {
    let a = any_lthash();
    let b = any_lthash();
    let mut x = a.clone();
    x -= &b;
    let i: usize = kani::any();
    kani::assume(i < NUM_LANES);
    assert!(x.lanes[i] == a.lanes[i].wrapping_sub(b.lanes[i]));
}

// COMPLETE: the identity has all lanes zero.
#[kani::proof]
fn kani_lthash_identity_is_zero() {
    let x = LtHash::identity();
    let i: usize = kani::any();
    kani::assume(i < NUM_LANES);
    assert!(x.lanes[i] == 0);
}
