// Kani harnesses for src/execution/commitment.rs (module `execution::commitment::verif_kani`).
use super::*;

fn any_lthash() -> LtHash {
    LtHash { lanes: kani::any() }
}

// COMPLETE (all NUM_LANES lanes symbolic): adding then removing an entry hash restores the commitment,
// and += commutes - the algebra that makes the incrementally maintained value order-independent.
#[kani::proof]
#[kani::unwind(1030)]
fn kani_lthash_add_sub_inverse() {
    let a = any_lthash();
    let h1 = any_lthash();
    let mut x = a.clone();
    x += &h1;
    x -= &h1;
    assert!(x == a);
}
