// Kani harnesses for src/execution/state.rs (module `execution::state::verif_kani`).
use super::*;

// reference: the 5 bits [5*depth, 5*depth + 5) of the key read as a big-endian bit string, zero padded
fn ref_chunk(key: &Address, depth: usize) -> u32 {
    let mut r: u32 = 0;
    let mut j = 0;
    while j < BITS_PER_LEVEL {
        let bitpos = depth * BITS_PER_LEVEL + j;
        let bit = if bitpos < 256 { (key[bitpos / 8] >> (7 - bitpos % 8)) & 1 } else { 0 };
        r = (r << 1) | u32::from(bit);
        j += 1;
    }
    r
}

// COMPLETE (every key, every depth a 256-bit key can reach): chunk_at extracts exactly the depth-th
// 5-bit group of the key, stays below the fan-out and never indexes out of bounds.
#[kani::proof]
#[kani::unwind(7)]
fn kani_chunk_at_is_the_key_bits() {
    let key: Address = kani::any();
    let depth: usize = kani::any();
    kani::assume(depth <= 51);
    let c = chunk_at(&key, depth);
    assert!(c < FANOUT);
    assert!(c == ref_chunk(&key, depth));
}

// COMPLETE: child_index is None iff the chunk's bit is clear, else the number of occupied chunks below it.
#[kani::proof]
#[kani::unwind(34)]
fn kani_child_index_is_rank() {
    let bitmap: u32 = kani::any();
    let chunk: u32 = kani::any();
    kani::assume(chunk < FANOUT);
    let b = Branch { bitmap, children: SmallVec::new() };
    let r = b.child_index(chunk);
    let mut rank = 0usize;
    let mut c = 0u32;
    while c < chunk {
        if bitmap & (1 << c) != 0 {
            rank += 1;
        }
        c += 1;
    }
    if bitmap & (1 << chunk) == 0 {
        assert!(r.is_none());
    } else {
        assert!(r == Some(rank));
    }
}
