// Kani harnesses for src/execution/state.rs (module `execution::state::verif_kani`).
use super::*;

// reference: the 5 bits [5*depth, 5*depth + 5) of the key read as a big-endian bit string, zero padded
fn ref_chunk(key: &Address, depth: usize) -> u32 {
    let mut r: u32 = 0;
    let mut j = 0;
    while j < BITS_PER_LEVEL {
        let bitpos = depth * BITS_PER_LEVEL + j;
        let bit = if bitpos < 256 { (key[bitpos / 8] >> (7 - bitpos % 8)) & 1 } else { 0 };
        r = (r << 1) | u32::from(bit);
        j += 1;
    }
    r
}

// COMPLETE (every key, every depth a 256-bit key can reach): chunk_at extracts exactly the depth-th
// 5-bit group of the key, stays below the fan-out and never indexes out of bounds.
#[kani::proof]
#[kani::unwind(7)]
fn kani_chunk_at_is_the_key_bits() {
    let key: Address = kani::any();
    let depth: usize = kani::any();
    kani::assume(depth <= 51);
    let c = chunk_at(&key, depth);
    assert!(c < FANOUT);
    assert!(c == ref_chunk(&key, depth));
}

// COMPLETE: child_index is None iff the chunk's bit is clear, else the number of occupied chunks below it.
#[kani::proof]
#[kani::unwind(34)]
fn kani_child_index_is_rank() {
    let bitmap: u32 = kani::any();
    let chunk: u32 = kani::any();
    kani::assume(chunk < FANOUT);
    let b = Branch { bitmap, children: SmallVec::new() };
    let r = b.child_index(chunk);
    let mut rank = 0usize;
    let mut c = 0u32;
    while c < chunk {
        if bitmap & (1 << c) != 0 {
            rank += 1;
        }
        c += 1;
    }
    if bitmap & (1 << chunk) == 0 {
        assert!(r.is_none());
    } else {
        assert!(r == Some(rank));
    }
}

// COMPLETE (every pair of keys): the 52 chunks of a key determine it - two keys that agree on chunk_at at every depth
// 0..=51 are equal.  This is the injectivity axiom the Verus unit `trie` assumes about chunk_at
// (axiom_chunks_determine_key): it bounds the trie depth and makes split_leaves terminate.
#[kani::proof]
#[kani::unwind(53)]
fn kani_chunks_determine_the_key() {
    let k1: Address = kani::any();
    let k2: Address = kani::any();
    let mut same = true;
    let mut d = 0usize;
    while d < 52 {
        if chunk_at(&k1, d) != chunk_at(&k2, d) {
            same = false;
        }
        d += 1;
    }
    assert!(!same || k1 == k2);
}

// COMPLETE (every bitmap, every chunk): the popcount of the bitmap bits below `chunk` - the expression used by
// Branch::child_index and Branch::insert_child - is the number of occupied chunks below it
// (axiom_popcount_is_rank of the Verus unit `trie`, about u32::count_ones).
#[kani::proof]
#[kani::unwind(34)]
fn kani_popcount_below_is_rank() {
    let bitmap: u32 = kani::any();
    let chunk: u32 = kani::any();
    kani::assume(chunk < FANOUT);
    let mut rank = 0u32;
    let mut c = 0u32;
    while c < chunk {
        if bitmap & (1 << c) != 0 {
            rank += 1;
        }
        c += 1;
    }
    assert!((bitmap & ((1 << chunk) - 1)).count_ones() == rank);
}

// COMPLETE (every pair of keys, every depth): trie order is key order - two keys that agree on all chunks before depth d
// and whose chunk at d is smaller / larger compare (`<` on [u8; 32], lexicographic) the same way.  This is
// axiom_chunk_order of the Verus unit `trie`, on which the "iteration in key order" theorem rests.
#[kani::proof]
#[kani::unwind(53)]
fn kani_chunk_order_is_key_order() {
    let k1: Address = kani::any();
    let k2: Address = kani::any();
    let d: usize = kani::any();
    kani::assume(d < 52);
    let mut prefix_equal = true;
    let mut i = 0usize;
    while i < 52 {
        if i < d && chunk_at(&k1, i) != chunk_at(&k2, i) {
            prefix_equal = false;
        }
        i += 1;
    }
    if prefix_equal && chunk_at(&k1, d) < chunk_at(&k2, d) {
        assert!(k1 < k2);
    }
}
