// Unit U9 `rs_codec`: padding / shard-size arithmetic of the Reed-Solomon shredder
// (src/shredder/reed_solomon.rs).  Serves C11.
use vstd::prelude::*;

verus! {

/*@ include units/common/base_types.rs @*/

/*@ extract src/shredder.rs :: const DATA_SHREDS
@*/
/*@ extract src/shredder.rs :: const TOTAL_SHREDS
@*/
/*@ extract src/shredder.rs :: const MAX_DATA_PER_SHRED
@*/
/*@ extract src/shredder.rs :: const MAX_DATA_PER_SLICE_AFTER_PADDING
@*/
/*@ extract src/shredder.rs :: const MAX_DATA_PER_SLICE
@*/

/*@ extract src/shredder/reed_solomon.rs :: enum ReedSolomonDeshredError
derive Clone, Copy
@*/

// ---------------------------------------------------------------- C11 padding specification
pub open spec fn spec_trailing_zeros(s: Seq<u8>) -> nat
    decreases s.len()
{
    if s.len() == 0 || s[s.len() - 1] != 0 { 0 } else { 1 + spec_trailing_zeros(s.drop_last()) }
}
// payload ++ 0x80 ++ k zero bytes
pub open spec fn spec_pad(p: Seq<u8>, k: nat) -> Seq<u8> {
    p.push(0x80u8) + Seq::new(k, |i: int| 0u8)
}
// what deshred does with the restored bytes: None = InvalidPadding
pub open spec fn spec_strip(s: Seq<u8>) -> Option<Seq<u8>> {
    let z = spec_trailing_zeros(s);
    if z + 1 > s.len() || s[s.len() - z - 1] != 0x80 { None }
    else { Some(s.subrange(0, s.len() - z - 1)) }
}

pub proof fn lemma_trailing_zeros_bound(s: Seq<u8>)
    ensures
        spec_trailing_zeros(s) <= s.len(),
        spec_trailing_zeros(s) < s.len() ==> s[s.len() - spec_trailing_zeros(s) - 1] != 0,
        forall|i: int| s.len() - spec_trailing_zeros(s) <= i < s.len() ==> s[i] == 0,
    decreases s.len()
{
    if s.len() > 0 && s[s.len() - 1] == 0 {
        lemma_trailing_zeros_bound(s.drop_last());
        let t = s.drop_last();
        assert forall|i: int| s.len() - spec_trailing_zeros(s) <= i < s.len() implies s[i] == 0 by {
            if i < t.len() { assert(t[i] == s[i]); }
        }
        if spec_trailing_zeros(s) < s.len() {
            assert(t[t.len() - spec_trailing_zeros(t) - 1] == s[s.len() - spec_trailing_zeros(s) - 1]);
        }
    }
}

pub proof fn lemma_trailing_zeros_of_pad(p: Seq<u8>, k: nat)
    ensures spec_trailing_zeros(spec_pad(p, k)) == k
    decreases k
{
    let s = spec_pad(p, k);
    if k == 0 {
        assert(s[s.len() - 1] == 0x80u8);
    } else {
        assert(s[s.len() - 1] == 0u8);
        assert(s.drop_last() =~= spec_pad(p, (k - 1) as nat));
        lemma_trailing_zeros_of_pad(p, (k - 1) as nat);
    }
}

// [C11.strip_inverts_pad C13.decoded_payload_is_the_padded_original]  For EVERY payload (empty, maximal, ending in 0x00 or 0x80, ...) and every
// number of padding zeros, stripping the padded bytes gives back exactly the payload.
pub proof fn theorem_strip_pad_roundtrip(p: Seq<u8>, k: nat)
    ensures spec_strip(spec_pad(p, k)) == Some(p)
{
    lemma_trailing_zeros_of_pad(p, k);
    let s = spec_pad(p, k);
    assert(s.len() == p.len() + 1 + k);
    assert(s[s.len() - k - 1] == 0x80u8);
    assert(s.subrange(0, s.len() - k - 1) =~= p);
}

pub mod code {
use super::*;

// std integer helpers without a vstd specification (TRUSTED: documented behaviour)
pub assume_specification[ usize::div_ceil ](a: usize, b: usize) -> (r: usize)
    requires b > 0,
    ensures r as int == (a as int + b as int - 1) / (b as int);

pub assume_specification[ usize::next_multiple_of ](a: usize, b: usize) -> (r: usize)
    requires b > 0, ((a as int + b as int - 1) / (b as int)) * (b as int) <= usize::MAX,
    ensures r as int == ((a as int + b as int - 1) / (b as int)) * (b as int);

// ceil(64 / sb) * sb for an even shard size sb >= 2 (PROVED, nonlinear arithmetic)
pub proof fn lemma_tail_arith(sb: int)
    requires sb >= 2, sb <= 1024,
    ensures ({
        let q = (64 + sb - 1) / sb;
        &&& 1 <= q <= 32
        &&& 64 <= q * sb < 64 + sb
        &&& q * sb <= 32 * sb
        &&& (q * sb) % sb == 0 && (q * sb) / sb == q
        &&& (32 * sb - q * sb) % sb == 0 && (32 * sb - q * sb) / sb == 32 - q
        &&& q * sb <= usize::MAX
    }),
{
    let q = (64 + sb - 1) / sb;
    assert(q * sb <= 64 + sb - 1 && q * sb > 64 - 1) by (nonlinear_arith)
        requires sb >= 2, q == (64 + sb - 1) / sb;
    assert(q >= 1 && q <= 32) by (nonlinear_arith)
        requires sb >= 2, 64 <= q * sb, q * sb < 64 + sb;
    assert(q * sb <= 32 * sb) by (nonlinear_arith) requires q <= 32, sb >= 2;
    vstd::arithmetic::div_mod::lemma_mod_multiples_basic(q, sb);
    vstd::arithmetic::div_mod::lemma_div_multiples_vanish(q, sb);
    assert(sb * q == q * sb) by (nonlinear_arith);
    assert(32 * sb - q * sb == (32 - q) * sb) by (nonlinear_arith);
    vstd::arithmetic::div_mod::lemma_mod_multiples_basic(32 - q, sb);
    vstd::arithmetic::div_mod::lemma_div_multiples_vanish(32 - q, sb);
    assert(sb * (32 - q) == (32 - q) * sb) by (nonlinear_arith);
    assert(q * sb <= 64 + 1024);
}

// The arithmetic prefix of ReedSolomonCoder::shred (five `let`s, verbatim), as a function of the
// payload length.  The iterator chain that follows (`payload[..boundary].chunks(shred_bytes)
// .chain(last_shreds.chunks(shred_bytes))`) is correct exactly if these numbers satisfy the
// postconditions: 32 equal, even, non-empty shards whose concatenation is payload ++ 0x80 ++ 0*.
/*@ extract-stmts src/shredder/reed_solomon.rs :: impl ReedSolomonCoder/fn shred
props C11
from `let padding_bytes =`
to `let boundary = payload.len() - (last_shreds_bytes - padding_bytes);`
drop `self.encoder .reset(DATA_SHREDS, self.num_coding, shred_bytes) .expect("shred size with padding should be supported");`
wrap fn shred_arith(payload_len: usize) -> (r: (usize, usize, usize, usize))
tail (padding_bytes, shred_bytes, last_shreds_bytes, boundary)
rewrite*[stmt-range-param] `payload.len()` => `payload_len`
requires
        payload_len <= MAX_DATA_PER_SLICE,
ensures
        // r = (padding_bytes, shred_bytes, last_shreds_bytes, boundary)
        // [C11.padding_between_1_and_64_to_multiple_of_64]
        1 <= r.0 <= 64 && (payload_len + r.0) % 64 == 0,
        // [C11.shards_equal_even_nonempty_within_limit]
        r.1 > 0 && r.1 % 2 == 0 && r.1 * 32 == payload_len + r.0 && r.1 <= MAX_DATA_PER_SHRED,
        // [C11.tail_covers_padding_without_underflow]
        r.2 % r.1 == 0 && r.2 >= r.0 && r.2 - r.0 <= payload_len && r.3 == payload_len - (r.2 - r.0),
        // [C11.exactly_32_data_shards]
        r.3 % r.1 == 0 && r.3 / r.1 + r.2 / r.1 == 32,
after `let shred_bytes = (payload_len + padding_bytes).div_ceil(DATA_SHREDS);`
        proof { lemma_tail_arith(shred_bytes as int); }
before `let boundary = payload_len - (last_shreds_bytes - padding_bytes);`
        proof {
            let sb = shred_bytes as int;
            assert(payload_len + padding_bytes == 32 * sb);
        }
@*/

// ---------------------------------------------------------------- padding strip (suffix of deshred)
// Rewrite R8: `restored_payload.iter().rev().take_while(|b| **b == 0).count()` (iterator chain) is named
// through this TRUSTED wrapper: the number of trailing zero bytes.
#[verifier::external_body]
pub fn verif_count_trailing_zeros(v: &Vec<u8>) -> (r: usize)
    ensures r as nat == spec_trailing_zeros(v@)
{ unimplemented!() }

/*@ extract-stmts src/shredder/reed_solomon.rs :: impl ReedSolomonCoder/fn deshred
props C11
from `let padding_bytes = restored_payload`
to `restored_payload.truncate(marker_idx);`
wrap fn strip_padding(restored_payload_in: Vec<u8>) -> (r: Result<Vec<u8>, ReedSolomonDeshredError>)
tail Ok(restored_payload)
rewrite[R8] `restored_payload .iter() .rev() .take_while(|b| **b == 0) .count()` => `verif_count_trailing_zeros(&restored_payload)`
requires
        restored_payload_in@.len() < usize::MAX,
ensures
        // [C11.strip_inverts_pad C13.decoded_payload_is_the_padded_original]
        match r {
            Ok(v) => spec_strip(restored_payload_in@) == Some(v@),
            Err(e) => e == ReedSolomonDeshredError::InvalidPadding && spec_strip(restored_payload_in@) is None,
        },
before `let padding_bytes = verif_count_trailing_zeros(&restored_payload)`
        let mut restored_payload = restored_payload_in;
        proof { lemma_trailing_zeros_bound(restored_payload@); }
@*/

// Canary: the real arithmetic under a false contract (claims the padding can be empty); MUST fail.
/*@ extract-stmts src/shredder/reed_solomon.rs :: impl ReedSolomonCoder/fn shred
expect-fail
from `let padding_bytes =`
to `let shred_bytes = (payload.len() + padding_bytes).div_ceil(DATA_SHREDS);`
wrap fn canary_shred_arith(payload_len: usize) -> (r: (usize, usize))
tail (padding_bytes, shred_bytes)
rewrite*[stmt-range-param] `payload.len()` => `payload_len`
requires
        payload_len <= MAX_DATA_PER_SLICE,
ensures
        r.0 == 0,
@*/

} // mod code

} // verus!

fn main() {}
