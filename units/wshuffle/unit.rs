// Unit `wshuffle`: the weighted shuffle behind Turbine's tree order (src/disseminator/turbine/weighted_shuffle.rs, ported
// from agave): an implicit 16-ary sum tree kept in a Vec and walked with `unsafe { get_unchecked(_mut) }`.
// Serves C16 (the order is a permutation of the validators) and the memory safety of the three unsafe sites (C10).
use vstd::prelude::*;
use vstd::multiset::Multiset;

verus! {

/*@ include units/common/base_types.rs @*/

// `impl SubAssign for Stake` is hand-written in the repo (src/types/stake.rs): verified against this spec, not trusted
impl vstd::std_specs::ops::SubAssignSpecImpl<Stake> for Stake {
    open spec fn obeys_sub_assign_spec() -> bool { true }
    open spec fn sub_assign_req(&self, rhs: Stake) -> bool { self.0 >= rhs.0 }
    open spec fn sub_assign_spec(&self, rhs: Stake) -> &Stake { &Stake((self.0 - rhs.0) as u64) }
}
/*@ extract src/types/stake.rs :: impl SubAssign for Stake
rewrite[use-path] `impl SubAssign for Stake` => `impl std::ops::SubAssign for Stake`
@*/

/*@ extract src/disseminator/turbine/weighted_shuffle.rs :: const BIT_SHIFT
@*/
/*@ extract src/disseminator/turbine/weighted_shuffle.rs :: const FANOUT
ensures
        FANOUT == 16,
before ``
        proof { assert((1usize << 4usize) == 16usize) by (bit_vector); }
@*/
/*@ extract src/disseminator/turbine/weighted_shuffle.rs :: const BIT_MASK
ensures
        BIT_MASK == 15,
@*/
/*@ extract src/disseminator/turbine/weighted_shuffle.rs :: struct WeightedShuffle
derive
@*/

pub open spec fn pow16(h: nat) -> nat decreases h { if h == 0 { 1 } else { 16 * pow16((h - 1) as nat) } }
// number of nodes on the levels above level h of a complete 16-ary tree: S_0 = 0, S_{h+1} = 16 S_h + 1
pub open spec fn s_of(h: nat) -> nat decreases h { if h == 0 { 0 } else { 16 * s_of((h - 1) as nat) + 1 } }
pub proof fn lemma_s_of(h: nat)
    ensures s_of(h + 1) == s_of(h) + pow16(h), pow16(h) >= 1,
    decreases h
{
    if h > 0 { lemma_s_of((h - 1) as nat); }
}
pub open spec fn is_layout(count: nat, num_nodes: nat, size: nat, h: nat) -> bool {
    num_nodes == s_of(h + 1) && size == s_of(h) + (count + 15) / 16 && count <= 16 * pow16(h)
}

pub proof fn lemma_s_le(h: nat)
    ensures s_of(h) <= pow16(h),
    decreases h
{
    if h > 0 { lemma_s_le((h - 1) as nat); lemma_s_of((h-1) as nat); }
}

// bit tricks of the implicit 16-ary tree: parent of node x >= 1 is (x-1)/16, it is child number (x-1)%16
pub proof fn lemma_bits(x: usize)
    ensures (x >> 4usize) == x / 16, (x & 15usize) == x % 16, (x & 15usize) < 16,
{
    assert((x >> 4usize) == x / 16) by (bit_vector);
    assert((x & 15usize) == x % 16) by (bit_vector);
}
pub proof fn lemma_shl(x: usize)
    requires x <= 0x1000_0000_0000,
    ensures (x << 4usize) == x * 16,
{
    assert((x << 4usize) == x * 16) by (bit_vector) requires x <= 0x1000_0000_0000usize;
}

// R10 (unsafe): `unsafe { tree.get_unchecked_mut(index).get_unchecked_mut(offset) }.add_assign(w)` / `.sub_assign(w)` and
// `unsafe { self.tree.get_unchecked(index) }`: the SAFETY condition of get_unchecked (both indices in bounds - otherwise
// undefined behaviour, not a panic) is the PRECONDITION of the wrapper, so it has to be proved at each of the three sites;
// so is the absence of overflow / underflow of the stake arithmetic (a panic: overflow-checks = true in the release profile).
#[verifier::external_body]
pub fn verif_tree_add(tree: &mut Vec<[Stake; FANOUT]>, index: usize, offset: usize, w: Stake)
    requires
        // [C10.unchecked_tree_access_is_in_bounds C16.unchecked_tree_access_is_in_bounds]
        index < old(tree)@.len(), offset < 16,
        old(tree)@[index as int]@[offset as int].0 + w.0 <= u64::MAX,
    ensures final(tree)@.len() == old(tree)@.len(),
        forall|i: int, j: int| 0 <= i < old(tree)@.len() && 0 <= j < 16 ==> #[trigger] final(tree)@[i]@[j] ==
            (if i == index && j == offset { Stake((old(tree)@[i]@[j].0 + w.0) as u64) } else { old(tree)@[i]@[j] })
{ unimplemented!() }
#[verifier::external_body]
pub fn verif_tree_sub(tree: &mut Vec<[Stake; FANOUT]>, index: usize, offset: usize, w: Stake)
    requires
        // [C10.unchecked_tree_access_is_in_bounds C16.unchecked_tree_access_is_in_bounds]
        index < old(tree)@.len(), offset < 16,
        old(tree)@[index as int]@[offset as int].0 >= w.0,
    ensures final(tree)@.len() == old(tree)@.len(),
        forall|i: int, j: int| 0 <= i < old(tree)@.len() && 0 <= j < 16 ==> #[trigger] final(tree)@[i]@[j] ==
            (if i == index && j == offset { Stake((old(tree)@[i]@[j].0 - w.0) as u64) } else { old(tree)@[i]@[j] })
{ unimplemented!() }
// `vec![[Stake::new(0); FANOUT]; size]` (R8)
#[verifier::external_body]
pub fn verif_zero_tree(size: usize) -> (r: Vec<[Stake; FANOUT]>)
    ensures r@.len() == size, forall|i: int, j: int| 0 <= i < size && 0 <= j < 16 ==> (#[trigger] r@[i]@[j]).0 == 0
{ unimplemented!() }

// the parent of leaf k (node num_nodes + k) is an allocated node
pub proof fn lemma_leaf_parent(count: nat, num_nodes: nat, size: nat, h: nat, k: nat)
    requires is_layout(count, num_nodes, size, h), k < count,
    ensures (num_nodes + k - 1) / 16 < size, num_nodes + k >= 1,
{
    lemma_s_of(h);
    // num_nodes = s_of(h+1) = 16 s_of(h) + 1
    assert(num_nodes + k - 1 == 16 * s_of(h) + k);
    assert((16 * s_of(h) + k) / 16 == s_of(h) + k / 16);
    assert(k / 16 < (count + 15) / 16);
}

// ---------------------------------------------------------------- functional specification of the sum tree
pub open spec fn leafw(w: Seq<nat>, k: int) -> nat { if 0 <= k < w.len() { w[k] } else { 0 } }
// total weight below node c of the implicit tree with nn internal nodes (leaf k is node nn + k)
pub open spec fn sub(w: Seq<nat>, nn: nat, c: nat) -> nat
    decreases (if c < nn { nn - c } else { 0 }), 17nat
{
    if c >= nn { leafw(w, c - nn) } else { sub16(w, nn, c, 16) }
}
// weight below the first j children of c
pub open spec fn sub16(w: Seq<nat>, nn: nat, c: nat, j: nat) -> nat
    decreases (if c < nn { nn - c } else { 0 }), j
{
    if j == 0 || c >= nn { 0 } else { sub16(w, nn, c, (j - 1) as nat) + sub(w, nn, 16 * c + j) }
}
// is c on the path from node x up to the root (x itself included)?
pub open spec fn on_path(c: nat, x: nat) -> bool
    decreases x
{
    c == x || (x > c && x >= 1 && on_path(c, ((x - 1) / 16) as nat))
}

// changing the weight of leaf k by d changes exactly the subtree sums on the path from that leaf to the root
pub proof fn lemma_sub_update(w: Seq<nat>, nn: nat, k: nat, x: nat, c: nat)
    requires k < w.len(), k <= 15 * nn, nn >= 1,
    ensures sub(w.update(k as int, x), nn, c) + (if on_path(c, nn + k) { w[k as int] } else { 0 })
         == sub(w, nn, c) + (if on_path(c, nn + k) { x } else { 0 }),
    decreases (if c < nn { nn - c } else { 0 }), 17nat
{
    let w2 = w.update(k as int, x);
    let l = nn + k;
    if c >= nn {
        // a leaf: on the path iff it is the leaf itself (the parent of leaf l is an internal node, i.e. below nn <= c)
        if c >= l { lemma_on_path_ge(c, l); } else {
            let p = ((l - 1) / 16) as nat;
            assert(p < nn);
            lemma_on_path_ge(c, p);
        }
    } else {
        lemma_sub16_update(w, nn, k, x, c, 16);
        if on_path(c, l) { lemma_child_le(c, l); }
    }
}
// a node >= x is on x's path only if it is x
pub proof fn lemma_on_path_ge(c: nat, x: nat)
    requires c >= x,
    ensures on_path(c, x) == (c == x),
{
}
pub proof fn lemma_sub16_update(w: Seq<nat>, nn: nat, k: nat, x: nat, c: nat, j: nat)
    requires k < w.len(), c < nn, j <= 16, k <= 15 * nn, nn >= 1,
    ensures
        sub16(w.update(k as int, x), nn, c, j) + (if on_path(c, nn + k) && child_no(c, nn + k) < j { w[k as int] } else { 0 })
         == sub16(w, nn, c, j) + (if on_path(c, nn + k) && child_no(c, nn + k) < j { x } else { 0 }),
    decreases (if c < nn { nn - c } else { 0 }), j
{
    if j > 0 {
        lemma_sub16_update(w, nn, k, x, c, (j - 1) as nat);
        lemma_sub_update(w, nn, k, x, 16 * c + j);
        lemma_child_on_path(c, nn + k, j);
    }
}
// which child of c (numbered 0..15) the path from x to the root passes through (meaningful if c is strictly above x on its path)
pub open spec fn child_no(c: nat, x: nat) -> nat
    decreases x
{
    if x >= 1 && ((x - 1) / 16) as nat == c { ((x - 1) % 16) as nat }
    else if x > c && x >= 1 { child_no(c, ((x - 1) / 16) as nat) }
    else { 16 }
}
// child number j-1 of c (node 16c + j) is on x's path iff c is (strictly above x) on the path and the path goes through that child
pub proof fn lemma_child_on_path(c: nat, x: nat, j: nat)
    requires 1 <= j <= 16,
    ensures on_path(16 * c + j, x) == (on_path(c, x) && c != x && child_no(c, x) == j - 1),
    decreases x
{
    let d = 16 * c + j;
    if x == d {
        assert(((x - 1) / 16) as nat == c);
        assert((x - 1) % 16 == j - 1);
        assert(on_path(c, c));
    } else if x < d {
        lemma_on_path_ge(d, x);
        if on_path(c, x) && c != x {
            lemma_child_le(c, x);
        }
    } else {
        let p = ((x - 1) / 16) as nat;
        if p == c {
            lemma_on_path_ge(d, c);
            assert((x - 1) % 16 != j - 1);
        } else {
            lemma_child_on_path(c, p, j);
        }
    }
}
// the child of c through which x's path passes is a node <= x
pub proof fn lemma_child_le(c: nat, x: nat)
    requires on_path(c, x), c != x,
    ensures 16 * c + child_no(c, x) + 1 <= x, child_no(c, x) < 16,
    decreases x
{
    let p = ((x - 1) / 16) as nat;
    if p != c {
        lemma_child_le(c, p);
    }
}

pub proof fn lemma_on_path_le(n: nat, y: nat)
    requires on_path(n, y),
    ensures n <= y,
    decreases y
{
    if n != y { lemma_on_path_le(n, ((y - 1) / 16) as nat); }
}
// between a path node and its parent there is no other path node
pub proof fn lemma_path_gap(n: nat, x: nat, l: nat)
    requires on_path(n, l), on_path(x, l), x >= 1, n > (x - 1) / 16,
    ensures n >= x,
    decreases l
{
    if l == x {
        if n != l { lemma_on_path_le(n, ((l - 1) / 16) as nat); }
    } else {
        if n != l { lemma_path_gap(n, x, ((l - 1) / 16) as nat); }
    }
}
pub proof fn lemma_sub_zero(w: Seq<nat>, nn: nat, c: nat)
    requires forall|k: int| 0 <= k < w.len() ==> w[k] == 0,
    ensures sub(w, nn, c) == 0,
    decreases (if c < nn { nn - c } else { 0 }), 17nat
{
    if c < nn { lemma_sub16_zero(w, nn, c, 16); }
}
pub proof fn lemma_sub16_zero(w: Seq<nat>, nn: nat, c: nat, j: nat)
    requires forall|k: int| 0 <= k < w.len() ==> w[k] == 0, c < nn,
    ensures sub16(w, nn, c, j) == 0,
    decreases (if c < nn { nn - c } else { 0 }), j
{
    if j > 0 { lemma_sub16_zero(w, nn, c, (j - 1) as nat); lemma_sub_zero(w, nn, 16 * c + j); }
}

// what WeightedShuffle::new has computed after the first n weights: the leaf weights (0 for zero weights and for weights whose
// addition would overflow the running sum), the running sum, and the list of the zero-class indices
pub open spec fn build(ws: Seq<Stake>, n: nat) -> (Seq<nat>, nat, Seq<usize>)
    decreases n
{
    if n == 0 || n > ws.len() { (Seq::new(ws.len(), |i: int| 0nat), 0nat, Seq::empty()) } else {
        let (w, sum, z) = build(ws, (n - 1) as nat);
        let x = ws[n - 1].0 as nat;
        if x == 0 || sum + x > u64::MAX { (w, sum, z.push((n - 1) as usize)) } else { (w.update(n - 1, x), sum + x, z) }
    }
}

impl WeightedShuffle {
    // the tree stores, for every allocated node, the subtree weights of its 16 children; `weight` is the total
    pub open spec fn inv(&self, w: Seq<nat>, h: nat) -> bool {
        &&& is_layout(w.len(), self.num_nodes as nat, self.tree@.len(), h)
        &&& w.len() <= 0x1_0000_0000 && self.num_nodes <= 0x2_0000_0000
        &&& forall|i: int, j: int| 0 <= i < self.tree@.len() && 0 <= j < 16 ==> (#[trigger] self.tree@[i]@[j]).0 == sub(w, self.num_nodes as nat, (16 * i + j + 1) as nat)
        &&& self.weight.0 == sub(w, self.num_nodes as nat, 0)
    }
}
// the root is on every path
pub proof fn lemma_root_on_path(x: nat)
    ensures on_path(0, x),
    decreases x
{
    if x > 0 { lemma_root_on_path(((x - 1) / 16) as nat); }
}
// a subtree weighs no more than the whole tree
pub proof fn lemma_sub_le_total(w: Seq<nat>, nn: nat, c: nat)
    requires c == 0 || (c - 1) / 16 < nn,
    ensures sub(w, nn, c) <= sub(w, nn, 0),
    decreases c
{
    if c > 0 {
        let p = ((c - 1) / 16) as nat;
        lemma_sub_le_total(w, nn, p);
        let j = ((c - 1) % 16 + 1) as nat;
        assert(16 * p + j == c);
        lemma_sub16_mono(w, nn, p, j, 16);
    }
}
pub proof fn lemma_sub16_mono(w: Seq<nat>, nn: nat, c: nat, j: nat, m: nat)
    requires 1 <= j <= m <= 16, c < nn,
    ensures sub(w, nn, 16 * c + j) <= sub16(w, nn, c, m),
    decreases m
{
    if m > j { lemma_sub16_mono(w, nn, c, j, (m - 1) as nat); }
}
pub proof fn lemma_parent_on_path(x: nat, l: nat)
    requires on_path(x, l), x >= 1,
    ensures on_path(((x - 1) / 16) as nat, l),
    decreases l
{
    if x == l {
        assert(on_path(((l - 1) / 16) as nat, ((l - 1) / 16) as nat));
    } else {
        lemma_parent_on_path(x, ((l - 1) / 16) as nat);
    }
}
// index k is still zero before it is processed
pub proof fn lemma_build_unset(ws: Seq<Stake>, n: nat, k: nat)
    requires n <= k < ws.len(), n <= ws.len(),
    ensures build(ws, n).0.len() == ws.len(), build(ws, n).0[k as int] == 0,
    decreases n
{
    if n > 0 { lemma_build_unset(ws, (n - 1) as nat, k); }
}

// a leaf's weight is part of every subtree on its path
pub proof fn lemma_path_ge_leaf(w: Seq<nat>, nn: nat, k: nat, c: nat)
    requires k < w.len(), k <= 15 * nn, nn >= 1, on_path(c, nn + k),
    ensures sub(w, nn, c) >= w[k as int],
{
    lemma_sub_update(w, nn, k, 0, c);
}
pub proof fn lemma_layout_k(count: nat, nn: nat, size: nat, h: nat, k: nat)
    requires is_layout(count, nn, size, h), k < count,
    ensures k <= 15 * nn, nn >= 1,
{
    lemma_s_of(h); lemma_s_le(h);
}

// an internal node that is not allocated (size <= c < nn) has no leaf with a weight below it
pub proof fn lemma_sub_unallocated(w: Seq<nat>, nn: nat, size: nat, c: nat)
    requires c >= size, size >= 1, w.len() + nn <= 16 * size + 1,
    ensures c < nn ==> sub(w, nn, c) == 0,
    decreases (if c < nn { nn - c } else { 0 }), 17nat
{
    if c < nn { lemma_sub16_unallocated(w, nn, size, c, 16); }
}
pub proof fn lemma_sub16_unallocated(w: Seq<nat>, nn: nat, size: nat, c: nat, j: nat)
    requires c >= size, size >= 1, w.len() + nn <= 16 * size + 1, c < nn, j <= 16,
    ensures sub16(w, nn, c, j) == 0,
    decreases (if c < nn { nn - c } else { 0 }), j
{
    if j > 0 {
        lemma_sub16_unallocated(w, nn, size, c, (j - 1) as nat);
        let d: nat = 16 * c + j;
        if d < nn { lemma_sub_unallocated(w, nn, size, d); } else { assert(d - nn >= w.len()); assert(leafw(w, d - nn) == 0); }
        assert(sub(w, nn, d) == 0);
        assert(sub16(w, nn, c, j) == sub16(w, nn, c, (j - 1) as nat) + sub(w, nn, 16 * c + j));
    }
}
// the layout leaves no room for a weighted leaf below an unallocated node
pub proof fn lemma_layout_room(count: nat, nn: nat, size: nat, h: nat)
    requires is_layout(count, nn, size, h),
    ensures count + nn <= 16 * size + 1, count >= 1 ==> size >= 1, size <= nn,
{
    lemma_s_of(h); lemma_s_le(h);
}
// the weight below a node is the weight below its first j children plus the rest
pub proof fn lemma_sub16_step(w: Seq<nat>, nn: nat, c: nat, j: nat)
    requires c < nn, j < 16,
    ensures sub16(w, nn, c, j + 1) == sub16(w, nn, c, j) + sub(w, nn, 16 * c + j + 1), sub16(w, nn, c, j) <= sub16(w, nn, c, 16),
    decreases 16 - j
{
    if j + 1 < 16 { lemma_sub16_step(w, nn, c, j + 1); }
}

// ---------------------------------------------------------------- what is still to be emitted
// the indices with a positive weight among the first n, each once
pub open spec fn wpos(w: Seq<nat>, n: nat) -> Multiset<usize>
    decreases n
{
    if n == 0 || n > w.len() { Multiset::empty() } else {
        let m = wpos(w, (n - 1) as nat);
        if w[n - 1] > 0 { m.insert((n - 1) as usize) } else { m }
    }
}
// the indices not yet emitted: the weighted ones and the list of zero-class ones
pub open spec fn pending(w: Seq<nat>, zeros: Seq<usize>) -> Multiset<usize> {
    wpos(w, w.len()).add(zeros.to_multiset())
}
pub proof fn lemma_wpos_count(w: Seq<nat>, n: nat, k: usize)
    requires n <= w.len(), w.len() <= usize::MAX,
    ensures wpos(w, n).count(k) == (if k < n && w[k as int] > 0 { 1nat } else { 0nat }),
    decreases n
{
    if n > 0 { lemma_wpos_count(w, (n - 1) as nat, k); }
}
// taking the weight off index k removes exactly k from the weighted indices
pub proof fn lemma_wpos_remove(w: Seq<nat>, k: usize)
    requires k < w.len(), w[k as int] > 0, w.len() <= usize::MAX,
    ensures wpos(w, w.len()) =~= wpos(w.update(k as int, 0), w.len()).insert(k),
{
    let w2 = w.update(k as int, 0);
    assert forall|x: usize| wpos(w, w.len()).count(x) == wpos(w2, w.len()).insert(k).count(x) by {
        lemma_wpos_count(w, w.len(), x);
        lemma_wpos_count(w2, w.len(), x);
    }
}
// Vec::swap_remove(i) takes exactly the element at i out of the list (the last one moves into its place)
pub proof fn lemma_swap_remove_multiset(s: Seq<usize>, i: int)
    requires 0 <= i < s.len(),
    ensures s.to_multiset() =~= s.update(i, s.last()).drop_last().to_multiset().insert(s[i]),
{
    broadcast use vstd::seq_lib::group_to_multiset_ensures;
    let n = s.len() as int;
    let t = s.update(i, s.last()).drop_last();
    assert(s.to_multiset().count(s[i]) > 0) by { assert(s.contains(s[i])); }
    assert(s.remove(i).to_multiset() =~= s.to_multiset().remove(s[i]));
    if i == n - 1 {
        assert(t =~= s.remove(i));
    } else {
        let a = s.subrange(0, i);
        let b = s.subrange(i + 1, n - 1);
        let l = seq![s.last()];
        assert(t =~= a + l + b);
        assert(s.remove(i) =~= a + b + l);
        vstd::seq_lib::lemma_multiset_commutative(a + l, b);
        vstd::seq_lib::lemma_multiset_commutative(a, l);
        vstd::seq_lib::lemma_multiset_commutative(a + b, l);
        vstd::seq_lib::lemma_multiset_commutative(a, b);
        assert(t.to_multiset() =~= s.remove(i).to_multiset());
    }
}
// no weight left: no weighted index left
pub proof fn lemma_wpos_empty(w: Seq<nat>, nn: nat, h: nat, size: nat)
    requires sub(w, nn, 0) == 0, is_layout(w.len(), nn, size, h), w.len() <= usize::MAX,
    ensures wpos(w, w.len()) =~= Multiset::<usize>::empty(),
{
    assert forall|x: usize| wpos(w, w.len()).count(x) == 0 by {
        lemma_wpos_count(w, w.len(), x);
        if x < w.len() { lemma_layout_k(w.len(), nn, size, h, x as nat); lemma_root_on_path(nn + x as nat); lemma_path_ge_leaf(w, nn, x as nat, 0); }
    }
}
// after WeightedShuffle::new every index 0..n is pending exactly once
pub proof fn lemma_build_pending(ws: Seq<Stake>, n: nat, k: usize)
    requires n <= ws.len(), ws.len() <= usize::MAX,
    ensures
        build(ws, n).0.len() == ws.len(),
        wpos(build(ws, n).0, ws.len()).count(k) + build(ws, n).2.to_multiset().count(k) == (if k < n { 1nat } else { 0nat }),
    decreases n
{
    let (w, sum, z) = build(ws, n);
    if n == 0 {
        lemma_wpos_count(w, ws.len(), k);
        assert(z.to_multiset() =~= Multiset::<usize>::empty()) by { broadcast use vstd::seq_lib::group_to_multiset_ensures; }
    } else {
        lemma_build_pending(ws, (n - 1) as nat, k);
        let (w1, sum1, z1) = build(ws, (n - 1) as nat);
        let x = ws[n - 1].0 as nat;
        lemma_wpos_count(w, ws.len(), k);
        lemma_wpos_count(w1, ws.len(), k);
        lemma_build_unset(ws, (n - 1) as nat, (n - 1) as nat);
        if x == 0 || sum1 + x > u64::MAX {
            assert(z == z1.push((n - 1) as usize));
            broadcast use vstd::seq_lib::group_to_multiset_ensures;
            assert(z.to_multiset() =~= z1.to_multiset().insert((n - 1) as usize));
        }
    }
}

// THEOREM (C16): a freshly built shuffle has every index 0..n pending exactly once.  With the contract of shuffle_step - an
// emitted index is taken off the pending ones, nothing else is, and the iterator ends only when nothing is pending - the
// sequence `WeightedShuffle::new(weights).shuffle(rng)` yields is a permutation of 0..n, whatever the generator returns.
pub proof fn theorem_fresh_shuffle_has_every_index_pending_once(ws: Seq<Stake>, k: usize)
    requires ws.len() <= 0x1_0000_0000,
    ensures pending(build(ws, ws.len()).0, build(ws, ws.len()).2).count(k) == (if k < ws.len() { 1nat } else { 0nat }),
{
    lemma_build_pending(ws, ws.len(), k);
}

pub mod code {
use super::*;

/*@ include units/common/std_specs.rs @*/

pub assume_specification [usize::div_ceil] (a: usize, b: usize) -> (r: usize)
    requires b > 0,
    ensures r as int == (a as int + b as int - 1) / (b as int);

impl Stake {
/*@ extract src/types/stake.rs :: impl Stake/fn checked_add
ret r
rewrite[R8] `self.0.checked_add(rhs.0).map(Self)` => `match self.0.checked_add(rhs.0) { Some(v) => Some(Self(v)), None => None }`
ensures
        self.0 + rhs.0 <= u64::MAX ==> r == Some(Stake((self.0 + rhs.0) as u64)),
        self.0 + rhs.0 > u64::MAX ==> r is None,
@*/
}

/*@ extract src/disseminator/turbine/weighted_shuffle.rs :: fn get_num_nodes_and_tree_size
props C16 C10
ret r
rewrite[R2] `(size + nodes, size + count.div_ceil(FANOUT))` => `let verif_r = (size + nodes, size + count.div_ceil(FANOUT)); verif_r`
requires
        count <= 0x1_0000_0000,
ensures
        exists|h: nat| is_layout(count as nat, r.0 as nat, r.1 as nat, h),
        r.1 <= r.0, r.0 <= 0x2_0000_0000,
after `let mut nodes: usize = 1;`
        let ghost mut h: nat = 0;
loop 0
        invariant
            nodes == pow16(h), size == s_of(h), count <= 0x1_0000_0000,
            h == 0 || nodes < count,
            nodes <= 0x1_0000_0000,
        decreases count - nodes
before `size += nodes;`
        proof { lemma_s_of(h); }
after `nodes *= FANOUT;`
        proof { h = h + 1; }
before `let verif_r`
        proof { lemma_s_le(h); }
before `verif_r#1`
        proof {
            lemma_s_of(h);
            lemma_s_le(h);
            assert(verif_r.1 as nat == s_of(h) + (count as nat + 15) / 16);
            assert(is_layout(count as nat, verif_r.0 as nat, verif_r.1 as nat, h));
        }
@*/

impl WeightedShuffle {
/*@ extract src/disseminator/turbine/weighted_shuffle.rs :: impl WeightedShuffle/fn new
props C16 C10
ret r
sig `new<I>(weights: I) -> Self where I: IntoIterator<Item: Borrow<Stake>>, <I as IntoIterator>::IntoIter: ExactSizeIterator,` => `new(weights: &Vec<Stake>) -> Self`
rewrite[R4] `let weights = weights.into_iter();` => `let weights = weights;`
rewrite[R8] `vec![[Stake::new(0); FANOUT]; size]` => `verif_zero_tree(size)`
rewrite[R8] `Vec::default()` => `Vec::<usize>::new()`
rewrite[R4] `for (k, weight) in weights.enumerate() {` => `let mut verif_k: usize = 0; while verif_k < weights.len() { let k = verif_k; let weight = &weights[verif_k]; verif_k += 1;`
rewrite[R8] `*weight.borrow()` => `*weight`
rewrite[R10] `unsafe { tree.get_unchecked_mut(index).get_unchecked_mut(offset) } .add_assign(weight);` => `verif_tree_add(&mut tree, index, offset, weight);`
rewrite[R2] `Self { num_nodes, tree, weight: sum, zeros, }` => `let verif_r = Self { num_nodes, tree, weight: sum, zeros, }; proof { assert(verif_r.inv(build(weights@, weights@.len()).0, h)); } verif_r`
requires
        weights@.len() <= 0x1_0000_0000,
ensures
        // [C16.sum_tree_holds_the_subtree_weights C10.sum_tree_holds_the_subtree_weights] the tree built holds, for every allocated
        // node, the total weight below each of its children (zero weights and weights that would overflow the total count as 0,
        // and are listed in `zeros`), `weight` is the total
        exists|h: nat| r.inv(build(weights@, weights@.len()).0, h),
        r.zeros@ == build(weights@, weights@.len()).2,
after `let (num_nodes, size) = get_num_nodes_and_tree_size(weights.len());`
        let ghost h = choose|h: nat| is_layout(weights@.len() as nat, num_nodes as nat, size as nat, h);
        let ghost nn = num_nodes as nat;
before `let mut verif_k: usize = 0;`
        proof {
            let w0 = build(weights@, 0).0;
            assert forall|i: int, j: int| 0 <= i < size && 0 <= j < 16 implies (#[trigger] tree@[i]@[j]).0 == sub(w0, nn, (16 * i + j + 1) as nat) by {
                lemma_sub_zero(w0, nn, (16 * i + j + 1) as nat);
            }
            lemma_sub_zero(w0, nn, 0);
        }
loop 0
        invariant
            verif_k <= weights@.len(), weights@.len() <= 0x1_0000_0000, nn == num_nodes,
            is_layout(weights@.len() as nat, num_nodes as nat, size as nat, h),
            tree@.len() == size, num_nodes <= 0x2_0000_0000, size <= num_nodes,
            sum.0 == build(weights@, verif_k as nat).1,
            zeros@ == build(weights@, verif_k as nat).2,
            build(weights@, verif_k as nat).0.len() == weights@.len(),
            forall|i: int, j: int| 0 <= i < size && 0 <= j < 16 ==> (#[trigger] tree@[i]@[j]).0 == sub(build(weights@, verif_k as nat).0, nn, (16 * i + j + 1) as nat),
            sum.0 == sub(build(weights@, verif_k as nat).0, nn, 0),
        decreases weights@.len() - verif_k
after `let weight = *weight;`
        let ghost w_old = build(weights@, k as nat).0;
before `sum = if let Some(val) = sum.checked_add(weight) {`
        let ghost sum0 = sum;
before `let mut index = num_nodes + k;`
        let ghost w_new = w_old.update(k as int, weight.0 as nat);
        proof { assert(build(weights@, verif_k as nat).0 == w_new); }
after `let mut index = num_nodes + k;`
        let ghost l = (num_nodes + k) as nat;
        proof {
            lemma_s_of(h); lemma_leaf_parent(weights@.len() as nat, nn, size as nat, h, k as nat);
            assert(on_path(l, l));
            assert(w_old[k as int] == 0) by { lemma_build_unset(weights@, k as nat, k as nat); }
        }
loop 1
        invariant
            tree@.len() == size, sum.0 == sum0.0 + weight.0, size <= num_nodes, nn == num_nodes,
            is_layout(weights@.len() as nat, num_nodes as nat, size as nat, h), k < weights@.len(), l == num_nodes + k,
            w_old.len() == weights@.len(), w_old[k as int] == 0, w_new == w_old.update(k as int, weight.0 as nat),
            sum0.0 == sub(w_old, nn, 0),
            on_path(index as nat, l),
            index == l || index < size,
            index <= 0x4_0000_0000,
            forall|i: int, j: int| 0 <= i < size && 0 <= j < 16 ==> (#[trigger] tree@[i]@[j]).0 ==
                sub(w_old, nn, (16 * i + j + 1) as nat) + (if on_path((16 * i + j + 1) as nat, l) && 16 * i + j + 1 > index { weight.0 as nat } else { 0 }),
        decreases index
before `let offset = (index - 1) & BIT_MASK;`
        proof {
            lemma_bits((index - 1) as usize);
            if index == l { lemma_leaf_parent(weights@.len() as nat, nn, size as nat, h, k as nat); }
            lemma_sub_update(w_old, nn, k as nat, weight.0 as nat, index as nat);
            lemma_parent_on_path(index as nat, l);
            lemma_sub_le_total(w_new, nn, index as nat);
            lemma_sub_update(w_old, nn, k as nat, weight.0 as nat, 0);
            assert(on_path(0, l)) by { lemma_root_on_path(l); }
        }
        let ghost idx0 = index;
after `verif_tree_add(&mut tree, index, offset, weight);`
        proof {
            assert(16 * index + offset + 1 == idx0);
            assert forall|i: int, j: int| 0 <= i < size && 0 <= j < 16 implies (#[trigger] tree@[i]@[j]).0 ==
                sub(w_old, nn, (16 * i + j + 1) as nat) + (if on_path((16 * i + j + 1) as nat, l) && 16 * i + j + 1 > index { weight.0 as nat } else { 0 }) by {
                let node = (16 * i + j + 1) as nat;
                if on_path(node, l) && node > index { lemma_path_gap(node, idx0 as nat, l); }
                if node == idx0 { assert(i == index && j == offset); }
            }
        }
blockafter `verif_tree_add(&mut tree, index, offset, weight);`
        proof {
            assert forall|i: int, j: int| 0 <= i < size && 0 <= j < 16 implies (#[trigger] tree@[i]@[j]).0 == sub(w_new, nn, (16 * i + j + 1) as nat) by {
                lemma_sub_update(w_old, nn, k as nat, weight.0 as nat, (16 * i + j + 1) as nat);
            }
            lemma_sub_update(w_old, nn, k as nat, weight.0 as nat, 0);
            lemma_root_on_path(l);
        }
@*/
}

impl WeightedShuffle {
/*@ extract src/disseminator/turbine/weighted_shuffle.rs :: impl WeightedShuffle/fn remove
props C16 C10
sig `weight: Stake)` => `weight: Stake, Ghost(w): Ghost<Seq<nat>>, Ghost(h): Ghost<nat>)`
rewrite[R10] `unsafe { self.tree.get_unchecked_mut(index).get_unchecked_mut(offset) } .sub_assign(weight);` => `verif_tree_sub(&mut self.tree, index, offset, weight);`
requires
        // ghost parameters w, h: the leaf weights the tree currently stands for and its height
        old(self).inv(w, h), k < w.len(), w[k as int] == weight.0,
ensures
        // [C16.removed_index_weighs_nothing_afterwards C10.sum_tree_holds_the_subtree_weights]
        final(self).inv(w.update(k as int, 0), h),
        final(self).zeros == old(self).zeros, final(self).num_nodes == old(self).num_nodes,
before `self.weight -= weight;`
        let ghost nn = self.num_nodes as nat;
        let ghost l = (self.num_nodes + k) as nat;
        let ghost w_new = w.update(k as int, 0);
        let ghost size = self.tree@.len();
        proof {
            lemma_layout_k(w.len(), nn, size, h, k as nat);
            lemma_root_on_path(l);
            lemma_path_ge_leaf(w, nn, k as nat, 0);
            lemma_sub_update(w, nn, k as nat, 0, 0);
            lemma_s_of(h); lemma_s_le(h);
        }
after `let mut index = self.num_nodes + k;`
        proof { assert(on_path(l, l)); lemma_leaf_parent(w.len(), nn, size, h, k as nat); }
loop 0
        invariant
            self.tree@.len() == size, nn == self.num_nodes, l == nn + k, k < w.len(), w[k as int] == weight.0,
            is_layout(w.len(), nn, size, h), k <= 15 * nn, nn >= 1, w.len() <= 0x1_0000_0000, self.num_nodes <= 0x2_0000_0000,
            self.zeros == old(self).zeros, self.num_nodes == old(self).num_nodes,
            self.weight.0 == sub(w_new, nn, 0), w_new == w.update(k as int, 0),
            on_path(index as nat, l),
            index == l || index < size,
            index <= 0x4_0000_0000,
            forall|i: int, j: int| 0 <= i < size && 0 <= j < 16 ==> (#[trigger] self.tree@[i]@[j]).0 + (if on_path((16 * i + j + 1) as nat, l) && 16 * i + j + 1 > index { weight.0 as nat } else { 0 })
                == sub(w, nn, (16 * i + j + 1) as nat),
        decreases index
before `let offset = (index - 1) & BIT_MASK;`
        proof {
            lemma_bits((index - 1) as usize);
            if index == l { lemma_leaf_parent(w.len(), nn, size, h, k as nat); }
            lemma_parent_on_path(index as nat, l);
            lemma_path_ge_leaf(w, nn, k as nat, index as nat);
        }
        let ghost idx0 = index;
before `verif_tree_sub(&mut self.tree, index, offset, weight);`
        proof { assert(16 * index + offset + 1 == idx0); }
after `verif_tree_sub(&mut self.tree, index, offset, weight);`
        proof {
            assert forall|i: int, j: int| 0 <= i < size && 0 <= j < 16 implies (#[trigger] self.tree@[i]@[j]).0 + (if on_path((16 * i + j + 1) as nat, l) && 16 * i + j + 1 > index { weight.0 as nat } else { 0 })
                == sub(w, nn, (16 * i + j + 1) as nat) by {
                let node = (16 * i + j + 1) as nat;
                if on_path(node, l) && node > index { lemma_path_gap(node, idx0 as nat, l); }
                if node == idx0 { assert(i == index && j == offset); }
            }
        }
blockafter `verif_tree_sub(&mut self.tree, index, offset, weight);`
        proof {
            assert forall|i: int, j: int| 0 <= i < size && 0 <= j < 16 implies (#[trigger] self.tree@[i]@[j]).0 == sub(w_new, nn, (16 * i + j + 1) as nat) by {
                lemma_sub_update(w, nn, k as nat, 0, (16 * i + j + 1) as nat);
            }
        }
@*/
}

// R10 (unsafe): `unsafe { self.tree.get_unchecked(index) }`: the row of an allocated node, index in bounds as a precondition
#[verifier::external_body]
pub fn verif_tree_row(tree: &Vec<[Stake; FANOUT]>, index: usize) -> (r: &[Stake; FANOUT])
    requires
        // [C10.unchecked_tree_access_is_in_bounds C16.unchecked_tree_access_is_in_bounds]
        index < tree@.len(),
    ensures *r == tree@[index as int]
{ unimplemented!() }

impl WeightedShuffle {
/*@ extract src/disseminator/turbine/weighted_shuffle.rs :: impl WeightedShuffle/fn search
props C16 C10
ret r
sig `mut val: Stake)` => `mut val: Stake, Ghost(w): Ghost<Seq<nat>>, Ghost(h): Ghost<nat>)`
rewrite[R4] `let (offset, &node) = unsafe { self.tree.get_unchecked(index) } .iter() .enumerate() .find(|&(_, &node)| { VANY }) .expect("search value should be less than total subtree weight");` => `let verif_row = verif_tree_row(&self.tree, index); let mut verif_j: usize = 0; let mut verif_hit: Option<(usize, Stake)> = None; while verif_j < FANOUT && verif_hit.is_none() { let node = verif_row[verif_j]; let verif_found: bool = { VANY }; if verif_found { verif_hit = Some((verif_j, node)); } verif_j += 1; } let (offset, node) = match verif_hit { Some(x) => x, None => vpanic() };`
requires
        self.inv(w, h),
        val.0 < self.weight.0,
ensures
        // [C16.sampled_index_is_a_weighted_entry C10.sampled_index_is_in_range] the index found is one of the entries and carries the
        // weight returned with it, which is not zero
        r.0 < w.len(), w[r.0 as int] == r.1.0, r.1.0 > 0,
before `let mut index = 0;`
        let ghost nn = self.num_nodes as nat;
        let ghost size = self.tree@.len();
        proof {
            lemma_layout_room(w.len(), nn, size, h);
            // a positive total needs a leaf
            if w.len() == 0 { lemma_sub_zero(w, nn, 0); }
        }
loop 0
        invariant
            self.inv(w, h), nn == self.num_nodes, size == self.tree@.len(), size >= 1, size <= nn, w.len() + nn <= 16 * size + 1,
            index < size,
            val.0 < sub(w, nn, index as nat),
        decreases size - index
before `let verif_row = verif_tree_row(&self.tree, index);`
        let ghost val0 = val;
        let ghost idx = index;
loop 1
        invariant
            verif_j <= 16, idx == index, index < size, size == self.tree@.len(), size <= nn, nn == self.num_nodes, self.inv(w, h),
            *verif_row == self.tree@[index as int],
            val0.0 < sub16(w, nn, index as nat, 16),
            verif_hit is None ==> val.0 + sub16(w, nn, index as nat, verif_j as nat) == val0.0,
            verif_hit matches Some(x) ==> x.0 < 16 && x.1.0 == sub(w, nn, (16 * index + x.0 + 1) as nat) && val.0 < x.1.0,
        decreases 16 - verif_j + (if verif_hit is None { 1int } else { 0int })
after `let node = verif_row[verif_j];`
        proof { lemma_sub16_step(w, nn, index as nat, verif_j as nat); assert(node.0 == sub(w, nn, (16 * index + verif_j + 1) as nat)); }
before `let (offset, node) = match verif_hit {`
        proof { if verif_hit is None { assert(verif_j == 16); } }
before `index = (index << BIT_SHIFT) + offset + 1;`
        proof { lemma_shl(index); }
before `return (index - self.num_nodes, node);`
        proof {
            if index < nn { lemma_sub_unallocated(w, nn, size, index as nat); }
        }
@*/
}

// The random generator as far as the shuffle uses it (rand::Rng): two range samplers.  TRUSTED: the sample lies in the range.
#[verifier::external_body] pub struct VRng { _p: () }
impl VRng {
    // `rng.random_range(0..bound)` (R8)
    #[verifier::external_body]
    pub fn verif_random_below(&mut self, bound: u64) -> (r: u64)
        requires bound > 0
        ensures r < bound
    { unimplemented!() }
}
// `<usize as SampleUniform>::Sampler::sample_single(0usize, len, rng).expect(..)` (R8): fails only for an empty range
#[verifier::external_body]
pub fn verif_sample_index(len: usize, rng: &mut VRng) -> (r: usize)
    requires len > 0
    ensures r < len
{ unimplemented!() }

impl WeightedShuffle {
// The closure handed to std::iter::from_fn in WeightedShuffle::shuffle, as a function: one call = one `next()` of the iterator.
/*@ extract-stmts src/disseminator/turbine/weighted_shuffle.rs :: impl WeightedShuffle/fn shuffle
props C16 C10
from `if self.weight > Stake::new(0) {`
to `Some(self.zeros.VANY(index))`
wrap fn shuffle_step(&mut self, rng: &mut VRng, Ghost(w): Ghost<Seq<nat>>, Ghost(h): Ghost<nat>) -> (r: (Option<usize>, Ghost<Seq<nat>>))
rewrite[R8] `rng.random_range(0..self.weight.inner())` => `rng.verif_random_below(self.weight.inner())`
rewrite[ghost-param] `self.search(sample)` => `self.search(sample, Ghost(w), Ghost(h))`
rewrite[ghost-param] `self.remove(index, weight);` => `self.remove(index, weight, Ghost(w), Ghost(h));`
rewrite[R8] `<usize as SampleUniform>::Sampler::sample_single(0usize, self.zeros.len(), rng) .expect("sampling from a non-empty range should succeed")` => `verif_sample_index(self.zeros.len(), rng)`
rewrite[ghost-result] `return Some(index);` => `return (Some(index), Ghost(w.update(index as int, 0)));`
rewrite[ghost-result] `return None;` => `return (None, Ghost(w));`
rewrite[ghost-result] `Some(self.zeros.VANY(index))` => `(Some(self.zeros.VANY(index)), Ghost(w))`
requires
        old(self).inv(w, h),
ensures
        // (second component: the leaf weights the tree stands for afterwards - ghost)
        final(self).inv(r.1@, h),
        // [C16.every_index_is_emitted_exactly_once C10.sampled_index_is_in_range] an emitted index was pending and is taken off the
        // pending ones - nothing else is; the iterator ends only when nothing is pending
        r.0 matches Some(k) ==> pending(w, old(self).zeros@) =~= pending(r.1@, final(self).zeros@).insert(k),
        r.0 is None ==> pending(w, old(self).zeros@) =~= Multiset::<usize>::empty() && r.1@ == w && final(self).zeros@ == old(self).zeros@,
before `if self.weight > Stake::new(0) {`
        let ghost pre = *old(self);
before `self.remove(index, weight, Ghost(w), Ghost(h));`
        proof { lemma_wpos_remove(w, index); }
before `if self.zeros.is_empty() {`
        proof {
            lemma_wpos_empty(w, self.num_nodes as nat, h, self.tree@.len() as nat);
            broadcast use vstd::seq_lib::group_to_multiset_ensures;
        }
before `(Some(self.zeros.VANY(index)), Ghost(w))`
        let ghost z0 = self.zeros@;
        proof { lemma_swap_remove_multiset(z0, index as int); }
@*/
}

impl WeightedShuffle {
// Canaries: the real bodies under false contracts; each MUST fail.
/*@ extract src/disseminator/turbine/weighted_shuffle.rs :: impl WeightedShuffle/fn search
as canary_search
expect-fail
ret r
sig `mut val: Stake)` => `mut val: Stake, Ghost(w): Ghost<Seq<nat>>, Ghost(h): Ghost<nat>)`
rewrite[R4] `let (offset, &node) = unsafe { self.tree.get_unchecked(index) } .iter() .enumerate() .find(|&(_, &node)| { VANY }) .expect("search value should be less than total subtree weight");` => `let verif_row = verif_tree_row(&self.tree, index); let mut verif_j: usize = 0; let mut verif_hit: Option<(usize, Stake)> = None; while verif_j < FANOUT && verif_hit.is_none() { let node = verif_row[verif_j]; let verif_found: bool = { VANY }; if verif_found { verif_hit = Some((verif_j, node)); } verif_j += 1; } let (offset, node) = match verif_hit { Some(x) => x, None => vpanic() };`
requires
        self.inv(w, h),
ensures
        r.0 < w.len(),
loop 0
        invariant true,
        decreases 0int
loop 1
        invariant true,
        decreases 0int
@*/
}

} // mod code

} // verus!

fn main() {}
