// Unit `sampler`: the integer-only stake partition of PartitionSampler::new and the seat counting of the
// quorum samplers (src/disseminator/rotor/sampling_strategy.rs).  Serves C17 (partial).
use vstd::prelude::*;

verus! {

/*@ include units/common/base_types.rs @*/
/*@ include units/common/sums.rs @*/

// the parts of ValidatorInfo read here
pub struct ValidatorInfo { pub id: ValidatorIndex, pub stake: Stake }

impl vstd::std_specs::ops::SubAssignSpecImpl<Stake> for Stake {
    open spec fn obeys_sub_assign_spec() -> bool { true }
    open spec fn sub_assign_req(&self, rhs: Stake) -> bool { self.0 >= rhs.0 }
    open spec fn sub_assign_spec(&self, rhs: Stake) -> &Stake { &Stake((self.0 - rhs.0) as u64) }
}
/*@ extract src/types/stake.rs :: impl SubAssign for Stake
rewrite[use-path] `impl SubAssign for Stake` => `impl std::ops::SubAssign for Stake`
@*/

// rand::distr::weighted::WeightedIndex<u64>: construction succeeds exactly for a non-empty list of weights with a positive sum
// that does not overflow (documented behaviour of WeightedIndex::new); sampling returns an index into that list.  TRUSTED.
#[verifier::external_body] pub struct WeightedIndex { _p: () }
impl WeightedIndex {
    pub uninterp spec fn spec_len(&self) -> nat;
}
#[verifier::external_body]
pub fn verif_weighted_index(stakes: &Vec<Stake>) -> (r: WeightedIndex)      // WeightedIndex::new(stakes.iter().map(|s| s.inner())).expect(..)
    requires
        // [C17.every_bin_can_be_sampled] the `expect` is a proof obligation
        nonempty_pos(stakes@),
    ensures r.spec_len() == stakes@.len()
{ unimplemented!() }

pub struct PartitionSampler {
    pub bins: Vec<WeightedIndex>,
    pub bin_validators: Vec<Vec<ValidatorIndex>>,
    pub bin_stakes: Vec<Vec<Stake>>,
}
impl PartitionSampler {
    // what `new` establishes: one weighted index per bin over exactly that bin's validator list, all of them members of the set
    pub open spec fn wf(&self, vals: Seq<ValidatorInfo>) -> bool {
        &&& self.bins@.len() == self.bin_validators@.len() && self.bin_stakes@.len() == self.bins@.len()
        &&& forall|b: int| 0 <= b < self.bins@.len() ==> (#[trigger] self.bins@[b]).spec_len() == self.bin_validators@[b]@.len()
        &&& forall|b: int, k: int| 0 <= b < self.bin_validators@.len() && 0 <= k < self.bin_validators@[b]@.len() ==> is_member(vals, #[trigger] self.bin_validators@[b]@[k])
    }
}
// rand's Distribution::sample for WeightedIndex: an index into the weight list.  TRUSTED; the generator is opaque.
#[verifier::external_body] pub struct AnyRng { _p: () }
impl WeightedIndex {
    #[verifier::external_body]
    pub fn sample(&self, rng: &mut AnyRng) -> (r: usize) ensures r < self.spec_len() { unimplemented!() }
}

// struct FaitAccompli1Sampler<F> with the partition fallback (the other fallback differs only in the type of `fallback_sampler`)
pub struct FaitAccompli1Sampler {
    pub required_samples: Vec<ValidatorIndex>,
    pub fallback_sampler: PartitionSampler,
    pub k: usize,
}

pub open spec fn is_member(vals: Seq<ValidatorInfo>, id: ValidatorIndex) -> bool { exists|i: int| 0 <= i < vals.len() && #[trigger] vals[i].id == id }
pub open spec fn nonempty_pos(v: Seq<Stake>) -> bool { v.len() > 0 && exists|i: int| 0 <= i < v.len() && #[trigger] v[i].0 > 0 }
pub open spec fn spec_stakes(vals: Seq<ValidatorInfo>) -> Seq<int> { Seq::new(vals.len(), |i: int| vals[i].stake.0 as int) }
pub open spec fn total_of(vals: Seq<ValidatorInfo>) -> int { sum_where(spec_stakes(vals), vals.len() as int, all_true()) }

// R8 wrappers
#[verifier::external_body]
pub fn verif_vec_of_empty<T>(n: usize) -> (r: Vec<Vec<T>>)         // vec![Vec::new(); n]
    ensures r@.len() == n, forall|i: int| 0 <= i < n ==> (#[trigger] r@[i])@.len() == 0
{ unimplemented!() }
#[verifier::external_body]
pub fn verif_total_stake(vals: &Vec<ValidatorInfo>) -> (r: Stake)  // validators.iter().map(|v| v.stake).sum()
    requires total_of(vals@) <= u64::MAX        // the sum of all stakes fits (EpochInfo computes the same sum)
    ensures r.0 == total_of(vals@)
{ unimplemented!() }
// Random generators as far as the partition cares: is the stream a function of the program's inputs (a generator seeded
// from a value) or not (the thread-local generator)?  `rand::rng()` and `StdRng::seed_from_u64` resolve to these stand-ins.
#[verifier::external_body] pub struct VRng { _p: () }
impl VRng {
    pub uninterp spec fn deterministic(&self) -> bool;
}
pub mod rand {
    // rand::rng(): the thread-local generator - a different stream on every node and every run (nothing is ensured)
    #[verifier::external_body]
    pub fn rng() -> (r: super::VRng) { unimplemented!() }
}
pub struct StdRng;
impl StdRng {
    // SeedableRng::seed_from_u64: the stream is a function of the seed
    #[verifier::external_body]
    pub fn seed_from_u64(seed: u64) -> (r: VRng) ensures r.deterministic() { unimplemented!() }
}
// `v.shuffle(&mut rng)` (R8): some permutation of the list, chosen by the generator
#[verifier::external_body]
pub fn verif_shuffle(v: &mut Vec<ValidatorInfo>, rng: &mut VRng)
    requires
        // [C16.partition_is_a_function_of_the_validator_set C17.partition_is_a_function_of_the_validator_set] every node must derive
        // the same partition (hence the same relay committees) from the same validator set: the permutation may be
        // pseudo-random but not drawn from a generator that differs between nodes (finding F18, formerly observation F9)
        old(rng).deterministic(),
    ensures
        final(v)@.to_multiset() == old(v)@.to_multiset(), final(v)@.len() == old(v)@.len(),
        // consequences of being a permutation that are used below
        total_of(final(v)@) == total_of(old(v)@),
        forall|id: ValidatorIndex| #[trigger] is_member(final(v)@, id) <==> is_member(old(v)@, id),
        (forall|i: int| 0 <= i < old(v)@.len() ==> (#[trigger] old(v)@[i]).stake.0 > 0) ==> (forall|i: int| 0 <= i < final(v)@.len() ==> (#[trigger] final(v)@[i]).stake.0 > 0),
{ unimplemented!() }
#[verifier::external_body]
pub fn verif_push_at<T>(v: &mut Vec<Vec<T>>, i: usize, x: T)        // v[i].push(x)
    requires i < old(v)@.len()
    ensures
        final(v)@.len() == old(v)@.len(),
        final(v)@[i as int]@ == old(v)@[i as int]@.push(x),
        forall|k: int| 0 <= k < old(v)@.len() && k != i ==> #[trigger] final(v)@[k] == old(v)@[k],
{ unimplemented!() }
#[verifier::external_body]
pub fn verif_stake_min(a: Stake, b: Stake) -> (r: Stake)            // a.min(b) (derived Ord on the newtype)
    ensures r.0 == (if a.0 <= b.0 { a.0 } else { b.0 })
{ unimplemented!() }
pub assume_specification[ u64::div_ceil ](a: u64, b: u64) -> (r: u64)
    requires b > 0
    ensures r as int == (if a % b == 0 { (a / b) as int } else { (a / b) as int + 1 });

pub proof fn lemma_partial_le_total(stakes: Seq<int>, i: int)
    requires forall|k: int| 0 <= k < stakes.len() ==> stakes[k] >= 0, 0 <= i <= stakes.len(),
    ensures sum_where(stakes, i, all_true()) <= sum_where(stakes, stakes.len() as int, all_true())
    decreases stakes.len() - i
{
    if i < stakes.len() { lemma_partial_le_total(stakes, i + 1); }
}

// the stake bin b holds (finding F10): the first r bins one unit more than the others
pub open spec fn cap(q: int, r: int, b: int) -> int { if b < r { q + 1 } else { q } }
// the stake the bins before b hold together
pub open spec fn capsum(q: int, r: int, b: int) -> int { b * q + (if b < r { b } else { r }) }
pub proof fn lemma_capsum_all(q: int, r: int, n: int)
    requires 0 <= r < n,
    ensures capsum(q, r, n) == n * q + r, capsum(q, r, n - 1) + cap(q, r, n - 1) == n * q + r,
{
    assert((n - 1) * q + q == n * q) by (nonlinear_arith) {}
}
pub proof fn lemma_capsum_step(q: int, r: int, b: int)
    requires b >= 0, r >= 0,
    ensures capsum(q, r, b + 1) == capsum(q, r, b) + cap(q, r, b),
{
    assert((b + 1) * q == b * q + q) by (nonlinear_arith) {}
}
pub proof fn lemma_capsum_mono(q: int, r: int, a: int, b: int)
    requires 0 <= a <= b, q >= 1, r >= 0,
    ensures capsum(q, r, a) + (b - a) <= capsum(q, r, b),
{
    assert(b * q >= a * q + (b - a)) by (nonlinear_arith) requires a <= b, q >= 1 {}
}

// ---------------------------------------------------------------- FA1 seat arithmetic (all PROVED)
// a validator with stake s of total t gets floor(s*k/t) seats for sure; its stake minus what those seats account for stays
pub open spec fn seats_of(s: int, t: int, k: int) -> int { if t > 0 { (s * k) / t } else { 0 } }
pub open spec fn residual_of(s: int, t: int, k: int) -> int { s - (seats_of(s, t, k) * t) / k }
pub open spec fn rem_of(s: int, t: int, k: int) -> int { (s * k) % t }
pub open spec fn psum(f: spec_fn(int) -> int, n: int) -> int
    decreases n
{
    if n <= 0 { 0 } else { psum(f, n - 1) + f(n - 1) }
}
pub open spec fn f_stake(st: Seq<int>) -> spec_fn(int) -> int { |i: int| st[i] }
pub open spec fn f_seats(st: Seq<int>, t: int, k: int) -> spec_fn(int) -> int { |i: int| seats_of(st[i], t, k) }
pub open spec fn f_rem(st: Seq<int>, t: int, k: int) -> spec_fn(int) -> int { |i: int| rem_of(st[i], t, k) }
pub open spec fn f_res(st: Seq<int>, t: int, k: int) -> spec_fn(int) -> int { |i: int| residual_of(st[i], t, k) }
pub open spec fn f_pos(st: Seq<int>, t: int, k: int) -> spec_fn(int) -> int { |i: int| if rem_of(st[i], t, k) > 0 { 1int } else { 0int } }

// one validator: s*k = m*t + a with 0 <= a < t; the residual is not negative, and positive when a is
pub proof fn lemma_fa1_elem(s: int, t: int, k: int)
    requires 0 <= s <= t, t > 0, k > 0,
    ensures
        s * k == seats_of(s, t, k) * t + rem_of(s, t, k), 0 <= rem_of(s, t, k) < t,
        0 <= seats_of(s, t, k) <= k,
        0 <= residual_of(s, t, k) <= s,
        rem_of(s, t, k) > 0 ==> residual_of(s, t, k) >= 1,
        rem_of(s, t, k) == 0 ==> residual_of(s, t, k) == 0,
{
    let m = (s * k) / t;
    let a = (s * k) % t;
    assert(s * k >= 0) by (nonlinear_arith) requires s >= 0, k > 0 {}
    assert(s * k == m * t + a && 0 <= a < t) by (nonlinear_arith) requires m == (s * k) / t, a == (s * k) % t, t > 0 {}
    assert(m >= 0) by (nonlinear_arith) requires s * k >= 0, t > 0, m == (s * k) / t {}
    assert(m <= k) by (nonlinear_arith) requires m * t + a == s * k, a >= 0, s <= t, t > 0, k > 0, m >= 0 {}
    let q = (m * t) / k;
    assert(m * t >= 0) by (nonlinear_arith) requires m >= 0, t > 0 {}
    assert(q * k <= m * t && m * t < q * k + k && q >= 0) by (nonlinear_arith) requires q == (m * t) / k, k > 0, m * t >= 0 {}
    // q*k <= m*t <= s*k  ==>  q <= s
    assert(q <= s) by (nonlinear_arith) requires q * k <= m * t, m * t + a == s * k, a >= 0, k > 0 {}
    if a > 0 {
        // m*t < s*k  ==>  q*k < s*k  ==>  q < s
        assert(q < s) by (nonlinear_arith) requires q * k <= m * t, m * t + a == s * k, a > 0, k > 0 {}
    } else {
        // m*t == s*k  ==>  q == s
        assert(q >= s) by (nonlinear_arith) requires m * t < q * k + k, m * t == s * k, k > 0 {}
    }
}
// sums over the first n validators (each stake within 0..=t): t * seats + remainders == k * stakes; every positive remainder
// leaves a unit of residual stake; remainders are below t each
pub proof fn lemma_fa1_sums(st: Seq<int>, t: int, k: int, n: int)
    requires 0 <= n <= st.len(), t > 0, k > 0, forall|i: int| 0 <= i < st.len() ==> 0 <= #[trigger] st[i] <= t,
    ensures
        t * psum(f_seats(st, t, k), n) + psum(f_rem(st, t, k), n) == k * psum(f_stake(st), n),
        psum(f_res(st, t, k), n) >= psum(f_pos(st, t, k), n) >= 0,
        psum(f_rem(st, t, k), n) <= (t - 1) * psum(f_pos(st, t, k), n),
        psum(f_rem(st, t, k), n) >= 0, psum(f_seats(st, t, k), n) >= 0, psum(f_res(st, t, k), n) >= 0,
        psum(f_res(st, t, k), n) <= psum(f_stake(st), n),
    decreases n
{
    if n > 0 {
        lemma_fa1_sums(st, t, k, n - 1);
        lemma_fa1_elem(st[n - 1], t, k);
        let m = seats_of(st[n - 1], t, k); let a = rem_of(st[n - 1], t, k); let sm = psum(f_seats(st, t, k), n - 1);
        let sp = psum(f_pos(st, t, k), n - 1);
        assert(t * (sm + m) == t * sm + m * t) by (nonlinear_arith) {}
        assert(k * (psum(f_stake(st), n - 1) + st[n - 1]) == k * psum(f_stake(st), n - 1) + st[n - 1] * k) by (nonlinear_arith) {}
        assert((t - 1) * (sp + 1) == (t - 1) * sp + (t - 1)) by (nonlinear_arith) {}
    }
}
// when all the stake is in (stakes sum to t): the seats fit the committee, and the residual stake is at least the number of
// seats left (so the partition fallback can give every remaining seat a bin); no residual stake at all means no seat is left
pub proof fn lemma_fa1_total(st: Seq<int>, t: int, k: int)
    requires t > 0, k > 0, forall|i: int| 0 <= i < st.len() ==> 0 <= #[trigger] st[i] <= t, psum(f_stake(st), st.len() as int) == t,
    ensures
        0 <= psum(f_seats(st, t, k), st.len() as int) <= k,
        psum(f_res(st, t, k), st.len() as int) >= k - psum(f_seats(st, t, k), st.len() as int),
        psum(f_res(st, t, k), st.len() as int) == 0 ==> psum(f_seats(st, t, k), st.len() as int) == k,
{
    let n = st.len() as int;
    lemma_fa1_sums(st, t, k, n);
    let mm = psum(f_seats(st, t, k), n); let aa = psum(f_rem(st, t, k), n); let cc = psum(f_pos(st, t, k), n); let rr = psum(f_res(st, t, k), n);
    let kp = k - mm;
    assert(aa == t * kp) by (nonlinear_arith) requires t * mm + aa == k * t, kp == k - mm {}
    assert(kp >= 0) by (nonlinear_arith) requires aa == t * kp, aa >= 0, t > 0 {}
    if rr < kp {
        // t*kp = aa <= (t-1)*cc <= (t-1)*rr <= (t-1)*(kp-1) < t*kp
        assert(false) by (nonlinear_arith) requires aa == t * kp, aa <= (t - 1) * cc, 0 <= cc <= rr, rr <= kp - 1, t >= 1, kp >= 1 {}
    }
    if rr == 0 {
        assert(kp == 0) by (nonlinear_arith) requires aa == t * kp, aa <= (t - 1) * cc, cc <= rr, rr == 0, cc >= 0, t >= 1, kp >= 0 {}
    }
}
// the deterministic seats, in validator order: seats_of(stake_i) copies of validator i's id
pub open spec fn req_seq(vals: Seq<ValidatorInfo>, t: int, k: int, n: int) -> Seq<ValidatorIndex>
    decreases n
{
    if n <= 0 { Seq::empty() } else { req_seq(vals, t, k, n - 1) + Seq::new(seats_of(vals[n - 1].stake.0 as int, t, k) as nat, |j: int| vals[n - 1].id) }
}
pub proof fn lemma_req_seq_len(vals: Seq<ValidatorInfo>, t: int, k: int, n: int)
    requires 0 <= n <= vals.len(), t > 0, k > 0, forall|i: int| 0 <= i < vals.len() ==> (#[trigger] vals[i]).stake.0 <= t,
    ensures req_seq(vals, t, k, n).len() == psum(f_seats(spec_stakes(vals), t, k), n),
    decreases n
{
    if n > 0 {
        lemma_req_seq_len(vals, t, k, n - 1);
        lemma_fa1_elem(vals[n - 1].stake.0 as int, t, k);
    }
}
pub proof fn lemma_psum_is_sum_where(st: Seq<int>, n: int)
    requires 0 <= n <= st.len(),
    ensures psum(f_stake(st), n) == sum_where(st, n, all_true()),
    decreases n
{
    if n > 0 { lemma_psum_is_sum_where(st, n - 1); }
}

// the truncated validator list FA1 hands to its fallback: same ids, residual stakes; its total is the sum of the residuals
pub proof fn lemma_residual_total(vals: Seq<ValidatorInfo>, trunc: Seq<ValidatorInfo>, t: int, k: int)
    requires
        trunc.len() == vals.len(), t > 0, k > 0,
        forall|i: int| 0 <= i < vals.len() ==> 0 <= (#[trigger] spec_stakes(vals)[i]) <= t,
        forall|j: int| 0 <= j < vals.len() ==> (#[trigger] trunc[j]).id == vals[j].id,
        forall|j: int| 0 <= j < vals.len() ==> (#[trigger] trunc[j]).stake.0 == residual_of(spec_stakes(vals)[j], t, k),
    ensures
        total_of(trunc) == psum(f_res(spec_stakes(vals), t, k), vals.len() as int),
        forall|id: ValidatorIndex| #[trigger] is_member(trunc, id) ==> is_member(vals, id),
        (forall|i: int| 0 <= i < trunc.len() ==> (#[trigger] trunc[i]).stake.0 == 0) ==> total_of(trunc) == 0,
{
    lemma_residual_prefix(vals, trunc, t, k, vals.len() as int);
    assert forall|id: ValidatorIndex| #[trigger] is_member(trunc, id) implies is_member(vals, id) by {
        let i = choose|i: int| 0 <= i < trunc.len() && #[trigger] trunc[i].id == id;
        assert(vals[i].id == id);
    }
    if forall|i: int| 0 <= i < trunc.len() ==> (#[trigger] trunc[i]).stake.0 == 0 {
        lemma_sum_zero(spec_stakes(trunc), trunc.len() as int);
    }
}
pub proof fn lemma_residual_prefix(vals: Seq<ValidatorInfo>, trunc: Seq<ValidatorInfo>, t: int, k: int, n: int)
    requires
        trunc.len() == vals.len(), 0 <= n <= vals.len(),
        forall|j: int| 0 <= j < vals.len() ==> (#[trigger] trunc[j]).stake.0 == residual_of(spec_stakes(vals)[j], t, k),
    ensures sum_where(spec_stakes(trunc), n, all_true()) == psum(f_res(spec_stakes(vals), t, k), n),
    decreases n
{
    if n > 0 { lemma_residual_prefix(vals, trunc, t, k, n - 1); }
}
pub proof fn lemma_sum_zero(st: Seq<int>, n: int)
    requires 0 <= n <= st.len(), forall|i: int| 0 <= i < st.len() ==> #[trigger] st[i] == 0,
    ensures sum_where(st, n, all_true()) == 0,
    decreases n
{
    if n > 0 { lemma_sum_zero(st, n - 1); }
}

pub mod code {
use super::*;

impl Stake {
/*@ extract src/types/stake.rs :: impl Stake/fn div_ceil
ret r
requires
        divisor > 0,
ensures
        r.0 as int == (if self.0 % divisor == 0 { (self.0 / divisor) as int } else { (self.0 / divisor) as int + 1 }),
@*/
}


// ---------------------------------------------------------------- FA1: the deterministic seats (finding F28)
/*@ extract src/disseminator/rotor/sampling_strategy.rs :: fn guaranteed_seats
props C17
ret r
requires
        stake.0 <= total_stake.0,
ensures
        // [C17.guaranteed_seats_are_the_exact_floor] floor(f * k) for the stake fraction f = stake / total, computed exactly
        total_stake.0 > 0 ==> r as int == (stake.0 as int * k as int) / (total_stake.0 as int),
        total_stake.0 == 0 ==> r == 0,
        r <= k,
before `(u128::from(`
        proof {
            let s = stake.0 as int; let t = total_stake.0 as int; let kk = k as int;
            assert(s * kk <= t * kk) by (nonlinear_arith) requires s <= t, kk >= 0 {}
            assert(s * kk <= 0xFFFF_FFFF_FFFF_FFFF * 0xFFFF_FFFF_FFFF_FFFF) by (nonlinear_arith) requires 0 <= s <= 0xFFFF_FFFF_FFFF_FFFF, 0 <= kk <= 0xFFFF_FFFF_FFFF_FFFF {}
            assert((s * kk) / t <= kk) by (nonlinear_arith) requires s * kk <= t * kk, t > 0, kk >= 0, s >= 0 {}
            assert((s * kk) / t >= 0) by (nonlinear_arith) requires t > 0, kk >= 0, s >= 0 {}
        }
@*/

/*@ extract src/disseminator/rotor/sampling_strategy.rs :: fn stake_of_seats
props C17
ret r
requires
        k > 0, seats <= k,
ensures
        // [C17.seats_account_for_the_floor_of_their_stake] (so that taking it off the validator's stake never underflows, see the constructor)
        r.0 as int == (seats as int * total_stake.0 as int) / (k as int),
before `Stake::new(`
        proof {
            let m = seats as int; let t = total_stake.0 as int; let kk = k as int;
            assert(m * t <= kk * t) by (nonlinear_arith) requires m <= kk, t >= 0 {}
            assert(m * t <= 0xFFFF_FFFF_FFFF_FFFF * 0xFFFF_FFFF_FFFF_FFFF) by (nonlinear_arith) requires 0 <= m <= 0xFFFF_FFFF_FFFF_FFFF, 0 <= t <= 0xFFFF_FFFF_FFFF_FFFF {}
            assert((m * t) / kk <= t) by (nonlinear_arith) requires m * t <= kk * t, kk > 0, t >= 0, m >= 0 {}
            assert((m * t) / kk >= 0) by (nonlinear_arith) requires kk > 0, t >= 0, m >= 0 {}
        }
@*/

impl PartitionSampler {
/*@ extract src/disseminator/rotor/sampling_strategy.rs :: impl PartitionSampler/fn new
props C17 C16
ret r
rewrite*[R8] `vec![Vec::new(); num_bins]` => `verif_vec_of_empty(num_bins)`
rewrite[R8] `validators.iter().map(|v| v.stake).sum()` => `verif_total_stake(&validators)`
rewrite[R8] `validators_random.shuffle(&mut VANY);` => `verif_shuffle(&mut validators_random, &mut VANY);`
rewrite[R4] `for v in validators_random {` => `let mut verif_i: usize = 0; while verif_i < validators_random.len() { let v = &validators_random[verif_i]; verif_i += 1;`
rewrite[R8] `bin_validators[current_bin].push(v.id);` => `verif_push_at(&mut bin_validators, current_bin, v.id);`
rewrite[R8] `stake.min(stake_per_bin - current_bin_stake)` => `verif_stake_min(stake, stake_per_bin - current_bin_stake)`
rewrite[R8] `bin_stakes[current_bin].push(stake_to_take);` => `verif_push_at(&mut bin_stakes, current_bin, stake_to_take);`
rewrite[R4] `for stakes in &bin_stakes {` => `let mut verif_b: usize = 0; while verif_b < bin_stakes.len() { let stakes = &bin_stakes[verif_b]; verif_b += 1;`
rewrite[R8] `WeightedIndex::new(stakes.iter().map(|s| s.inner())) .expect("validator stakes should be non-empty and positive")` => `verif_weighted_index(stakes)`
rewrite[R10] `let mut current_bin = 0;` => `let mut current_bin: usize = 0;`
rewrite[R10] `let mut bins = Vec::with_capacity(num_bins);` => `let mut bins: Vec<WeightedIndex> = Vec::with_capacity(num_bins);`
requires
        // every validator set whose total fits the stake type (a validator without stake - FA1 hands over residual stakes, some of
        // them 0 - simply gets no share) ...
        total_of(validators@) <= u64::MAX,
        // ... and gives every bin at least one unit of stake (the documented panic otherwise; FA1 hands over a residual total
        // of at least one unit per remaining seat, see new_with_partition_fallback)
        num_bins > 0 ==> total_of(validators@) >= num_bins,
ensures
        // [C17.one_sampling_bin_per_seat]
        r.bins@.len() == num_bins && r.bin_validators@.len() == num_bins && r.bin_stakes@.len() == num_bins,
        // [C17.bins_hold_only_members_and_match_their_weights]
        r.wf(validators@),
before `let mut current_bin: usize = 0;`
        let ghost vals = validators_random@;
        let ghost stakes = spec_stakes(vals);
        let ghost tt = total_stake.0 as int;
        let ghost q = small_bin as int;
        let ghost rr = num_large_bins as int;
        let ghost nn = num_bins as int;
        proof {
            assert(nn * q + rr == tt && 0 <= rr < nn && q >= 1) by (nonlinear_arith)
                requires nn > 0, tt >= nn, q == tt / nn, rr == tt % nn {}
            assert forall|k: int| 0 <= k < stakes.len() implies stakes[k] >= 0 by {}
        }
loop 0
        invariant
            vals == validators_random@ && stakes == spec_stakes(vals) && tt == total_of(vals) && q == small_bin && rr == num_large_bins && nn == num_bins && nn > 0,
            nn * q + rr == tt && 0 <= rr < nn && q >= 1 && tt <= u64::MAX,
            forall|k: int| 0 <= k < stakes.len() ==> stakes[k] >= 0,
            verif_i <= vals.len(),
            current_bin < num_bins && bin_validators@.len() == num_bins && bin_stakes@.len() == num_bins,
            current_bin_stake.0 <= cap(q, rr, current_bin as int),
            capsum(q, rr, current_bin as int) + current_bin_stake.0 == sum_where(stakes, verif_i as int, all_true()),
            current_bin_stake.0 == cap(q, rr, current_bin as int) ==> current_bin == num_bins - 1,
            forall|b: int| 0 <= b < num_bins ==> (#[trigger] bin_validators@[b])@.len() == bin_stakes@[b]@.len(),
            forall|b: int, k: int| 0 <= b < num_bins && 0 <= k < bin_validators@[b]@.len() ==> is_member(vals, #[trigger] bin_validators@[b]@[k]),
            // bins before the current one have been filled
            forall|b: int| 0 <= b < current_bin ==> nonempty_pos((#[trigger] bin_stakes@[b])@),
            current_bin_stake.0 > 0 ==> nonempty_pos(bin_stakes@[current_bin as int]@),
        decreases vals.len() - verif_i,
loop 1
        invariant
            vals == validators_random@ && stakes == spec_stakes(vals) && tt == total_of(vals) && q == small_bin && rr == num_large_bins && nn == num_bins && nn > 0,
            nn * q + rr == tt && 0 <= rr < nn && q >= 1 && tt <= u64::MAX,
            forall|k: int| 0 <= k < stakes.len() ==> stakes[k] >= 0,
            0 < verif_i <= vals.len(),
            current_bin < num_bins && bin_validators@.len() == num_bins && bin_stakes@.len() == num_bins,
            current_bin_stake.0 <= cap(q, rr, current_bin as int),
            capsum(q, rr, current_bin as int) + current_bin_stake.0 + stake.0 == sum_where(stakes, verif_i as int, all_true()),
            current_bin_stake.0 == cap(q, rr, current_bin as int) ==> current_bin == num_bins - 1,
            forall|b: int| 0 <= b < num_bins ==> (#[trigger] bin_validators@[b])@.len() == bin_stakes@[b]@.len(),
            forall|b: int, k: int| 0 <= b < num_bins && 0 <= k < bin_validators@[b]@.len() ==> is_member(vals, #[trigger] bin_validators@[b]@[k]),
            v.id == vals[verif_i - 1].id,
            forall|b: int| 0 <= b < current_bin ==> nonempty_pos((#[trigger] bin_stakes@[b])@),
            current_bin_stake.0 > 0 ==> nonempty_pos(bin_stakes@[current_bin as int]@),
        decreases stake.0,
before `let stake_per_bin =`
        proof { assert(rr > 0 ==> q + 1 <= tt) by (nonlinear_arith) requires nn * q + rr == tt, nn >= 1, q >= 1 {} }
before `verif_push_at(&mut bin_validators, current_bin, v.id);`
        proof {
            // [C17.bins_differ_by_at_most_one_unit] the size chosen for the CURRENT bin: floor(total / bins), one more for the first total % bins
            assert(stake_per_bin.0 == cap(q, rr, current_bin as int));
            lemma_partial_le_total(stakes, verif_i as int);
            // room is left in the current bin: otherwise it is the last bin and everything has been assigned already
            if current_bin_stake.0 == cap(q, rr, current_bin as int) {
                lemma_capsum_all(q, rr, nn);
            }
            assert(current_bin_stake.0 < stake_per_bin.0);
        }
        let ghost cb0 = current_bin;
        let ghost bs0 = bin_stakes@;
        let ghost bv0 = bin_validators@;
after `stake -= stake_to_take;`
        proof {
            assert(stake_to_take.0 > 0);
            assert(bin_stakes@[cb0 as int]@[bs0[cb0 as int]@.len() as int] == stake_to_take);
            assert(nonempty_pos(bin_stakes@[cb0 as int]@));
            assert forall|b: int| 0 <= b < cb0 implies nonempty_pos((#[trigger] bin_stakes@[b])@) by { assert(bin_stakes@[b] == bs0[b]); }
            assert(is_member(vals, v.id)) by { assert(vals[verif_i - 1].id == v.id); }
            assert forall|b: int, k: int| 0 <= b < num_bins && 0 <= k < bin_validators@[b]@.len() implies is_member(vals, #[trigger] bin_validators@[b]@[k]) by {
                if b == cb0 { if k < bv0[cb0 as int]@.len() { assert(bin_validators@[b]@[k] == bv0[b]@[k]); } } else { assert(bin_validators@[b] == bv0[b]); }
            }
            assert forall|b: int| 0 <= b < num_bins implies (#[trigger] bin_validators@[b])@.len() == bin_stakes@[b]@.len() by {
                if b != cb0 { assert(bin_validators@[b] == bv0[b] && bin_stakes@[b] == bs0[b]); }
            }
        }
before `current_bin += 1;`
        proof {
            assert(current_bin_stake.0 == cap(q, rr, current_bin as int));
            lemma_capsum_step(q, rr, current_bin as int);
        }
loop 2
        invariant
            verif_b <= bin_stakes@.len() && bin_stakes@.len() == num_bins && bin_validators@.len() == num_bins,
            bins@.len() == verif_b,
            forall|b: int| 0 <= b < num_bins ==> (#[trigger] bin_validators@[b])@.len() == bin_stakes@[b]@.len(),
            forall|b: int| 0 <= b < verif_b ==> (#[trigger] bins@[b]).spec_len() == bin_validators@[b]@.len(),
            forall|b: int, k: int| 0 <= b < num_bins && 0 <= k < bin_validators@[b]@.len() ==> is_member(vals, #[trigger] bin_validators@[b]@[k]),
            // [C17.every_bin_can_be_sampled] every bin got a share (finding F10: with one common bin size the last bins stayed empty)
            forall|b: int| 0 <= b < num_bins ==> nonempty_pos((#[trigger] bin_stakes@[b])@),
        decreases bin_stakes@.len() - verif_b,
before `let mut bins: Vec<WeightedIndex> = Vec::with_capacity(num_bins);`
        proof {
            assert forall|id: ValidatorIndex| #[trigger] is_member(vals, id) implies is_member(validators0, id) by {}
            // all the stake has been assigned: the current bin is the last one and it is full
            lemma_capsum_all(q, rr, nn);
            lemma_capsum_step(q, rr, current_bin as int);
            lemma_capsum_mono(q, rr, current_bin as int + 1, nn);
            assert(current_bin == num_bins - 1);
            assert(current_bin_stake.0 == cap(q, rr, current_bin as int));
            assert forall|b: int| 0 <= b < num_bins implies nonempty_pos((#[trigger] bin_stakes@[b])@) by {}
        }
before `let mut validators_random = validators;`
        let ghost validators0 = validators@;
@*/
}

impl PartitionSampler {
/*@ extract src/disseminator/rotor/sampling_strategy.rs :: impl QuorumSamplingStrategy for PartitionSampler/fn quorum_size
props C17
ret r
ensures
        r == self.bins@.len(),
@*/
/*@ extract src/disseminator/rotor/sampling_strategy.rs :: impl QuorumSamplingStrategy for PartitionSampler/fn sample_quorum
props C17
ret r
sig `<R: Rng>` => ``
sig `rng: &mut R` => `rng: &mut AnyRng`
rewrite[R4] `for (bin, validators) in self.bins.iter().zip(self.bin_validators.iter()) {` => `let mut verif_z: usize = 0; while verif_z < self.bins.len() && verif_z < self.bin_validators.len() { let (bin, validators) = (&self.bins[verif_z], &self.bin_validators[verif_z]); verif_z += 1;`
rewrite[R10] `let mut samples = Vec::new();` => `let mut samples: Vec<ValidatorIndex> = Vec::new();`
requires
        // what PartitionSampler::new establishes (wf, proved above)
        self.bins@.len() == self.bin_validators@.len(),
        forall|b: int| 0 <= b < self.bins@.len() ==> (#[trigger] self.bins@[b]).spec_len() == self.bin_validators@[b]@.len(),
ensures
        // [C17.exactly_the_configured_number_of_seats]
        r@.len() == self.bins@.len(),
        // [C17.every_seat_goes_to_a_validator_of_its_bin] (hence to a member of the set)
        forall|b: int| 0 <= b < r@.len() ==> self.bin_validators@[b]@.contains(#[trigger] r@[b]),
loop 0
        invariant
            self.bins@.len() == self.bin_validators@.len(),
            forall|b: int| 0 <= b < self.bins@.len() ==> (#[trigger] self.bins@[b]).spec_len() == self.bin_validators@[b]@.len(),
            verif_z <= self.bins@.len(),
            samples@.len() == verif_z,
            forall|b: int| 0 <= b < samples@.len() ==> self.bin_validators@[b]@.contains(#[trigger] samples@[b]),
        decreases self.bins@.len() - verif_z,
@*/
}

impl FaitAccompli1Sampler {
/*@ extract src/disseminator/rotor/sampling_strategy.rs :: impl QuorumSamplingStrategy for FaitAccompli1Sampler<F>/fn sample_quorum
props C17
ret r
sig `<R: Rng>` => ``
sig `rng: &mut R` => `rng: &mut AnyRng`
requires
        // what the constructors establish (their seat arithmetic is floating point and not covered): the deterministic seats
        // plus the fallback's seats make up k, and the fallback sampler is well formed
        self.required_samples@.len() <= self.k && self.fallback_sampler.bins@.len() == self.k - self.required_samples@.len(),
        self.fallback_sampler.bins@.len() == self.fallback_sampler.bin_validators@.len(),
        forall|b: int| 0 <= b < self.fallback_sampler.bins@.len() ==> (#[trigger] self.fallback_sampler.bins@[b]).spec_len() == self.fallback_sampler.bin_validators@[b]@.len(),
ensures
        // [C17.exactly_the_configured_number_of_seats]
        r@.len() == self.k,
        // [C17.deterministic_seats_come_first_and_every_draw]
        r@.subrange(0, self.required_samples@.len() as int) == self.required_samples@,
@*/
}


// R8/R9 wrappers for the constructor
#[verifier::external_body]
pub fn verif_clone_validators(v: &Vec<ValidatorInfo>) -> (r: Vec<ValidatorInfo>)      // validators.clone()
    ensures r@ == v@
{ unimplemented!() }
// `required_samples.extend((0..samples).map(|_| v.id))`: `samples` copies of the id are appended
#[verifier::external_body]
pub fn verif_extend_repeat(out: &mut Vec<ValidatorIndex>, id: ValidatorIndex, samples: u64)
    ensures final(out)@ == old(out)@ + Seq::new(samples as nat, |j: int| id)
{ unimplemented!() }
// `validators_truncated_stake.iter().all(|v| v.stake == Stake::new(0))`
#[verifier::external_body]
pub fn verif_all_zero(v: &Vec<ValidatorInfo>) -> (r: bool)
    ensures r == (forall|i: int| 0 <= i < v@.len() ==> (#[trigger] v@[i]).stake.0 == 0)
{ unimplemented!() }

impl FaitAccompli1Sampler {
    // what sample_quorum relies on: the deterministic seats plus the fallback's bins make up k, the fallback is well formed
    pub open spec fn wf(&self) -> bool {
        &&& self.required_samples@.len() <= self.k && self.fallback_sampler.bins@.len() == self.k - self.required_samples@.len()
        &&& self.fallback_sampler.bins@.len() == self.fallback_sampler.bin_validators@.len()
        &&& forall|b: int| 0 <= b < self.fallback_sampler.bins@.len() ==> (#[trigger] self.fallback_sampler.bins@[b]).spec_len() == self.fallback_sampler.bin_validators@[b]@.len()
    }

/*@ extract src/disseminator/rotor/sampling_strategy.rs :: impl FaitAccompli1Sampler<PartitionSampler>/fn new_with_partition_fallback
props C17 C16
ret r
rewrite[R8] `validators.iter().map(|v| v.stake).sum()` => `verif_total_stake(&validators)`
rewrite[R9] `validators.clone()` => `verif_clone_validators(&validators)`
rewrite[R4] `for v in &mut validators_truncated_stake {` => `let mut verif_i: usize = 0; while verif_i < validators_truncated_stake.len() { let ghost trunc0 = validators_truncated_stake@; let v = &mut validators_truncated_stake[verif_i]; verif_i += 1;`
rewrite[R8] `required_samples.extend((0..samples).map(|_| v.id));` => `verif_extend_repeat(&mut required_samples, v.id, samples);`
rewrite[R8] `validators_truncated_stake .iter() .all(|v| v.stake == Stake::new(0))` => `verif_all_zero(&validators_truncated_stake)`
rewrite[R10] `let mut required_samples = Vec::new();` => `let mut required_samples: Vec<ValidatorIndex> = Vec::new();`
requires
        // "every validator set with positive stakes" whose total fits the stake type, any committee size
        validators@.len() > 0,
        forall|i: int| 0 <= i < validators@.len() ==> (#[trigger] validators@[i]).stake.0 > 0,
        total_of(validators@) <= u64::MAX,
        k > 0,
ensures
        // [C17.fa1_can_be_constructed_and_is_well_formed C16.fa1_can_be_constructed_and_is_well_formed] no arithmetic overflows or
        // underflows, no bin of the fallback stays empty, and sample_quorum's preconditions hold: k seats on every draw
        r.wf() && r.k == k,
        // [C17.validator_with_fraction_f_gets_floor_fk_seats] the deterministic seats: floor(stake_i * k / total) for validator i
        r.required_samples@ == req_seq(validators@, total_of(validators@), k as int, validators@.len() as int),
        // the fallback draws members of the set only
        r.fallback_sampler.wf(validators@),
after `let total_stake: Stake = verif_total_stake(&validators);`
        let ghost vals = validators@;
        let ghost st = spec_stakes(vals);
        let ghost tt = total_stake.0 as int;
        let ghost kk = k as int;
        proof {
            lemma_psum_is_sum_where(st, st.len() as int);
            assert forall|i: int| 0 <= i < st.len() implies #[trigger] st[i] == vals[i].stake.0 && st[i] > 0 by {}
            assert(tt > 0) by {
                lemma_partial_le_total(st, 1);
                assert(all_true()(0));
                assert(sum_where(st, 0, all_true()) == 0);
                assert(sum_where(st, 1, all_true()) == sum_where(st, 0, all_true()) + st[0]);
            }
            assert forall|i: int| 0 <= i < st.len() implies 0 <= #[trigger] st[i] <= tt by {
                lemma_partial_le_total(st, i + 1);
                lemma_sum_nonneg(st, i, all_true());
            }
            lemma_fa1_total(st, tt, kk);
            assert forall|i: int| 0 <= i < vals.len() implies (#[trigger] vals[i]).stake.0 <= tt by { assert(st[i] == vals[i].stake.0); }
        }
loop 0
        invariant
            vals == validators@ && st == spec_stakes(vals) && tt == total_stake.0 && kk == k && tt > 0 && kk > 0,
            forall|i: int| 0 <= i < st.len() ==> 0 <= #[trigger] st[i] <= tt,
            psum(f_stake(st), st.len() as int) == tt,
            forall|i: int| 0 <= i < vals.len() ==> (#[trigger] vals[i]).stake.0 <= tt,
            verif_i <= vals.len() && validators_truncated_stake@.len() == vals.len(),
            required_samples@ == req_seq(vals, tt, kk, verif_i as int),
            required_samples@.len() == psum(f_seats(st, tt, kk), verif_i as int),
            forall|j: int| 0 <= j < vals.len() ==> (#[trigger] validators_truncated_stake@[j]).id == vals[j].id,
            forall|j: int| 0 <= j < verif_i ==> (#[trigger] validators_truncated_stake@[j]).stake.0 == residual_of(st[j], tt, kk),
            forall|j: int| verif_i <= j < vals.len() ==> (#[trigger] validators_truncated_stake@[j]).stake.0 == st[j],
        decreases vals.len() - verif_i,
before `let samples = guaranteed_seats(v.stake, total_stake, k);`
        let ghost iv = (verif_i - 1) as int;
        proof {
            lemma_fa1_elem(st[iv], tt, kk);
            lemma_fa1_sums(st, tt, kk, iv + 1);
            lemma_fa1_sums(st, tt, kk, st.len() as int);
        }
after `verif_extend_repeat(&mut required_samples, v.id, samples);`
        proof {
            assert(samples as int == seats_of(st[iv], tt, kk));
            lemma_req_seq_len(vals, tt, kk, iv + 1);
            assert(validators_truncated_stake@.len() == trunc0.len());
            assert forall|j: int| 0 <= j < vals.len() && j != iv implies #[trigger] validators_truncated_stake@[j] == trunc0[j] by {}
            assert(validators_truncated_stake@[iv].id == trunc0[iv].id);
            assert(validators_truncated_stake@[iv].stake.0 == residual_of(st[iv], tt, kk));
        }
before `let all_zero = verif_all_zero(&validators_truncated_stake);`
        proof {
            lemma_fa1_total(st, tt, kk);
            lemma_req_seq_len(vals, tt, kk, vals.len() as int);
        }
before `let fallback_sampler = if all_zero {`
        let ghost trunc = validators_truncated_stake@;
        proof {
            // the residual total: at least one unit per seat that is left (and no seat is left when it is zero)
            lemma_residual_total(vals, trunc, tt, kk);
            lemma_fa1_sums(st, tt, kk, st.len() as int);
            lemma_fa1_total(st, tt, kk);
        }
@*/
}

impl FaitAccompli1Sampler {
// Canary: the real constructor under a false contract (claims nobody ever gets a deterministic seat); MUST fail.
/*@ extract src/disseminator/rotor/sampling_strategy.rs :: impl FaitAccompli1Sampler<PartitionSampler>/fn new_with_partition_fallback
as canary_new_with_partition_fallback
expect-fail
ret r
rewrite[R8] `validators.iter().map(|v| v.stake).sum()` => `verif_total_stake(&validators)`
rewrite[R9] `validators.clone()` => `verif_clone_validators(&validators)`
rewrite[R4] `for v in &mut validators_truncated_stake {` => `let mut verif_i: usize = 0; while verif_i < validators_truncated_stake.len() { let v = &mut validators_truncated_stake[verif_i]; verif_i += 1;`
rewrite[R8] `required_samples.extend((0..samples).map(|_| v.id));` => `verif_extend_repeat(&mut required_samples, v.id, samples);`
rewrite[R8] `validators_truncated_stake .iter() .all(|v| v.stake == Stake::new(0))` => `verif_all_zero(&validators_truncated_stake)`
rewrite[R10] `let mut required_samples = Vec::new();` => `let mut required_samples: Vec<ValidatorIndex> = Vec::new();`
requires
        validators@.len() > 0,
        total_of(validators@) <= u64::MAX,
        k > 0,
ensures
        r.required_samples@.len() == 0,
loop 0
        invariant true,
        decreases validators_truncated_stake@.len() - verif_i,
@*/
}

impl PartitionSampler {
// Canary: the real sample_quorum under a false contract (claims one seat too many); MUST fail.
/*@ extract src/disseminator/rotor/sampling_strategy.rs :: impl QuorumSamplingStrategy for PartitionSampler/fn sample_quorum
as canary_sample_quorum
expect-fail
ret r
sig `<R: Rng>` => ``
sig `rng: &mut R` => `rng: &mut AnyRng`
rewrite[R4] `for (bin, validators) in self.bins.iter().zip(self.bin_validators.iter()) {` => `let mut verif_z: usize = 0; while verif_z < self.bins.len() && verif_z < self.bin_validators.len() { let (bin, validators) = (&self.bins[verif_z], &self.bin_validators[verif_z]); verif_z += 1;`
rewrite[R10] `let mut samples = Vec::new();` => `let mut samples: Vec<ValidatorIndex> = Vec::new();`
requires
        self.bins@.len() == self.bin_validators@.len(),
        forall|b: int| 0 <= b < self.bins@.len() ==> (#[trigger] self.bins@[b]).spec_len() == self.bin_validators@[b]@.len(),
ensures
        r@.len() == self.bins@.len() + 1,
loop 0
        invariant
            self.bins@.len() == self.bin_validators@.len(),
            forall|b: int| 0 <= b < self.bins@.len() ==> (#[trigger] self.bins@[b]).spec_len() == self.bin_validators@[b]@.len(),
            verif_z <= self.bins@.len(),
            samples@.len() == verif_z,
        decreases self.bins@.len() - verif_z,
@*/
}

} // mod code

} // verus!

fn main() {}
