// Unit `sampler`: the integer-only stake partition of PartitionSampler::new and the seat counting of the
// quorum samplers (src/disseminator/rotor/sampling_strategy.rs).  Serves C17 (partial).
use vstd::prelude::*;

verus! {

/*@ include units/common/base_types.rs @*/
/*@ include units/common/sums.rs @*/

// the parts of ValidatorInfo read here
pub struct ValidatorInfo { pub id: ValidatorIndex, pub stake: Stake }

impl vstd::std_specs::ops::SubAssignSpecImpl<Stake> for Stake {
    open spec fn obeys_sub_assign_spec() -> bool { true }
    open spec fn sub_assign_req(&self, rhs: Stake) -> bool { self.0 >= rhs.0 }
    open spec fn sub_assign_spec(&self, rhs: Stake) -> &Stake { &Stake((self.0 - rhs.0) as u64) }
}
/*@ extract src/types/stake.rs :: impl SubAssign for Stake
rewrite[use-path] `impl SubAssign for Stake` => `impl std::ops::SubAssign for Stake`
@*/

// rand::distr::weighted::WeightedIndex<u64>: construction succeeds exactly for a non-empty list of weights with a positive sum
// that does not overflow (documented behaviour of WeightedIndex::new); sampling returns an index into that list.  TRUSTED.
#[verifier::external_body] pub struct WeightedIndex { _p: () }
impl WeightedIndex {
    pub uninterp spec fn spec_len(&self) -> nat;
}
#[verifier::external_body]
pub fn verif_weighted_index(stakes: &Vec<Stake>) -> (r: WeightedIndex)      // WeightedIndex::new(stakes.iter().map(|s| s.inner())).expect(..)
    requires
        // [C17.every_bin_can_be_sampled] the `expect` is a proof obligation
        stakes@.len() > 0,
        exists|i: int| 0 <= i < stakes@.len() && #[trigger] stakes@[i].0 > 0,
    ensures r.spec_len() == stakes@.len()
{ unimplemented!() }

pub struct PartitionSampler {
    pub bins: Vec<WeightedIndex>,
    pub bin_validators: Vec<Vec<ValidatorIndex>>,
    pub bin_stakes: Vec<Vec<Stake>>,
}

pub open spec fn spec_stakes(vals: Seq<ValidatorInfo>) -> Seq<int> { Seq::new(vals.len(), |i: int| vals[i].stake.0 as int) }
pub open spec fn total_of(vals: Seq<ValidatorInfo>) -> int { sum_where(spec_stakes(vals), vals.len() as int, all_true()) }

// R8 wrappers
#[verifier::external_body]
pub fn verif_vec_of_empty<T>(n: usize) -> (r: Vec<Vec<T>>)         // vec![Vec::new(); n]
    ensures r@.len() == n, forall|i: int| 0 <= i < n ==> (#[trigger] r@[i])@.len() == 0
{ unimplemented!() }
#[verifier::external_body]
pub fn verif_total_stake(vals: &Vec<ValidatorInfo>) -> (r: Stake)  // validators.iter().map(|v| v.stake).sum()
    requires total_of(vals@) <= u64::MAX        // the sum of all stakes fits (EpochInfo computes the same sum)
    ensures r.0 == total_of(vals@)
{ unimplemented!() }
// `v.shuffle(&mut rand::rng())`: some permutation of the list (drawn from the THREAD-LOCAL generator: observation F9)
#[verifier::external_body]
pub fn verif_shuffle(v: &mut Vec<ValidatorInfo>)
    ensures final(v)@.to_multiset() == old(v)@.to_multiset(), final(v)@.len() == old(v)@.len()
{ unimplemented!() }
#[verifier::external_body]
pub fn verif_push_at<T>(v: &mut Vec<Vec<T>>, i: usize, x: T)        // v[i].push(x)
    requires i < old(v)@.len()
    ensures
        final(v)@.len() == old(v)@.len(),
        final(v)@[i as int]@ == old(v)@[i as int]@.push(x),
        forall|k: int| 0 <= k < old(v)@.len() && k != i ==> #[trigger] final(v)@[k] == old(v)@[k],
{ unimplemented!() }
#[verifier::external_body]
pub fn verif_stake_min(a: Stake, b: Stake) -> (r: Stake)            // a.min(b) (derived Ord on the newtype)
    ensures r.0 == (if a.0 <= b.0 { a.0 } else { b.0 })
{ unimplemented!() }
pub assume_specification[ u64::div_ceil ](a: u64, b: u64) -> (r: u64)
    requires b > 0
    ensures r == (if a % b == 0 { a / b } else { a / b + 1 });

pub mod code {
use super::*;

impl Stake {
/*@ extract src/types/stake.rs :: impl Stake/fn div_ceil
ret r
requires
        divisor > 0,
ensures
        r.0 == (if self.0 % divisor == 0 { self.0 / divisor } else { self.0 / divisor + 1 }),
@*/
}

} // mod code

} // verus!

fn main() {}
