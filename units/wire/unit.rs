// Unit `wire`: hand-written length guards of the certificate bitmask decoder (src/crypto/aggsig.rs
// read_bitvec) and the bounded index newtypes.  Serves C19 (partial) and the decoder side of C10.
use vstd::prelude::*;

verus! {

/*@ include units/common/base_types.rs @*/

/*@ extract src/crypto/aggsig.rs :: const MAX_SIGNERS
@*/
/*@ extract src/types/slice_index.rs :: const MAX_SLICES_PER_BLOCK
@*/
/*@ extract src/shredder.rs :: const TOTAL_SHREDS
@*/
/*@ extract src/types/slice_index.rs :: struct SliceIndex
derive Clone, Copy
@*/
/*@ extract src/shredder/shred_index.rs :: struct ShredIndex
derive Clone, Copy
@*/

// stand-in for the error type of the `wincode` crate (only the variant used here)
pub mod wincode {
    pub enum ReadError { Custom(&'static str) }
}

// number of 64-bit words an honest encoder writes for an n-bit mask
pub open spec fn words_for(n: int) -> int { (n + 63) / 64 }

pub mod code {
use super::*;

pub assume_specification[ usize::div_ceil ](a: usize, b: usize) -> (r: usize)
    requires b > 0,
    ensures r as int == (a as int + b as int - 1) / (b as int);

// The two guards of read_bitvec (verbatim statements) as a function of the decoded lengths.
/*@ extract-stmts src/crypto/aggsig.rs :: fn read_bitvec
props C19 C10
from `let bitmask_raw_vec = <Vec<usize> as SchemaRead<'de, C>>::get(&mut *reader)?;`
drop `let bitmask_raw_vec = <Vec<usize> as SchemaRead<'de, C>>::get(&mut *reader)?;`
to `return Err(wincode::ReadError::Custom("want to use too many bits")); }`
wrap fn read_bitvec_guards(raw_len: usize, num_bits: usize, max_bits: usize) -> (r: Result<(), wincode::ReadError>)
tail Ok(())
rewrite*[stmt-range-param] `bitmask_raw_vec.len()` => `raw_len`
requires
        max_bits <= 1 << 20,
ensures
        // [C19.bitmask_lengths_accepted_exactly_when_consistent C10.bitmask_lengths_accepted_exactly_when_consistent]
        r is Ok <==> (raw_len as int <= words_for(max_bits as int) && num_bits as int <= 64 * raw_len as int),
@*/

impl SliceIndex {
/*@ extract src/types/slice_index.rs :: impl SliceIndex/fn new
props C19 C10
ret r
ensures
        // [C19.slice_index_in_range C10.slice_index_in_range]
        r matches Some(x) ==> x.0 == index && index < MAX_SLICES_PER_BLOCK,
        r is None <==> index >= MAX_SLICES_PER_BLOCK,
@*/
}
impl ShredIndex {
/*@ extract src/shredder/shred_index.rs :: impl ShredIndex/fn new
props C19 C10
ret r
ensures
        // [C19.shred_index_in_range C10.shred_index_in_range]
        r matches Some(x) ==> x.0 == index && index < TOTAL_SHREDS,
        r is None <==> index >= TOTAL_SHREDS,
@*/
}

// Canary: MUST fail (claims every length pair is accepted).
/*@ extract-stmts src/crypto/aggsig.rs :: fn read_bitvec
expect-fail
from `let bitmask_raw_vec = <Vec<usize> as SchemaRead<'de, C>>::get(&mut *reader)?;`
drop `let bitmask_raw_vec = <Vec<usize> as SchemaRead<'de, C>>::get(&mut *reader)?;`
to `return Err(wincode::ReadError::Custom("want to use too many bits")); }`
wrap fn canary_read_bitvec_guards(raw_len: usize, num_bits: usize, max_bits: usize) -> (r: Result<(), wincode::ReadError>)
tail Ok(())
rewrite*[stmt-range-param] `bitmask_raw_vec.len()` => `raw_len`
requires
        max_bits <= 1 << 20,
ensures
        r is Ok,
@*/

} // mod code

// [C19.honest_bitmask_always_decodes]  Every mask an honest node encodes - n bits for a validator set of
// n <= MAX_SIGNERS, in ceil(n/64) words - passes both guards; conversely an accepted pair never lets
// `truncate(num_bits)` exceed the decoded words, and the word count is at most 32 (so the MTU-capped
// preallocation and BitVec::try_from_vec cannot fail).
pub proof fn theorem_honest_bitmask_accepted(n: int)
    requires 0 <= n <= 2048,
    ensures
        words_for(n) <= words_for(2048),
        n <= 64 * words_for(n),
        words_for(2048) == 32,
{
}

} // verus!

fn main() {}
