// Unit `wire`: hand-written length guards of the certificate bitmask decoder (src/crypto/aggsig.rs
// read_bitvec) and the bounded index newtypes.  Serves C19 (partial) and the decoder side of C10.
use vstd::prelude::*;

verus! {

/*@ include units/common/base_types.rs @*/

/*@ extract src/crypto/aggsig.rs :: const MAX_SIGNERS
@*/
/*@ extract src/types/slice_index.rs :: const MAX_SLICES_PER_BLOCK
@*/
/*@ extract src/shredder.rs :: const TOTAL_SHREDS
@*/
/*@ extract src/types/slice_index.rs :: struct SliceIndex
derive Clone, Copy
@*/
/*@ extract src/shredder/shred_index.rs :: struct ShredIndex
derive Clone, Copy
@*/

// stand-in for the error type of the `wincode` crate (only the variant used here)
pub mod wincode {
    pub enum ReadError { Custom(&'static str) }
}
// `.map_err(|e| { warn!(..); wincode::ReadError::Custom("invalid BLS encoding") })` (R8)
pub fn verif_map_bls_err(r: Result<BlstSignature, BlstError>) -> (o: Result<BlstSignature, wincode::ReadError>)
    ensures r matches Ok(s) ==> o == Ok::<BlstSignature, wincode::ReadError>(s), r is Err ==> o is Err
{ match r { Ok(s) => Ok(s), Err(_) => Err(wincode::ReadError::Custom("invalid BLS encoding")) } }

// ---------------------------------------------------------------- AggregateSignature on the wire
/*@ extract src/crypto/aggsig.rs :: const UNCOMPRESSED_SIG_SIZE
@*/
// blst's signature point and its two byte encodings (TRUSTED): `serialize()` is the 96-byte uncompressed form,
// `to_bytes()` the 48-byte compressed one; `from_bytes` inverts the encoding of the length it is given
#[verifier::external_body] pub struct BlstSignature { _p: () }
#[verifier::external_body] pub struct BlstError { _p: () }
pub uninterp spec fn spec_ser(sig: BlstSignature) -> Seq<u8>;      // uncompressed
pub uninterp spec fn spec_comp(sig: BlstSignature) -> Seq<u8>;     // compressed
impl BlstSignature {
    #[verifier::external_body]
    pub fn serialize(&self) -> (r: [u8; 96]) ensures r@ == spec_ser(*self) { unimplemented!() }
    #[verifier::external_body]
    pub fn to_bytes(&self) -> (r: [u8; 48]) ensures r@ == spec_comp(*self) { unimplemented!() }
    #[verifier::external_body]
    pub fn from_bytes(bytes: &[u8]) -> (r: Result<BlstSignature, BlstError>)
        ensures
            r matches Ok(s) ==> spec_de(bytes@) == Some(s),
            r is Err ==> spec_de(bytes@) is None,
    { unimplemented!() }
}
// what from_bytes decodes; it inverts the uncompressed encoding (TRUSTED blst fact)
pub uninterp spec fn spec_de(bytes: Seq<u8>) -> Option<BlstSignature>;
#[verifier::external_body]
pub proof fn axiom_de_ser(s: BlstSignature)
    ensures spec_de(spec_ser(s)) == Some(s), spec_ser(s).len() == 96
{}
// what read_bitvec decodes from the front of a byte string: the mask and the number of bytes consumed
pub uninterp spec fn spec_read_bitvec(bytes: Seq<u8>, max_bits: usize) -> Option<(BitVec, nat)>;
// ASSUMED: read_bitvec inverts write_bitvec on a mask an honest node encodes (its length guards are verified above)
#[verifier::external_body]
pub proof fn axiom_read_write_bitvec(b: BitVec, tail: Seq<u8>, max_bits: usize)
    requires honest_mask(b, max_bits),
    ensures spec_read_bitvec(spec_bitvec_bytes(b) + tail, max_bits) == Some((b, spec_bitvec_bytes(b).len()))
{}
pub uninterp spec fn honest_mask(b: BitVec, max_bits: usize) -> bool;
// the signer bitmask (bitvec::BitVec) and its encoding by write_bitvec / read_bitvec: bit count, word count, words.
// Their length guards are verified above; that read_bitvec inverts write_bitvec on an honest mask is ASSUMED here.
#[verifier::external_body] pub struct BitVec { _p: () }
pub uninterp spec fn spec_bitvec_bytes(b: BitVec) -> Seq<u8>;
pub uninterp spec fn spec_raw_words(b: BitVec) -> nat;
#[verifier::external_body]
pub proof fn axiom_bitvec_bytes_len(b: BitVec)
    ensures spec_bitvec_bytes(b).len() == 8 + 8 + 8 * spec_raw_words(b)
{}
impl BitVec {
    #[verifier::external_body]
    pub fn verif_raw_len(&self) -> (r: usize) ensures r == spec_raw_words(*self), r <= 0x1000_0000 { unimplemented!() }   // as_raw_slice().len()
}
/*@ extract src/crypto/aggsig.rs :: struct AggregateSignature
derive
rewrite[R8] `BlstSignature` => `BlstSignature`
@*/
// wincode's Writer / Reader over a byte buffer, as ghost byte sequences
#[verifier::external_body] pub struct VWriter { _p: () }
#[verifier::external_body] pub struct VReader { _p: () }
pub struct WriteError;
impl VWriter {
    pub uninterp spec fn out(&self) -> Seq<u8>;
    #[verifier::external_body]
    pub fn write(&mut self, bytes: &[u8]) -> (r: Result<(), WriteError>)
        ensures r is Ok ==> final(self).out() == old(self).out() + bytes@, r is Err ==> final(self).out() == old(self).out()
    { unimplemented!() }
}
impl VReader {
    pub uninterp spec fn rest(&self) -> Seq<u8>;
    // Reader::take_borrowed(n): the next n bytes, or an error (nothing consumed) if fewer are left
    #[verifier::external_body]
    pub fn take_borrowed(&mut self, n: usize) -> (r: Result<&[u8], wincode::ReadError>)
        ensures
            old(self).rest().len() >= n ==> (r matches Ok(b) && b@ == old(self).rest().subrange(0, n as int) && final(self).rest() == old(self).rest().subrange(n as int, old(self).rest().len() as int)),
            old(self).rest().len() < n ==> r is Err,
    { unimplemented!() }
}

// number of 64-bit words an honest encoder writes for an n-bit mask
pub open spec fn words_for(n: int) -> int { (n + 63) / 64 }

// what AggregateSignature::read decodes from the front of a byte string
pub open spec fn spec_read_aggsig(bytes: Seq<u8>) -> Option<(AggregateSignature, nat)> {
    if bytes.len() < UNCOMPRESSED_SIG_SIZE { None } else {
        match spec_de(bytes.subrange(0, UNCOMPRESSED_SIG_SIZE as int)) {
            None => None,
            Some(sig) => match spec_read_bitvec(bytes.subrange(UNCOMPRESSED_SIG_SIZE as int, bytes.len() as int), MAX_SIGNERS) {
                None => None,
                Some(d) => Some((AggregateSignature { sig, bitmask: d.0 }, (UNCOMPRESSED_SIG_SIZE + d.1) as nat)),
            },
        }
    }
}
// THEOREM [C19.aggregate_signature_round_trips]: the bytes `write` produces for an aggregate with an honest mask decode, by
// `read`, to exactly that aggregate, consuming exactly those bytes
pub proof fn theorem_aggsig_round_trip(a: AggregateSignature, tail: Seq<u8>)
    requires honest_mask(a.bitmask, MAX_SIGNERS),
    ensures spec_read_aggsig(spec_ser(a.sig) + spec_bitvec_bytes(a.bitmask) + tail)
        == Some((a, (spec_ser(a.sig).len() + spec_bitvec_bytes(a.bitmask).len()) as nat)),
{
    axiom_de_ser(a.sig);
    let bytes = spec_ser(a.sig) + spec_bitvec_bytes(a.bitmask) + tail;
    assert(bytes.subrange(0, 96) =~= spec_ser(a.sig));
    assert(bytes.subrange(96, bytes.len() as int) =~= spec_bitvec_bytes(a.bitmask) + tail);
    axiom_read_write_bitvec(a.bitmask, tail, MAX_SIGNERS);
}

pub mod code {
use super::*;

pub assume_specification[ usize::div_ceil ](a: usize, b: usize) -> (r: usize)
    requires b > 0,
    ensures r as int == (a as int + b as int - 1) / (b as int);

// The two guards of read_bitvec (verbatim statements) as a function of the decoded lengths.
/*@ extract-stmts src/crypto/aggsig.rs :: fn read_bitvec
props C19 C10
from `let bitmask_raw_vec = <Vec<usize> as SchemaRead<'de, C>>::get(&mut *reader)?;`
drop `let bitmask_raw_vec = <Vec<usize> as SchemaRead<'de, C>>::get(&mut *reader)?;`
to `return Err(wincode::ReadError::Custom("want to use too many bits")); }`
wrap fn read_bitvec_guards(raw_len: usize, num_bits: usize, max_bits: usize) -> (r: Result<(), wincode::ReadError>)
tail Ok(())
rewrite*[stmt-range-param] `bitmask_raw_vec.len()` => `raw_len`
requires
        max_bits <= 1 << 20,
ensures
        // [C19.bitmask_lengths_accepted_exactly_when_consistent C10.bitmask_lengths_accepted_exactly_when_consistent]
        r is Ok <==> (raw_len as int <= words_for(max_bits as int) && num_bits as int <= 64 * raw_len as int),
@*/

// write_bitvec / read_bitvec as a matched pair (ASSUMED; the guards of read_bitvec are verified above)
#[verifier::external_body]
pub fn write_bitvec(writer: &mut VWriter, bitmask: &BitVec) -> (r: Result<(), WriteError>)
    ensures r is Ok ==> final(writer).out() == old(writer).out() + spec_bitvec_bytes(*bitmask)
{ unimplemented!() }
#[verifier::external_body]
pub fn read_bitvec(reader: &mut VReader, max_bits: usize) -> (r: Result<BitVec, wincode::ReadError>)
    ensures
        spec_read_bitvec(old(reader).rest(), max_bits) matches Some(d) ==> r == Ok::<BitVec, wincode::ReadError>(d.0)
            && d.1 <= old(reader).rest().len() && final(reader).rest() == old(reader).rest().subrange(d.1 as int, old(reader).rest().len() as int),
        spec_read_bitvec(old(reader).rest(), max_bits) is None ==> r is Err,
{ unimplemented!() }

/*@ extract src/crypto/aggsig.rs :: fn bitvec_size
props C19
ret r
rewrite[R8] `bitmask.as_raw_slice().len()` => `bitmask.verif_raw_len()`
ensures
        r == spec_bitvec_bytes(*bitmask).len(),
        r <= 0x1_0000_0000,
before `8 + 8 + 8 *`
        proof { axiom_bitvec_bytes_len(*bitmask); }
@*/

/*@ extract src/crypto/aggsig.rs :: impl SchemaWrite<C> for AggregateSignature/fn size_of
props C19
ret r
sig `src: &Self::Src` => `src: &AggregateSignature`
sig `wincode::WriteResult<usize>` => `Result<usize, WriteError>`
ensures
        // [C19.size_of_is_what_write_produces]
        r matches Ok(n) && n == UNCOMPRESSED_SIG_SIZE + spec_bitvec_bytes(src.bitmask).len(),
@*/

/*@ extract src/crypto/aggsig.rs :: impl SchemaWrite<C> for AggregateSignature/fn write
props C19
ret r
sig `mut writer: impl wincode::io::Writer` => `writer: &mut VWriter`
sig `src: &Self::Src` => `src: &AggregateSignature`
sig `wincode::WriteResult<()>` => `Result<(), WriteError>`
rewrite[R6] `write_bitvec::<C>(&mut writer,` => `write_bitvec(writer,`
ensures
        // [C19.aggregate_signature_is_written_in_the_encoding_read_expects] exactly UNCOMPRESSED_SIG_SIZE bytes of the
        // UNCOMPRESSED point encoding (what `read` takes and `from_bytes` inverts), then the bitmask
        r is Ok ==> final(writer).out() == old(writer).out() + spec_ser(src.sig) + spec_bitvec_bytes(src.bitmask),
        r is Ok ==> spec_ser(src.sig).len() == UNCOMPRESSED_SIG_SIZE,
@*/

/*@ extract src/crypto/aggsig.rs :: impl SchemaRead<'de, C> for AggregateSignature/fn read
props C19
ret r
sig `mut reader: impl wincode::io::Reader<'de>` => `reader: &mut VReader`
sig `dst: &mut MaybeUninit<Self::Dst>` => `dst: &mut Option<AggregateSignature>`
sig `wincode::ReadResult<()>` => `Result<(), wincode::ReadError>`
rewrite[R8] `BlstSignature::from_bytes(sig_bytes).map_err(|e| { wincode::ReadError::Custom("invalid BLS encoding") })?` => `verif_map_bls_err(BlstSignature::from_bytes(sig_bytes))?`
rewrite[R6] `read_bitvec::<C>(&mut reader, MAX_SIGNERS)` => `read_bitvec(reader, MAX_SIGNERS)`
rewrite[R8] `dst.write(AggregateSignature { sig, bitmask });` => `*dst = Some(AggregateSignature { sig, bitmask });`
rewrite[R6] `wincode::ReadResult::Ok(())` => `Ok(())`
ensures
        // [C19.aggregate_signature_read_takes_the_uncompressed_point_then_the_mask] (the round trip is theorem_aggsig_round_trip)
        r is Ok <==> spec_read_aggsig(old(reader).rest()) is Some,
        r is Ok ==> *final(dst) == Some((spec_read_aggsig(old(reader).rest())->0).0)
            && final(reader).rest() == old(reader).rest().subrange((spec_read_aggsig(old(reader).rest())->0).1 as int, old(reader).rest().len() as int),
@*/

impl SliceIndex {
/*@ extract src/types/slice_index.rs :: impl SliceIndex/fn new
props C19 C10
ret r
ensures
        // [C19.slice_index_in_range C10.slice_index_in_range]
        r matches Some(x) ==> x.0 == index && index < MAX_SLICES_PER_BLOCK,
        r is None <==> index >= MAX_SLICES_PER_BLOCK,
@*/
}
impl ShredIndex {
/*@ extract src/shredder/shred_index.rs :: impl ShredIndex/fn new
props C19 C10
ret r
ensures
        // [C19.shred_index_in_range C10.shred_index_in_range]
        r matches Some(x) ==> x.0 == index && index < TOTAL_SHREDS,
        r is None <==> index >= TOTAL_SHREDS,
@*/
}

// Canary: MUST fail (claims every length pair is accepted).
/*@ extract-stmts src/crypto/aggsig.rs :: fn read_bitvec
expect-fail
from `let bitmask_raw_vec = <Vec<usize> as SchemaRead<'de, C>>::get(&mut *reader)?;`
drop `let bitmask_raw_vec = <Vec<usize> as SchemaRead<'de, C>>::get(&mut *reader)?;`
to `return Err(wincode::ReadError::Custom("want to use too many bits")); }`
wrap fn canary_read_bitvec_guards(raw_len: usize, num_bits: usize, max_bits: usize) -> (r: Result<(), wincode::ReadError>)
tail Ok(())
rewrite*[stmt-range-param] `bitmask_raw_vec.len()` => `raw_len`
requires
        max_bits <= 1 << 20,
ensures
        r is Ok,
@*/


// ---------------------------------------------------------------- "decoding rejects trailing bytes": the one decode entry point
// wincode (external crate): what a byte string decodes to from its front - the value and the number of bytes consumed - is
// uninterpreted; the DOCUMENTED difference between its two entry points is TRUSTED: `deserialize_exact` also demands that every
// byte was consumed, `deserialize` does not.
pub uninterp spec fn spec_decode_front<T>(bytes: Seq<u8>) -> Option<(T, nat)>;
pub struct NetworkMessageConfig { pub _p: () }
impl NetworkMessageConfig { pub fn new() -> (r: Self) { NetworkMessageConfig { _p: () } } }
pub type ReadResult<T> = Result<T, wincode::ReadError>;
#[verifier::external_body]
pub fn wincode_deserialize_exact<T>(bytes: &[u8], cfg: NetworkMessageConfig) -> (r: ReadResult<T>)
    ensures
        r matches Ok(v) ==> spec_decode_front::<T>(bytes@) == Some((v, bytes@.len() as nat)),
        r is Err ==> !(spec_decode_front::<T>(bytes@) matches Some(p) && p.1 == bytes@.len()),
{ unimplemented!() }
#[verifier::external_body]
pub fn wincode_deserialize<T>(bytes: &[u8], cfg: NetworkMessageConfig) -> (r: ReadResult<T>)
    ensures
        r matches Ok(v) ==> (spec_decode_front::<T>(bytes@) matches Some(p) && p.0 == v),
        r is Err ==> spec_decode_front::<T>(bytes@) is None,
{ unimplemented!() }
// the message a datagram carries: it decodes from the front AND nothing is left over
pub open spec fn spec_datagram<T>(bytes: Seq<u8>) -> Option<T> {
    match spec_decode_front::<T>(bytes) {
        Some(p) => if p.1 == bytes.len() { Some(p.0) } else { None },
        None => None,
    }
}
/*@ extract src/network.rs :: fn deserialize
props C19 C10
ret r
sig `<'de, T>` => `<T>`
sig `&'de [u8]` => `&[u8]`
sig `where T: SchemaRead<'de, NetworkMessageConfig, Dst = T>,` => ``
rewrite?[R8] `wincode::config::deserialize_exact(` => `wincode_deserialize_exact(`
rewrite?[R8] `wincode::config::deserialize(` => `wincode_deserialize(`
ensures
        // [C19.trailing_bytes_are_rejected C10.trailing_bytes_are_rejected] a byte string is a message only if it decodes with nothing left over
        r matches Ok(v) ==> spec_datagram::<T>(bytes@) == Some(v),
        r is Err ==> spec_datagram::<T>(bytes@) is None,
@*/
// UdpNetwork<S, R> (src/network/udp.rs): only the associated function `decode` is used here
pub struct UdpNetwork<S, R> { pub _s: std::marker::PhantomData<S>, pub _r: std::marker::PhantomData<R> }
impl<S, R> UdpNetwork<S, R> {
/*@ extract src/network/udp.rs :: impl UdpNetwork<S, R>/fn decode
props C19 C10
ret r
rewrite?[R8] `crate::network::deserialize(` => `deserialize(`
rewrite?[R8] `wincode::config::deserialize_exact(` => `wincode_deserialize_exact(`
rewrite?[R8] `wincode::config::deserialize(` => `wincode_deserialize(`
ensures
        // [C19.trailing_bytes_are_rejected_at_the_socket C10.trailing_bytes_are_rejected_at_the_socket] what the UDP interface hands
        // to a node is a message exactly when the whole datagram is one
        r == spec_datagram::<R>(bytes@),
@*/
}

} // mod code

// [C19.honest_bitmask_always_decodes]  Every mask an honest node encodes - n bits for a validator set of
// n <= MAX_SIGNERS, in ceil(n/64) words - passes both guards; conversely an accepted pair never lets
// `truncate(num_bits)` exceed the decoded words, and the word count is at most 32 (so the MTU-capped
// preallocation and BitVec::try_from_vec cannot fail).
pub proof fn theorem_honest_bitmask_accepted(n: int)
    requires 0 <= n <= 2048,
    ensures
        words_for(n) <= words_for(2048),
        n <= 64 * words_for(n),
        words_for(2048) == 32,
{
}

} // verus!

fn main() {}
